"""R2 (entry-point) replay for the coordinate-initialisation bundle (C14, distance clause).

The counter-model gives, for the moved coordinate, the box offsets sl, su and the radius delta (and rhoend, the batched flag).  They are rescaled to rhobeg = 1 and
planted into small real problems (n = 1..3, every coordinate position, npt = n+1 and 2n+1); dfols.solve of the tree under test is run with maxfun = npt and the
points it evaluates are checked: inside the bounds, and between 0.01*rhobeg and 2*rhobeg from the projected x0.  A short grid of placements near the bounds is
searched as well, so a failing input is found even when the model's own numbers are not the interesting ones.
argv[1]: JSON {obligation, model, meta};  prints one JSON line {replayable, reproduced, inputs, observed}"""
import sys, json, re, itertools, warnings
import numpy as np

warnings.filterwarnings('ignore')
req = json.loads(sys.argv[1])
model = req.get('model') or {}


def num(s):
    try:
        if '/' in s:
            a, b = s.split('/')
            return float(a) / float(b)
        return float(s)
    except Exception:
        return None


def scalar(prefix):
    for k, v in model.items():
        if k.split('!')[0] == prefix and isinstance(v, str):
            return num(v.strip())
    return None


def array_values(prefix):
    """all element values a Store chain mentions (plus the default)"""
    out = []
    for k, v in model.items():
        if k.split('!')[0] == prefix and isinstance(v, str):
            out += [num(x) for x in re.findall(r'(-?[0-9]+(?:/[0-9]+)?(?:\.[0-9]+)?)\s*\)', v)]
    return [x for x in out if x is not None]


delta = scalar('self.delta') or 1.0
rhoend_ratio = min(max((scalar('self.rhoend') or 1e-8 * delta) / delta, 1e-12), 0.5)
pairs = []
sls, sus = array_values('self.model.sl'), array_values('self.model.su')
for a in sls:
    for b in sus:
        if a <= 0 <= b and b - a >= 2 * delta:
            pairs.append((a / delta, b / delta))
# grid of placements of x0 (= 0) relative to one coordinate's bounds, in units of rhobeg
hairs = [0.0, 1e-9, 1e-6, 1e-3, 0.005, 0.009999, 0.010001, 0.02, 0.5, 1.0, 1.5]
for h in hairs:
    pairs += [(-h, -h + w) for w in (2.0, 2.5, 10.0, 1e20)] + [(h - w, h) for w in (2.0, 2.5, 10.0, 1e20)]
pairs.append((-1e20, 1e20))
parallel = any(k.startswith('P_init.run_in_parallel') and str(v) == 'True' for k, v in model.items())


def check(n, pos, sl, su, npt, rhoend, par):
    import dfols
    xl = np.full(n, -50.0); xu = np.full(n, 50.0)
    xl[pos], xu[pos] = sl, su
    x0 = np.zeros(n)
    pts = []

    def f(x):
        pts.append(x.copy())
        return np.concatenate([x - 0.3, [1.0]])
    up = {'init.run_in_parallel': True} if par else {}
    try:
        dfols.solve(f, x0, bounds=(xl, xu), npt=npt, rhobeg=1.0, rhoend=rhoend, maxfun=npt, user_params=up)
    except Exception as ex:
        return None
    if not pts:
        return None
    p0 = pts[0]
    for i, p in enumerate(pts[1:npt], 1):
        d = float(np.linalg.norm(p - p0))
        if np.any(p < xl) or np.any(p > xu) or not (0.01 * (1 - 1e-9) <= d <= 2.0 * (1 + 1e-9)):
            return {'n': n, 'coordinate': pos, 'xl': xl.tolist(), 'xu': xu.tolist(), 'x0': x0.tolist(), 'npt': npt, 'rhobeg': 1.0, 'rhoend': rhoend,
                    'init.run_in_parallel': par, 'evaluation': i + 1, 'point': p.tolist(), 'distance_from_x0_in_rhobeg': d}
    return False


out = {'replayable': True, 'reproduced': False, 'tried': 0}
try:
    seen = set()
    for (a, b) in pairs:
        if (a, b) in seen or not (a <= 0 <= b) or b - a < 2.0:
            continue
        seen.add((a, b))
        for n in (1, 2, 3):
            for pos in range(n):
                for npt in (n + 1, 2 * n + 1):
                    for par in ([parallel] if npt > n + 1 else sorted({parallel, False})):
                        for rhoend in sorted({rhoend_ratio, 1e-8}):
                            out['tried'] += 1
                            r = check(n, pos, a, b, npt, rhoend, par)
                            if r:
                                out.update(reproduced=True, inputs=r, how='dfols.solve run on this input with maxfun = npt; evaluated points checked against the C14 envelope',
                                           observed='evaluation %d is %.6g*rhobeg from the projected x0' % (r['evaluation'], r['distance_from_x0_in_rhobeg']))
                                raise StopIteration
except StopIteration:
    pass
except Exception as ex:
    out = {'replayable': False, 'reproduced': None, 'error': repr(ex)[:300]}
print(json.dumps(out))
