"""R2 (entry-point) replay for the off-diagonal clause of the coordinate initialisation (C14, bundle coordoff): dfols.solve of the tree under test on seeded small problems with the
FULL quadratic set npt = (n+1)(n+2)/2 (n = 2..4), x0 inside the box / on faces / in corners, objectives that decrease towards either side (so that the exchange of the two points of a
coordinate is triggered or not), maxfun = npt; every evaluated point after the first must lie between 0.01*rhobeg and 2*rhobeg from the (projected) x0.
argv[1]: JSON {obligation, model, meta};  prints one JSON line."""
import sys, json, warnings
import numpy as np
warnings.simplefilter('ignore')
out = {'replayable': True, 'reproduced': False, 'tried': 0}
try:
    import dfols
    rng = np.random.default_rng(0)
    for trial in range(240):
        n = int(rng.integers(2, 5))
        npt = (n + 1) * (n + 2) // 2
        rhobeg = float(rng.choice([0.1, 0.5, 1.0]))
        x0 = rng.normal(size=n)
        xl, xu = x0 - 10.0, x0 + 10.0
        for j in range(n):
            c = rng.integers(0, 4)
            if c == 1:
                xl[j] = x0[j]                       # on the lower face
            elif c == 2:
                xu[j] = x0[j]                       # on the upper face
            elif c == 3:
                xl[j] = x0[j] - 0.005 * rhobeg      # a hair above the lower bound
        target = x0 + rng.choice([-3.0, 3.0], size=n) * rhobeg
        A = rng.normal(size=(n + 2, n))
        pts = []

        def f(x):
            pts.append(np.array(x, dtype=float))
            return np.concatenate([x - target, 0.1 * (A @ (x - target))])
        try:
            dfols.solve(f, x0.copy(), bounds=(xl, xu), npt=npt, rhobeg=rhobeg, rhoend=1e-3 * rhobeg, maxfun=npt)
        except Exception as ex:      # noqa
            continue
        out['tried'] += 1
        base = pts[0]
        for i, p in enumerate(pts[1:npt], 1):
            dist = float(np.linalg.norm(p - base))
            if not (0.01 * rhobeg * (1 - 1e-9) <= dist <= 2.0 * rhobeg * (1 + 1e-9)):
                out.update(reproduced=True, inputs={'n': n, 'npt': npt, 'x0': x0.tolist(), 'lower': xl.tolist(), 'upper': xu.tolist(), 'rhobeg': rhobeg, 'target': target.tolist(), 'rng_seed': 0, 'trial': trial},
                           observed='initial point %d is %.6g away from x0: outside [0.01, 2] * rhobeg = [%g, %g]' % (i + 1, dist, 0.01 * rhobeg, 2 * rhobeg))
                raise StopIteration
except StopIteration:
    pass
except Exception as ex:
    import traceback
    out = {'replayable': False, 'reproduced': None, 'error': traceback.format_exc()[-400:]}
print(json.dumps(out))
