"""R1 replay for the preconditioning-consistency bundle (C16 iv): builds real Model objects (random point sets of several spreads, preconditioning on and off), calls the REAL
Model.interpolation_matrix of the tree under test and checks the clause natively: W == [1 | xpt_directions] with column j multiplied by right_scaling[j], no row scaling, and
right_scaling == 1 when preconditioning is off.   argv[1]: JSON {obligation, model, meta};  prints one JSON line."""
import sys, json
import numpy as np

out = {'replayable': True, 'reproduced': False, 'tried': 0}
try:
    from dfols.model import Model
    rng = np.random.default_rng(0)
    for n in (2, 3):
        for spread in (1e-2, 1.0, 37.0):
            for pre in (True, False):
              for npt in (n + 1, n + 2, 2 * n + 1):                 # interpolation and regression sets, with unequal sample counts
                x0 = rng.normal(size=n)
                m = Model(npt, x0, rng.normal(size=3), -1e20 * np.ones(n), 1e20 * np.ones(n), [], 1, precondition=pre)
                for k in range(1, npt):
                    m.change_point(k, spread * rng.normal(size=n), rng.normal(size=3), k + 1)
                for k in range(npt):
                    for rep in range(int(rng.integers(0, 3))):
                        m.add_new_sample(k, rvec_extra=rng.normal(size=3))
                W, ls, rs = m.interpolation_matrix()
                A = np.hstack([np.ones((npt, 1)), m.xpt_directions(include_kopt=True)])
                out['tried'] += 1
                bad = None
                if not np.allclose(W, A * rs, rtol=1e-12, atol=0):
                    bad = 'W is not [1 | directions] with its columns multiplied by right_scaling (max rel. defect %.3g)' % float(np.max(np.abs(W - A * rs)) / np.max(np.abs(W)))
                elif not np.all(ls == 1):
                    bad = 'left_scaling is not all ones'
                elif not pre and not np.all(rs == 1):
                    bad = 'preconditioning is off but right_scaling = %s' % rs
                if bad:
                    out.update(reproduced=True, inputs={'n': n, 'npt': npt, 'spread': spread, 'precondition': pre, 'rng_seed': 0}, observed=bad)
                    raise StopIteration
except StopIteration:
    pass
except Exception as ex:
    out = {'replayable': False, 'reproduced': None, 'error': repr(ex)[:300]}
print(json.dumps(out))
