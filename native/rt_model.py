"""Run-time evaluation of the MODEL bundle's sidecar contracts on the real code (under /venv/bin/python).

The contract text (requires / ensures / ghost assignments / predicates of contracts/model.py) is exported to JSON by the driver (python3-vt side, tools/export_contracts.py);
this module compiles every clause to native Python over the REAL Model object:  old(E) reads a deep copy taken before the call,  forall is a loop,  ==  on arrays and
floats is equality up to a relative 1e-9 (the clauses are real-arithmetic identities; a rounding difference is not a violation, a wrong formula is),  same() is the
NaN-aware equality, the ghost state G (geom, fact_ver, kmin_ok) is kept next to each Model object and updated by the ghost_return assignments.
Every monitored Model method is wrapped; a call whose precondition does not hold natively is skipped (counted), a postcondition that evaluates to False is a
VIOLATION with the concrete call (method, arguments, pre-state summary).

Two uses:  (1) R1 replay of a refuted model-bundle obligation: run the scenario set + random operation sequences and report the first native violation of that clause;
(2) thorough-tier cross-check on the unchanged tree: the contracts the prover discharged also hold on every monitored call (a violation there means an unsound engine
or a wrong contract: soundness guard, exit 3).
usage: rt_model.py <contracts.json> [--clause "<label substring>"] [--func Model.change_point]    prints one JSON line"""
import ast, copy, json, sys, warnings, types
import numpy as np

warnings.filterwarnings('ignore')
RTOL = 1e-9


def approx_eq(a, b):
    if a is None or b is None:
        return a is None and b is None
    if isinstance(a, (tuple, list)) and isinstance(b, (tuple, list)):
        return len(a) == len(b) and all(approx_eq(x, y) for x, y in zip(a, b))
    try:
        a_, b_ = np.asarray(a), np.asarray(b)
        if a_.dtype == object or b_.dtype == object:
            return a is b or a == b
        if a_.shape != b_.shape:
            if a_.size == b_.size and a_.size > 0 and (a_.ndim <= 1 or b_.ndim <= 1):
                a_, b_ = a_.reshape(-1), b_.reshape(-1)
            else:
                return False
        if a_.dtype.kind in 'iub' and b_.dtype.kind in 'iub':
            return bool(np.all(a_ == b_))
        a_, b_ = a_.astype(float), b_.astype(float)
        both_nan = np.isnan(a_) & np.isnan(b_)
        scale = max(1.0, float(np.nanmax(np.abs(a_))) if a_.size and not np.all(np.isnan(a_)) else 1.0) if a_.size else 1.0
        with np.errstate(invalid='ignore'):
            close = (a_ == b_) | (np.abs(a_ - b_) <= RTOL * np.maximum(np.maximum(np.abs(a_), np.abs(b_)), 1e-300 + 0 * a_) ) | (np.abs(a_ - b_) <= RTOL * 1e-3 * scale)
        return bool(np.all(close | both_nan))
    except Exception:
        return a is b


class Rewriter(ast.NodeTransformer):
    """contract language -> Python"""

    def __init__(self):
        self.in_old = 0

    def visit_Call(self, node):
        f = node.func.id if isinstance(node.func, ast.Name) else None
        if f == 'old':
            self.in_old += 1
            inner = self.visit(node.args[0])
            self.in_old -= 1
            return inner
        if f == 'forall':
            var = node.args[0].id
            lo, hi, body = self.visit(node.args[1]), self.visit(node.args[2]), self.visit(node.args[3])
            gen = ast.GeneratorExp(elt=body, generators=[ast.comprehension(target=ast.Name(id=var, ctx=ast.Store()),
                                                                            iter=ast.Call(func=ast.Name(id='range', ctx=ast.Load()), args=[lo, hi], keywords=[]), ifs=[], is_async=0)])
            return ast.Call(func=ast.Name(id='all', ctx=ast.Load()), args=[gen], keywords=[])
        if f == 'implies':
            a, b = self.visit(node.args[0]), self.visit(node.args[1])
            return ast.BoolOp(op=ast.Or(), values=[ast.UnaryOp(op=ast.Not(), operand=a), b])
        if f == 'ite':
            c, a, b = (self.visit(x) for x in node.args)
            return ast.IfExp(test=c, body=a, orelse=b)
        if f == 'isnone':
            return ast.Compare(left=self.visit(node.args[0]), ops=[ast.Is()], comparators=[ast.Constant(None)])
        if f == 'val':
            return self.visit(node.args[0])
        self.generic_visit(node)
        return node

    def visit_Name(self, node):
        if self.in_old and isinstance(node.ctx, ast.Load):
            return ast.Call(func=ast.Name(id='__o', ctx=ast.Load()), args=[node], keywords=[])
        return node

    def visit_Compare(self, node):
        self.generic_visit(node)
        parts, left = [], node.left
        for op, right in zip(node.ops, node.comparators):
            if isinstance(op, (ast.Eq, ast.NotEq)):
                c = ast.Call(func=ast.Name(id='__eq', ctx=ast.Load()), args=[left, right], keywords=[])
                parts.append(c if isinstance(op, ast.Eq) else ast.UnaryOp(op=ast.Not(), operand=c))
            elif isinstance(op, (ast.Is, ast.IsNot)):
                parts.append(ast.Compare(left=left, ops=[op], comparators=[right]))
            else:
                parts.append(ast.Call(func=ast.Name(id='__ord', ctx=ast.Load()), args=[ast.Constant(type(op).__name__), left, right], keywords=[]))
            left = right
        return parts[0] if len(parts) == 1 else ast.BoolOp(op=ast.And(), values=parts)


def compile_expr(src):
    tree = ast.parse(src.strip(), mode='eval')
    tree = Rewriter().visit(tree)
    ast.fix_missing_locations(tree)
    return compile(tree, '<clause>', 'eval')


class Ghost:
    def __init__(self):
        self.geom, self.fact_ver, self.kmin_ok = 0, -1, True


class Monitor:
    def __init__(self, spec, only_clause=None, only_func=None):
        from dfols import model as M, util
        self.M, self.util = M, util
        self.spec = spec
        self.only_clause, self.only_func = only_clause, only_func
        self.snap = {}            # id(current object) -> snapshot (valid during one postcondition evaluation)
        self.ghost = {}           # id(model) -> Ghost
        self.stats = {'calls': 0, 'skipped_precondition': 0, 'clauses_evaluated': 0, 'clauses_not_evaluable': 0, 'by_method': {}}
        self.not_evaluable = {}
        self.violation = None
        self.depth = 0
        self.rng = np.random.default_rng(0)
        self.code = {}
        self.preds = {}
        self.env = self.base_env()
        for name, (params, src) in spec['predicates'].items():
            self.preds[name] = (params, compile_expr(src))
            self.env[name] = self.make_pred(name)

    # ------------------------------------------------------------ vocabulary
    def base_env(self):
        util = self.util

        def same(a, b):
            return approx_eq(a, b)

        def isnan(a):
            return a is not None and bool(np.isnan(a))

        def order(op, a, b):
            with np.errstate(invalid='ignore'):
                r = {'Lt': a < b, 'LtE': a <= b, 'Gt': a > b, 'GtE': a >= b}[op]
            return bool(r)

        def h_u(m, xabs):
            return m.h(util.remove_scaling(xabs, m.scaling_changes), *m.argsh)
        env = {'__o': lambda x: self.snap.get(id(x), x), '__eq': approx_eq, '__ord': order, 'same': same, 'isnan': isnan,
               'vadd': lambda a, b: a + b, 'vsub': lambda a, b: a - b, 'sumsq': util.sumsq, 'matvec': lambda a, b: np.asarray(a) @ np.asarray(b),
               'transp': lambda a: np.asarray(a).T, 'twice': lambda a: 2.0 * a, 'same_opt': approx_eq,
               'notposinf': lambda a: (not np.isnan(a)) and a < np.inf,
               'wavg': lambda n, old, new: (float(n) / float(n + 1)) * old + (1 - float(n) / float(n + 1)) * new,
               'min': min, 'max': max, 'len': len, 'abs': abs, 'all': all, 'range': range, 'True': True, 'False': False, 'None': None, 'np': np}
        env['hU_of'] = h_u
        return env

    def make_pred(self, name):
        params, code = self.preds[name]

        def call(*args):
            loc = dict(zip(params, args))
            if name == 'Fobj':        # Fobj(m, r, xabs) = sumsq(r) [+ h(U(xabs))]: hU needs the model it belongs to
                m, r, xabs = args
                return self.util.sumsq(r) if m.h is None else self.util.sumsq(r) + self.env['hU_of'](m, xabs)
            return eval(code, dict(self.env, **loc))
        return call

    def clause_code(self, src):
        if src not in self.code:
            self.code[src] = compile_expr(src)
        return self.code[src]

    # ------------------------------------------------------------ wrapping
    def install(self):
        Model = self.M.Model
        for qual, con in self.spec['contracts'].items():
            cls, meth = qual.split('.')
            if cls != 'Model' or not hasattr(Model, meth):
                continue
            setattr(Model, meth, self.wrap(qual, con, getattr(Model, meth)))

    def wrap(self, qual, con, real):
        import inspect
        sig = inspect.signature(real)
        mon = self

        def wrapper(obj, *a, **k):
            if mon.violation is not None or mon.depth > 0 and qual == 'Model.__init__':
                return real(obj, *a, **k)
            bound = sig.bind(obj, *a, **k)
            bound.apply_defaults()
            args = dict(bound.arguments)
            args.pop('self', None)
            g = mon.ghost.setdefault(id(obj), Ghost())
            mon.env['G'] = g              # predicates (INV_min, INV_fact) read the ghost state of the object under the call
            env = dict(mon.env, self=obj, G=g, zerov=None, **args)
            check = mon.only_func in (None, qual)
            pre_ok = True
            if check and qual != 'Model.__init__':
                env['zerov'] = np.zeros(obj.n()) if hasattr(obj, 'xbase') else None
                env['anyY'] = mon.rng.normal(size=obj.n()) if hasattr(obj, 'xbase') else None
                for lab, src in con['requires']:
                    if lab.startswith('A-'):
                        continue
                    try:
                        if not eval(mon.clause_code(src), env):
                            pre_ok = False
                            break
                    except Exception:
                        pre_ok = False
                        break
            old_obj = copy.deepcopy(obj) if (check and pre_ok and qual != 'Model.__init__') else None
            old_g = copy.copy(g)
            old_args = {kk: (vv.copy() if isinstance(vv, np.ndarray) else vv) for kk, vv in args.items()}
            mon.depth += 1
            try:
                res = real(obj, *a, **k)
            finally:
                mon.depth -= 1
            mon.env['G'] = g
            mon.stats['calls'] += 1
            mon.stats['by_method'][qual] = mon.stats['by_method'].get(qual, 0) + 1
            # ghost assignments at return (evaluated in the post-state, old() = pre-state)
            mon.snap = {id(obj): old_obj, id(g): old_g} if old_obj is not None else {id(g): old_g}
            if qual == 'Model.__init__':
                env['zerov'] = np.zeros(obj.n())
                env['anyY'] = mon.rng.normal(size=obj.n())
                mon.snap = {id(g): old_g}
            env['result'] = res
            for path, ex in con['ghost_return']:
                if ex is None:
                    continue
                try:
                    setattr(g, path.split('.')[1], eval(mon.clause_code(ex), env))
                except Exception:
                    pass
            if check and pre_ok:
                for lab, src, tags in con['ensures']:
                    if lab.startswith('A-') or (mon.only_clause and mon.only_clause not in lab):
                        continue
                    try:
                        ok = eval(mon.clause_code(src), env)
                        mon.stats['clauses_evaluated'] += 1
                    except Exception as ex:
                        mon.stats['clauses_not_evaluable'] += 1
                        mon.not_evaluable[lab[:80]] = repr(ex)[:120]
                        continue
                    if not ok and mon.violation is None:
                        mon.violation = {'method': qual, 'clause': lab, 'arguments': {kk: summarise(vv) for kk, vv in old_args.items()},
                                         'pre_state': model_summary(old_obj) if old_obj is not None else None, 'post_state': model_summary(obj),
                                         'result': summarise(res)}
                # frame: every tracked attribute that the contract's `modifies` does not list is unchanged (catches aliased snapshots that a later call mutates)
                if old_obj is not None and 'self.*' not in con['modifies'] and not mon.only_clause:
                    for attr in FRAME_ATTRS:
                        if 'self.' + attr in con['modifies'] or not hasattr(old_obj, attr):
                            continue
                        mon.stats['clauses_evaluated'] += 1
                        if not approx_eq(getattr(obj, attr, None), getattr(old_obj, attr)) and mon.violation is None:
                            mon.violation = {'method': qual, 'clause': 'frame: self.%s is not in the modifies clause and must be unchanged' % attr,
                                             'arguments': {kk: summarise(vv) for kk, vv in old_args.items()}, 'pre_state': model_summary(old_obj), 'post_state': model_summary(obj),
                                             'before': summarise(getattr(old_obj, attr)), 'after': summarise(getattr(obj, attr, None))}
            elif check:
                mon.stats['skipped_precondition'] += 1
            mon.snap = {}
            return res
        wrapper.__wrapped__ = real
        return wrapper


FRAME_ATTRS = ['points', 'fval_v', 'objval', 'nsamples', 'eval_num', 'kopt', 'npt_so_far', 'num_pts', 'factorisation_current', 'xbase', 'sl', 'su', 'xsave', 'rsave', 'objsave',
               'jacsave', 'nsamples_save', 'eval_num_save', 'jacsave_eval_nums', 'model_jac', 'model_const', 'model_jac_eval_nums']


def summarise(v):
    if isinstance(v, np.ndarray):
        return v.tolist() if v.size <= 12 else {'shape': list(v.shape), 'head': v.reshape(-1)[:6].tolist()}
    if isinstance(v, (tuple, list)):
        return [summarise(x) for x in v[:8]]
    if isinstance(v, (int, float, bool, str)) or v is None:
        return v
    if isinstance(v, (np.integer, np.floating, np.bool_)):
        return v.item()
    return repr(v)[:60]


def model_summary(m):
    try:
        k = m.npt()
        return {'kopt': int(m.kopt), 'npt': int(k), 'num_pts': int(m.num_pts), 'objval': summarise(np.asarray(m.objval[:k])), 'nsamples': summarise(np.asarray(m.nsamples[:k])),
                'eval_num': summarise(np.asarray(m.eval_num[:k])), 'objsave': summarise(m.objsave), 'points': summarise(np.asarray(m.points[:k])), 'xbase': summarise(m.xbase),
                'factorisation_current': bool(m.factorisation_current), 'h': m.h is not None}
    except Exception as ex:
        return repr(ex)[:100]


# ---------------------------------------------------------------------------------------------- workloads
def random_sequences(mon, nseq=120, seed=1):
    """state-imposed workload: random operation sequences on real Model objects, NaN residuals and a regulariser included"""
    from dfols.model import Model
    rng = np.random.default_rng(seed)
    for s in range(nseq):
        if mon.violation:
            return
        n, m = int(rng.integers(1, 4)), int(rng.integers(1, 4))
        npt = int(rng.integers(n + 1, 2 * n + 2))
        h = (lambda x: 0.3 * float(np.sum(np.abs(x)))) if rng.random() < 0.4 else None
        sc = None
        proj = []

        def rv():
            r = rng.normal(size=m) * 10.0 ** rng.integers(-2, 3)
            if rng.random() < 0.12:
                r[rng.integers(0, m)] = np.nan
            return r
        x0 = rng.normal(size=n)
        if rng.random() < 0.4:       # scaled variables: (shift, scale) as solve builds them
            sc = (rng.normal(size=n), np.abs(rng.normal(size=n)) + 0.5)
        tight = rng.random() < 0.3      # tight bounds: stored steps overshoot them, so the clipped point xpt(k) differs from the stored row
        lo_b, hi_b = (x0 - 0.6, x0 + 0.6) if tight else (-10 * np.ones(n), 10 * np.ones(n))
        mod = Model(npt, x0, rv(), lo_b, hi_b, proj, int(rng.integers(1, 4)), h=h, precondition=bool(rng.integers(0, 2)), scaling_changes=sc)
        evn = 1
        for step in range(int(rng.integers(4, 25))):
            if mon.violation:
                return
            op = rng.choice(['change', 'change', 'rechange', 'sample', 'shift', 'save', 'final', 'addpt', 'swap', 'fit', 'full'])
            try:
                if op == 'change':
                    k = int(mod.npt()) if mod.npt() < mod.num_pts else int(rng.integers(0, mod.npt()))
                    evn += 1
                    mod.change_point(k, rng.normal(size=n) * 0.5, rv(), evn, allow_kopt_update=bool(rng.random() < 0.9))
                elif op == 'rechange' and mod.npt() == mod.num_pts:       # the same point evaluated again (new residual)
                    k = int(rng.integers(0, mod.npt()))
                    evn += 1
                    mod.factorise_geom_system()
                    mod.change_point(k, mod.points[k, :].copy(), rv(), evn)
                elif op == 'sample':
                    mod.add_new_sample(int(rng.integers(0, mod.npt())), rv())
                elif op == 'shift' and mod.npt() == mod.num_pts:
                    mod.shift_base(rng.normal(size=n) * 0.1)
                elif op == 'save':
                    evn += 1
                    mod.save_point(rng.normal(size=n), rv(), int(rng.integers(1, 4)), evn, x_in_abs_coords=bool(rng.integers(0, 2)))
                elif op == 'final' and mod.model_jac is not None:
                    mod.get_final_results()
                elif op == 'addpt' and mod.npt() == mod.num_pts and mod.num_pts < 8:
                    evn += 1
                    mod.add_new_point(rng.normal(size=n) * 0.5, rv(), evn)
                elif op == 'swap' and mod.npt() >= 2:
                    mod.swap_points(int(rng.integers(0, mod.npt())), int(rng.integers(0, mod.npt())))
                elif op == 'fit' and mod.npt() == mod.num_pts:
                    mod.interpolate_mini_models_svd()
                elif op == 'full' and mod.model_jac is not None and mod.npt() == mod.num_pts:
                    mod.build_full_model()
            except (np.linalg.LinAlgError, AssertionError, ValueError, ZeroDivisionError):
                pass


def solver_runs(mon):
    """natural workload: whole dfols.solve runs (the scenario set of the falsifier, when importable; a built-in handful otherwise)"""
    import dfols
    rng = np.random.default_rng(3)
    runs = []
    for n in (2, 3):
        A = rng.normal(size=(n + 2, n)); b = rng.normal(size=n + 2)
        runs.append((lambda x, A=A, b=b: A @ x - b, rng.normal(size=n), {}))
        runs.append((lambda x, A=A, b=b: A @ x - b, rng.normal(size=n), {'bounds': (-np.ones(n), np.ones(n))}))
        runs.append((lambda x, A=A, b=b: A @ x - b, rng.normal(size=n), {'user_params': {'restarts.use_restarts': True, 'restarts.use_soft_restarts': True}, 'rhoend': 1e-3, 'maxfun': 60}))
        runs.append((lambda x, A=A, b=b: A @ x - b, rng.normal(size=n), {'user_params': {'restarts.use_soft_restarts': False}, 'objfun_has_noise': True, 'maxfun': 50, 'rhoend': 1e-2}))
        runs.append((lambda x, A=A, b=b: (A @ x - b) * (np.nan if np.linalg.norm(x) > 3 else 1.0), rng.normal(size=n), {'maxfun': 40}))
        lam = 0.2
        runs.append((lambda x, A=A, b=b: A @ x - b, rng.normal(size=n), {'h': lambda x: lam * np.sum(np.abs(x)), 'lh': lam * np.sqrt(n),
                                                                          'prox_uh': lambda x, u: np.sign(x) * np.maximum(np.abs(x) - u * lam, 0), 'maxfun': 40}))
        runs.append((lambda x, A=A, b=b: A @ x - b, rng.normal(size=n), {'npt': 2 * n + 1, 'maxfun': 40, 'user_params': {'growing.ndirs_initial': 1}}))
    for f, x0, kw in runs:
        if mon.violation:
            return
        try:
            np.random.seed(0)
            dfols.solve(f, x0, **kw)
        except Exception:
            pass


if __name__ == '__main__':
    spec = json.load(open(sys.argv[1]))
    only_clause = sys.argv[sys.argv.index('--clause') + 1] if '--clause' in sys.argv else None
    only_func = sys.argv[sys.argv.index('--func') + 1] if '--func' in sys.argv else None
    out = {'replayable': True, 'reproduced': False}
    try:
        mon = Monitor(spec, only_clause, only_func)
        mon.install()
        random_sequences(mon)
        solver_runs(mon)
        out.update(stats=mon.stats, not_evaluable=mon.not_evaluable)
        if mon.violation:
            out.update(reproduced=True, inputs=mon.violation, observed='run-time evaluation of the contract clause %r of %s on the real code is False' % (mon.violation['clause'][:120], mon.violation['method']),
                       how='contract clause compiled to native Python and evaluated around the real method (pre-state deep-copied); workload: seeded random operation sequences on Model objects + dfols.solve runs')
    except Exception as ex:
        import traceback
        out = {'replayable': False, 'reproduced': None, 'error': traceback.format_exc()[-600:]}
    print(json.dumps(out, default=str))
