"""Bounded native falsification search: runs the seeded scenarios on the tree selected by PYTHONPATH with the executable form of a property as monitor.
usage: falsify.py <Cxx>     exit 1 + a JSON line describing the first concrete failing input, exit 0 if none is found (bounded: proves nothing)."""
import sys, json, numpy as np, warnings
warnings.simplefilter('ignore')
import dfols
from scenarios import scenarios, Recorder

PID = sys.argv[1]
print('dfols from', dfols.__file__)


def fail(name, kw, what):
    def enc(v):
        if isinstance(v, np.ndarray):
            return v.tolist()
        if isinstance(v, tuple):
            return [enc(x) for x in v]
        if callable(v):
            return '<callable>'
        if isinstance(v, dict):
            return {k: enc(x) for k, x in v.items()}
        return v
    print(json.dumps({'property': PID, 'scenario': name, 'solve_kwargs': {k: enc(v) for k, v in kw.items()}, 'observed': what}))
    sys.exit(1)


def F(rec, k):
    return float(np.dot(rec.calls[k][1], rec.calls[k][1]))


count = 0
for name, kw, f in scenarios(seed=int(__import__('os').environ.get('VERIF_SEED', '0'))):
    if isinstance(f, tuple):
        rec = Recorder(f[0], noise=f[1], seed=f[2])
    else:
        rec = Recorder(f)
    kw = dict(kw)
    x0 = kw.pop('x0')
    x0_copy = x0.copy()
    try:
        s = dfols.solve(rec, x0, do_logging=False, **kw)
    except Exception as e:      # noqa
        if PID in ('C07', 'C08'):
            fail(name, dict(kw, x0=x0), 'solve raised %s: %s' % (type(e).__name__, e))
        continue
    count += 1
    if s.flag == s.EXIT_INPUT_ERROR:
        continue
    nsamp = kw.get('nsamples')
    maxfun = kw.get('maxfun', min(100 * (len(x0) + 1), 1000))
    det = not kw.get('objfun_has_noise') and nsamp is None
    if PID == 'C01' and 'bounds' in kw:
        lo, hi = kw['bounds']
        for i, (x, r) in enumerate(rec.calls):
            if np.any(x < lo) or np.any(x > hi):
                fail(name, dict(kw, x0=x0), 'evaluation %d at x=%r violates the bounds by %g' % (i + 1, x.tolist(), max(np.max(lo - x), np.max(x - hi))))
        if np.any(s.x < lo) or np.any(s.x > hi):
            fail(name, dict(kw, x0=x0), 'soln.x=%r violates the bounds' % s.x.tolist())
    if PID == 'C02':
        if len(rec.calls) > maxfun:
            fail(name, dict(kw, x0=x0), 'objfun called %d times > maxfun=%d' % (len(rec.calls), maxfun))
        if s.nf != len(rec.calls):
            fail(name, dict(kw, x0=x0), 'soln.nf=%d but objfun was called %d times' % (s.nf, len(rec.calls)))
        pts = 1
        for i in range(1, len(rec.calls)):
            if not np.array_equal(rec.calls[i][0], rec.calls[i - 1][0]):
                pts += 1
        if nsamp is None and s.nx != s.nf:
            fail(name, dict(kw, x0=x0), 'no averaging but soln.nx=%d != soln.nf=%d' % (s.nx, s.nf))
    if PID in ('C03', 'C11') and det:
        k = int(s.xmin_eval_num)
        if not (1 <= k <= len(rec.calls)):
            fail(name, dict(kw, x0=x0), 'xmin_eval_num=%d is not an evaluation number (nf=%d)' % (k, len(rec.calls)))
        xk, rk = rec.calls[k - 1]
        if not np.allclose(xk, s.x, rtol=1e-9, atol=1e-9):
            fail(name, dict(kw, x0=x0), 'soln.x is not evaluation point %d: %r vs %r' % (k, s.x.tolist(), xk.tolist()))
        if not np.allclose(rk, s.resid, rtol=1e-9, atol=1e-12):
            fail(name, dict(kw, x0=x0), 'soln.resid is not the residual of evaluation %d' % k)
        if abs(s.obj - float(rk @ rk)) > 1e-9 * (1 + abs(s.obj)):
            fail(name, dict(kw, x0=x0), 'soln.obj=%r but sum(resid^2) at evaluation %d is %r' % (s.obj, k, float(rk @ rk)))
    if PID in ('C04', 'C08') and det:
        best = min(F(rec, i) for i in range(len(rec.calls)))
        if s.obj > best * (1 + 1e-12) + 1e-300:
            which = [i + 1 for i in range(len(rec.calls)) if F(rec, i) == best]
            fail(name, dict(kw, x0=x0), 'soln.obj=%r but evaluation(s) %s had the smaller value %r' % (s.obj, which, best))
    if PID == 'C10':
        if s.flag == s.EXIT_MAXFUN_WARNING and s.nf != maxfun:
            fail(name, dict(kw, x0=x0), 'max-evaluations warning with nf=%d != maxfun=%d' % (s.nf, maxfun))
        if s.flag == s.EXIT_SUCCESS and not np.isfinite(s.obj):
            fail(name, dict(kw, x0=x0), 'success flag with obj=%r' % s.obj)
    if PID == 'C18' and s.diagnostic_info is not None:
        df = s.diagnostic_info
        if len(df) and (np.any(df['delta'] < df['rho'] * (1 - 1e-12)) or np.any(df['rho'] <= 0) or np.any(df['delta'] > 1e10)):
            fail(name, dict(kw, x0=x0), 'a diagnostic row violates 0 < rho <= delta <= 1e10')
        if list(df['iters_total']) != list(range(len(df))):
            fail(name, dict(kw, x0=x0), 'iteration numbers are not consecutive')
    if PID == 'C19':
        if not np.array_equal(x0, x0_copy):
            fail(name, dict(kw, x0=x0_copy), 'solve modified the caller\'s x0: %r -> %r' % (x0_copy.tolist(), x0.tolist()))
print('%s: %d scenarios run, no violation found (bounded search: proves nothing)' % (PID, count))
sys.exit(0)
