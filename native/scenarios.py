"""Seeded scenario set for the native (bounded) falsification search and the run-time monitors: small least-squares problems under the option
combinations the properties quantify over.  Runs under /venv/bin/python with PYTHONPATH pointing at the tree under test."""
import numpy as np, warnings, logging
warnings.simplefilter('ignore')


class Recorder:
    """wraps a residual function: records every call (x, r) and the point/eval numbers reported in the log"""

    def __init__(self, fun, noise=0.0, seed=0, fault=None):
        self.fun, self.noise, self.rng, self.fault = fun, noise, np.random.default_rng(seed), fault
        self.calls = []

    def __call__(self, x, *args):
        r = np.asarray(self.fun(x, *args), dtype=float)
        if self.noise:
            r = r * (1 + self.noise * self.rng.normal(size=r.shape))
        k = len(self.calls) + 1
        if self.fault is not None and self.fault[0] == k:
            r = r.copy()
            r[0] = self.fault[1]
        self.calls.append((np.array(x, dtype=float).copy(), r.copy()))
        return r


def rosen(x):
    return np.array([10.0 * (x[1] - x[0] ** 2), 1.0 - x[0]])


def lin(A, b):
    return lambda x: A @ x - b


def scenarios(seed=0, n_random=30):
    """yields (name, kwargs for dfols.solve, residual function factory)"""
    rng = np.random.default_rng(seed)
    base = [
        ('rosen default', dict(x0=np.array([-1.2, 1.0])), rosen),
        ('rosen bounds', dict(x0=np.array([-1.2, 1.0]), bounds=(np.array([-2.0, 0.5]), np.array([0.9, 3.0]))), rosen),
        ('rosen bounds scaled', dict(x0=np.array([-1.2, 1.0]), bounds=(np.array([-2.0, 0.5]), np.array([0.7, 3.0])), scaling_within_bounds=True), rosen),
        ('rosen x0 infeasible', dict(x0=np.array([-5.0, 9.0]), bounds=(np.array([-2.0, 0.5]), np.array([0.9, 3.0]))), rosen),
        ('rosen regression', dict(x0=np.array([-1.2, 1.0]), npt=5), rosen),
        ('rosen small budget', dict(x0=np.array([-1.2, 1.0]), maxfun=7), rosen),
        ('rosen growing', dict(x0=np.array([-1.2, 1.0]), user_params={'growing.ndirs_initial': 1}), rosen),
    ]
    for nm, kw, f in base:
        yield nm, kw, f
    for t in range(n_random):
        n = int(rng.integers(2, 4))
        m = int(rng.integers(n, n + 3))
        A = rng.normal(size=(m, n)); b = rng.normal(size=m)
        x0 = rng.normal(size=n)
        kw = dict(x0=x0, maxfun=int(rng.integers(3, 90)))
        kind = t % 6
        nm = 'random %d' % t
        if kind in (1, 4):
            lo = x0 - rng.uniform(0.3, 2.0, size=n); hi = x0 + rng.uniform(0.3, 2.0, size=n)
            kw['bounds'] = (lo, hi)
            kw['rhobeg'] = 0.1
            if kind == 4:
                kw['scaling_within_bounds'] = True
                kw['rhobeg'] = 0.05
            nm += ' bounds' + (' scaled' if kind == 4 else '')
        if kind == 2:
            kw['objfun_has_noise'] = True
            kw['nsamples'] = (lambda s: (lambda delta, rho, it, nruns: s))(int(rng.integers(1, 4)))
            nm += ' noisy soft restarts'
        if kind == 3:
            kw['objfun_has_noise'] = True
            kw['user_params'] = {'restarts.use_soft_restarts': False, 'restarts.hard.use_old_rk': bool(t % 2)}
            nm += ' noisy hard restarts'
        if kind == 5:
            kw['user_params'] = {'logging.save_diagnostic_info': True, 'logging.save_poisedness': False}
            kw['npt'] = n + 2
            nm += ' diagnostics regression'
        noise = 1e-2 if kind in (2, 3) else 0.0
        yield nm, kw, (lin(A, b), noise, t)
