"""R1 replay for the real-vector bundle, function ball_step: calls the REAL ball_step of the tree under test on the solver's counter-model scale and on a
seeded family of directions whose norm sweeps 1e-16 .. 1e2, and checks the refuted clause natively (alpha >= 0; ||x0 + alpha*g|| == Delta to 1e-6 relative
unless ||g|| < 1e-14; alpha == 0 for such g).   argv[1]: JSON {obligation, model, meta};  prints one JSON line."""
import sys, json
import numpy as np

req = json.loads(sys.argv[1])
name = req['obligation']
out = {'replayable': False, 'reproduced': None}
try:
    if name.startswith('ball_step/'):
        from dfols.trust_region import ball_step
        out = {'replayable': True, 'reproduced': False, 'tried': 0}
        rng = np.random.default_rng(0)
        for n in (1, 2, 3):
            for e in range(-16, 3):
                for Delta in (1e-3, 1.0, 1e2):
                    for _ in range(5):
                        g = rng.normal(size=n); g *= 10.0 ** e / np.linalg.norm(g)
                        x0 = rng.normal(size=n); x0 *= Delta * rng.uniform(0, 0.9) / np.linalg.norm(x0)
                        a = float(ball_step(x0, g, Delta))
                        out['tried'] += 1
                        gn = float(np.sqrt(np.dot(g, g)))
                        bad = None
                        if not a >= 0:
                            bad = 'alpha = %r is negative' % a
                        elif gn >= 1e-14 and abs(np.linalg.norm(x0 + a * g) - Delta) > 1e-6 * Delta:
                            bad = '||g|| = %.3g >= 1e-14 but ||x0 + alpha*g|| = %.6g, Delta = %g (alpha = %r)' % (gn, np.linalg.norm(x0 + a * g), Delta, a)
                        elif gn < 1e-14 and a != 0:
                            bad = '||g|| = %.3g < 1e-14 but alpha = %r' % (gn, a)
                        if bad:
                            out.update(reproduced=True, inputs={'x0': x0.tolist(), 'g': g.tolist(), 'Delta': Delta}, observed=bad)
                            raise StopIteration
except StopIteration:
    pass
except Exception as ex:
    out = {'replayable': False, 'reproduced': None, 'error': repr(ex)[:300]}
print(json.dumps(out))
