"""R1 replay for the real-vector bundle, function ball_step: calls the REAL ball_step of the tree under test on the solver's counter-model scale and on a
seeded family of directions whose norm sweeps 1e-16 .. 1e2, and checks the refuted clause natively (alpha >= 0; ||x0 + alpha*g|| == Delta to 1e-6 relative
unless ||g|| < 1e-14; alpha == 0 for such g).   argv[1]: JSON {obligation, model, meta};  prints one JSON line."""
import sys, json, warnings
import numpy as np
warnings.filterwarnings('ignore')

req = json.loads(sys.argv[1])
name = req['obligation']
out = {'replayable': False, 'reproduced': None}
try:
    if name.startswith('ball_step/'):
        from dfols.trust_region import ball_step
        out = {'replayable': True, 'reproduced': False, 'tried': 0}
        rng = np.random.default_rng(0)
        for n in (1, 2, 3):
            for e in range(-16, 3):
                for Delta in (1e-3, 1.0, 1e2):
                    for _ in range(5):
                        g = rng.normal(size=n); g *= 10.0 ** e / np.linalg.norm(g)
                        x0 = rng.normal(size=n); x0 *= Delta * rng.uniform(0, 0.9) / np.linalg.norm(x0)
                        a = float(ball_step(x0, g, Delta))
                        out['tried'] += 1
                        gn = float(np.sqrt(np.dot(g, g)))
                        bad = None
                        if not a >= 0:
                            bad = 'alpha = %r is negative' % a
                        elif gn >= 1e-14 and abs(np.linalg.norm(x0 + a * g) - Delta) > 1e-6 * Delta:
                            bad = '||g|| = %.3g >= 1e-14 but ||x0 + alpha*g|| = %.6g, Delta = %g (alpha = %r)' % (gn, np.linalg.norm(x0 + a * g), Delta, a)
                        elif gn < 1e-14 and a != 0:
                            bad = '||g|| = %.3g < 1e-14 but alpha = %r' % (gn, a)
                        if bad:
                            out.update(reproduced=True, inputs={'x0': x0.tolist(), 'g': g.tolist(), 'Delta': Delta}, observed=bad)
                            raise StopIteration
    fn = name.split('/')[0]
    if fn == 'dykstra' and 'default of' in name:
        # the defaults a caller gets when it passes none: read from the real signature and shown on a slowly converging instance (two half-planes at a small angle)
        import inspect, os
        from dfols.util import dykstra
        doc = json.load(open(os.path.join(os.path.dirname(os.path.dirname(os.path.abspath(__file__))), 'contracts', 'param_table.json')))['defaults']
        sig = inspect.signature(dykstra).parameters
        cur = {'max_iter': sig['max_iter'].default, 'tol': sig['tol'].default}
        want = {'max_iter': eval(doc['dykstra.max_iters']), 'tol': eval(doc['dykstra.d_tol'])}
        out = {'replayable': True, 'reproduced': cur != want, 'tried': 1}
        if cur != want:
            a = np.array([-0.05, 1.0]); a /= np.linalg.norm(a)
            P = [lambda x: np.array([x[0], max(x[1], 0.0)]), lambda x: x - max(0.0, float(np.dot(a, x))) * a]
            x = dykstra(P, np.array([-1.0, 0.3]))
            dist = max(0.0, -x[1], float(np.dot(a, x)))
            out.update(inputs={'P': 'x2 >= 0 and x2 <= 0.05*x1', 'x0': [-1.0, 0.3]}, observed='dykstra() without keyword arguments runs with %r, documented defaults are %r; on this instance it returns a point %.3g outside a set' % (cur, want, dist))
        print(json.dumps(out))
        sys.exit(0)
    if fn == 'Controller.trust_region_step' and 'predicted reduction' in name:
        # the regularised step handed to the main loop: wrap the REAL method during regularised solves and recompute h(x) - m(d) independently
        import dfols
        from dfols import controller as C
        from dfols.util import model_value, remove_scaling
        out = {'replayable': True, 'reproduced': False, 'tried': 0}
        real = C.Controller.trust_region_step
        bad = []

        def wrapped(self, params, *a, **k):
            r = real(self, params, *a, **k)
            if self.h is not None and not bad:
                d, gopt, H = r[0], r[1], r[2]
                xa = self.model.xopt(abs_coordinates=True)
                hx = self.h(remove_scaling(xa, self.scaling_changes), *self.argsh)
                pred = hx - model_value(gopt, H, d, xa, self.h, self.argsh, self.scaling_changes)
                out['tried'] += 1
                if pred < -1e-13 * (1 + abs(hx)):
                    bad.append((float(pred), d.tolist(), xa.tolist()))
            return r
        C.Controller.trust_region_step = wrapped
        try:
            rng = np.random.default_rng(0)
            for trial in range(45):
                n = int(rng.integers(2, 5)); m = n + int(rng.integers(0, 3))
                A = rng.normal(size=(m, n)); b = rng.normal(size=m) * 3; lam = float(rng.choice([0.05, 0.5, 3.0, 10.0]))
                kw = {}
                if trial % 3 == 1:
                    kw['bounds'] = (-np.ones(n) * 2, np.ones(n) * 2)
                if trial % 3 == 2:
                    from dfols.util import pball
                    kw['projections'] = [lambda x, n=n: pball(x, np.zeros(n), 1.5), lambda x: np.minimum(x, 1.0)]
                try:
                    dfols.solve(lambda x: A @ x - b, rng.normal(size=n) * 0.5, h=lambda x: lam * float(np.sum(np.abs(x))), lh=lam * np.sqrt(n),
                                prox_uh=lambda x, u: np.sign(x) * np.maximum(np.abs(x) - u * lam, 0), maxfun=120, **kw)
                except Exception:
                    pass
                if bad:
                    out.update(reproduced=True, inputs={'problem': 'lasso', 'n': n, 'm': m, 'lambda': lam, 'bounds': 'bounds' in kw, 'projections': 'projections' in kw, 'trial': trial, 'rng_seed': 0, 'step': bad[0][1], 'xopt': bad[0][2]},
                               observed='a regularised step with predicted reduction h(x) - m(d) = %.3g < 0 was handed to the main loop' % bad[0][0])
                    break
        finally:
            C.Controller.trust_region_step = real
        print(json.dumps(out))
        sys.exit(0)
    if fn == 'trsbox_geometry':
        from dfols import trust_region as TR
        out = {'replayable': True, 'reproduced': False, 'tried': 0}
        rng = np.random.default_rng(0)
        for trial in range(2000):
            n = int(rng.integers(1, 5))
            xbase = rng.normal(size=n); lower = xbase - np.abs(rng.normal(size=n)) * rng.choice([0.0, 0.1, 2.0], size=n); upper = xbase + np.abs(rng.normal(size=n)) * rng.choice([0.0, 0.1, 2.0], size=n)
            g = rng.normal(size=n) * rng.choice([0.0, 1.0], size=n, p=[0.2, 0.8]); c = float(rng.choice([0.0, 1.0, rng.normal()])); Delta = float(rng.choice([1e-2, 0.5, 3.0]))
            r = TR.trsbox_geometry(xbase.copy(), c, g.copy(), lower.copy(), upper.copy(), Delta)
            smin = TR.trsbox_linear(g.copy(), lower - xbase, upper - xbase, Delta); smax = TR.trsbox_linear(-g.copy(), lower - xbase, upper - xbase, Delta)
            vmin, vmax, vr = abs(c + np.dot(g, smin)), abs(c + np.dot(g, smax)), abs(c + np.dot(g, r - xbase))
            out['tried'] += 1
            bad = None
            if not (np.allclose(r, xbase + smin, rtol=1e-12, atol=1e-14) or np.allclose(r, xbase + smax, rtol=1e-12, atol=1e-14)):
                bad = 'the point returned is neither xbase + smin nor xbase + smax (candidates recomputed with trsbox_linear for g and -g on the box shifted to xbase)'
            elif vr < max(vmin, vmax) * (1 - 1e-9) - 1e-14:
                bad = '|c + g.s| of the returned step is %.6g, the other candidate attains %.6g' % (vr, max(vmin, vmax))
            if bad:
                out.update(reproduced=True, inputs={'xbase': xbase.tolist(), 'c': c, 'g': g.tolist(), 'lower': lower.tolist(), 'upper': upper.tolist(), 'Delta': Delta}, observed=bad)
                raise StopIteration
    if fn in ('dykstra', 'pball', 'ctrsbox_pgd', 'ctrsbox_sfista', 'ctrsbox_linear', 'ctrsbox_geometry', 'Controller.trust_region_step', 'model_value'):
        # executable form of the bundle's clauses for these functions, on seeded random convex problems (balls, half-spaces, boxes with a common interior point)
        from dfols import util, trust_region as TR
        out = {'replayable': True, 'reproduced': False, 'tried': 0}
        rng = np.random.default_rng(0)

        def sets(n, tight=False):
            P, member = [], []
            for _ in range(int(rng.integers(2, 4)) if tight else int(rng.integers(1, 4))):
                kind = rng.integers(0, 3)
                if tight:
                    # a common interior point (the origin) but narrow margins: several sets are active at once and Dykstra converges slowly
                    if kind == 0:
                        c = rng.normal(size=n); c *= rng.uniform(0.5, 2.0) / np.linalg.norm(c); r = float(np.linalg.norm(c) + rng.uniform(0.02, 0.3))
                        P.append(lambda x, c=c, r=r: util.pball(x, c, r)); member.append(lambda x, c=c, r=r: np.linalg.norm(x - c) - r)
                    elif kind == 1:
                        a = rng.normal(size=n); a /= np.linalg.norm(a); b = float(rng.uniform(0.02, 0.3))
                        P.append(lambda x, a=a, b=b: x - max(0.0, float(np.dot(a, x)) - b) * a); member.append(lambda x, a=a, b=b: float(np.dot(a, x)) - b)
                    else:
                        lo = -rng.uniform(0.02, 1.0, size=n); hi = rng.uniform(0.02, 1.0, size=n)
                        P.append(lambda x, lo=lo, hi=hi: util.pbox(x, lo, hi)); member.append(lambda x, lo=lo, hi=hi: float(max(np.max(lo - x), np.max(x - hi))))
                    continue
                if kind == 0:
                    c = rng.normal(size=n) * 0.3; r = float(rng.uniform(1.0, 3.0))
                    P.append(lambda x, c=c, r=r: util.pball(x, c, r)); member.append(lambda x, c=c, r=r: np.linalg.norm(x - c) - r)
                elif kind == 1:
                    a = rng.normal(size=n); a /= np.linalg.norm(a); b = float(rng.uniform(0.3, 1.5))
                    P.append(lambda x, a=a, b=b: x - max(0.0, float(np.dot(a, x)) - b) * a); member.append(lambda x, a=a, b=b: float(np.dot(a, x)) - b)
                else:
                    lo = -np.abs(rng.normal(size=n)) - 0.3; hi = np.abs(rng.normal(size=n)) + 0.3
                    P.append(lambda x, lo=lo, hi=hi: util.pbox(x, lo, hi)); member.append(lambda x, lo=lo, hi=hi: float(max(np.max(lo - x), np.max(x - hi))))
            return P, member         # the origin is strictly inside every set
        for trial in range(3000 if fn in ('dykstra', 'ctrsbox_linear', 'ctrsbox_geometry') else 400):
            n = int(rng.integers(1, 5))
            P, member = sets(n, tight=(trial % 2 == 1))
            bad, inp = None, None
            if fn == 'dykstra':
                x0 = rng.normal(size=n) * rng.choice([0.1, 1.0, 5.0])
                max_iter, tol = int(rng.choice([0, 1, 3, 100])), float(rng.choice([1e-10, 1e-6]))
                calls = [0]
                Pc = [(lambda x, f=f: (calls.__setitem__(0, calls[0] + 1), f(x))[1]) for f in P]
                r = util.dykstra(Pc, x0.copy(), max_iter=max_iter, tol=tol)
                inside = all(m(x0) <= 0 for m in member)
                inp = {'n': n, 'x0': x0.tolist(), 'max_iter': max_iter, 'tol': tol, 'sets': len(P), 'trial': trial, 'rng_seed': 0}
                if calls[0] > max_iter * len(P):
                    bad = '%d projector calls for max_iter=%d and %d sets (more sweeps than allowed)' % (calls[0], max_iter, len(P))
                elif inside and np.linalg.norm(r - x0) > 1e-12 * (1 + np.linalg.norm(x0)):
                    bad = 'a point inside every set was moved by %.3g' % np.linalg.norm(r - x0)
                elif max_iter >= 1 and member[-1](r) > 1e-9:
                    bad = 'the result is not an output of the last projector (outside its set by %.3g)' % member[-1](r)
                elif max_iter == 100 and calls[0] < max_iter * len(P) and max(m(r) for m in member) > np.sqrt(len(P) * tol) * (1 + 1e-6) + 1e-12:
                    bad = 'stopped by the rule after %d sweeps but %.3g outside a set (> sqrt(p*tol) = %.3g)' % (calls[0] // len(P), max(m(r) for m in member), np.sqrt(len(P) * tol))
            elif fn == 'pball':
                x = rng.normal(size=n) * 3; c = rng.normal(size=n); r0 = float(rng.uniform(0.1, 2))
                r = util.pball(x, c, r0)
                inp = {'x': x.tolist(), 'c': c.tolist(), 'r': r0}
                if np.linalg.norm(r - c) > r0 * (1 + 1e-12):
                    bad = 'result outside the ball'
                elif np.linalg.norm(x - c) <= r0 and not np.allclose(r, x, rtol=1e-13, atol=1e-15):
                    bad = 'a point of the ball was moved'
            else:
                xopt = np.zeros(n) + rng.normal(size=n) * 0.05
                xopt = xopt * 0.0 if any(m(xopt) > 0 for m in member) else xopt
                g = rng.normal(size=n) * rng.choice([1e-3, 1.0, 30.0]); A = rng.normal(size=(n, n)); H = A @ A.T * (rng.choice([0.0, 1.0]) if fn != 'ctrsbox_pgd' else 1.0)
                delta = float(rng.choice([1e-3, 0.1, 1.0, 10.0]))
                inp = {'n': n, 'xopt': xopt.tolist(), 'g': g.tolist(), 'H': H.tolist(), 'delta': delta, 'sets': len(P), 'trial': trial, 'rng_seed': 0}
                lam = 0.3
                hh = lambda x: lam * float(np.sum(np.abs(x)))
                prox = lambda x, u: np.sign(x) * np.maximum(np.abs(x) - u * lam, 0)
                if fn == 'ctrsbox_pgd':
                    d = TR.ctrsbox_pgd(xopt, g, H, P, delta)[0]
                elif fn == 'ctrsbox_sfista':
                    d = TR.ctrsbox_sfista(xopt, g, H, P, delta, hh, lam * np.sqrt(n), prox)[0]
                elif fn == 'ctrsbox_linear':
                    d = TR.ctrsbox_linear(xopt, g, P, delta)
                elif fn == 'ctrsbox_geometry':
                    d = TR.ctrsbox_geometry(xopt, float(rng.normal()), g, P, delta)
                else:
                    d = None
                if d is not None and np.linalg.norm(d) > delta * (1 + 1e-8):
                    bad = '||d|| = %.10g > Delta = %g' % (np.linalg.norm(d), delta)
                if d is None and fn in ('Controller.trust_region_step', 'model_value'):
                    # zero step has model value h(x): model_value(g, H, 0, xopt, h) == h(xopt)
                    mv = util.model_value(g, H, np.zeros(n), xopt, hh, (), None)
                    if abs(mv - hh(xopt)) > 1e-12 * (1 + abs(mv)):
                        bad = 'model_value of the zero step is %r, h(x) is %r' % (mv, hh(xopt))
            out['tried'] += 1
            if bad:
                out.update(reproduced=True, inputs=inp, observed=bad)
                raise StopIteration
except StopIteration:
    pass
except Exception as ex:
    import traceback
    out = {'replayable': False, 'reproduced': None, 'error': traceback.format_exc()[-400:]}
print(json.dumps(out))
