"""R2 replay for the pinned parameter table (C07): for the parameter key of the refuted obligation, boundary / out-of-range / wrong-type / None values are passed to
dfols.solve(user_params={key: value}) on a two-variable problem; the verdict of the tree under test (input-error flag or not) is compared with the DOCUMENTED row.
argv[1]: JSON {obligation, model, meta{param_key, documented, current}};  prints one JSON line."""
import sys, json, warnings
import numpy as np
warnings.simplefilter('ignore')
req = json.loads(sys.argv[1])
meta = req.get('meta') or {}
out = {'replayable': False, 'reproduced': None}


def direct_check(fname):
    """R1 for the three checking functions themselves: the REAL function on boundary / wrong-type values against the documented meaning
    (None: accepted iff allow_nonetype; otherwise the exact type - bool / int / float - and lower <= val <= upper)"""
    import dfols.params as P
    import numpy as np
    f = getattr(P, fname)
    vals = [None, True, False, 0, 1, 2, -1, 0.0, 1.0, 0.5, -3.5, 1e6, float('nan'), float('inf'), 'x', '', (), [1], np.float64(1.0), np.int64(1), np.bool_(True), np.array([1.0, 2.0])]
    res = {'replayable': True, 'reproduced': False, 'tried': 0}
    for v in vals:
        for none_ok in (False, True):
            for lo, hi in ((None, None), (0, 1), (0.0, 1.0), (1, None), (None, 0)):
                if fname == 'check_bool' and (lo, hi) != (None, None):
                    continue
                try:
                    got = f(v, allow_nonetype=none_ok) if fname == 'check_bool' else f(v, lower=lo, upper=hi, allow_nonetype=none_ok)
                    how = repr(got)
                except Exception as ex:
                    got, how = 'raised', 'raised %s' % type(ex).__name__
                res['tried'] += 1
                if v is None:
                    want = none_ok
                elif fname == 'check_bool':
                    want = isinstance(v, bool)
                else:
                    ty = int if fname == 'check_integer' else float
                    want = isinstance(v, ty) and (lo is None or v >= lo) and (hi is None or v <= hi)
                if got == 'raised' or bool(got) != bool(want):
                    res.update(reproduced=True, inputs={'function': 'dfols.params.' + fname, 'val': repr(v), 'lower': lo, 'upper': hi, 'allow_nonetype': none_ok},
                               observed='documented meaning gives %r, the function %s' % (bool(want), how))
                    return res
    return res


try:
    key, doc = meta.get('param_key'), meta.get('documented')
    fn = next((f for f in ('check_bool', 'check_integer', 'check_float') if (req.get('obligation') or '').startswith(f + '/')), None)
    if fn and not key:
        out = direct_check(fn)
    elif key and doc:
        import dfols
        out = {'replayable': True, 'reproduced': False, 'tried': 0}
        n, npt = 2, 3
        ty, none_ok, lo, hi = doc
        env = {'npt': npt, 'None': None, 'n': n}
        lo_v = eval(lo, env) if lo is not None else None
        hi_v = eval(hi, env) if hi is not None else None
        cands = []      # None in user_params means 'leave the default' (ParameterList reads with new_value=None), so it is not a value to test
        if ty == 'bool':
            cands += [True, False, 1, 0.5, 'x']
        else:
            one = 1 if ty == 'int' else 1e-3
            for b in (lo_v, hi_v):
                if b is not None:
                    cands += [b, b - one, b + one, b - 1000 * one, b + 1000 * one]
            cands += [0, 1, -1, 0.5, 2.5, 1e6, -1e6, float('nan'), True, 'x'] + ([1.0, 2.0] if ty == 'int' else [1, 2])

        def documented_ok(v):
            if v is None:
                return bool(none_ok)
            if ty == 'bool':
                return isinstance(v, bool)
            if ty == 'int':
                if not isinstance(v, int):        # Python: bool is a subclass of int, check_integer accepts it; not treated as wrongly typed
                    return False
            elif not isinstance(v, float):
                return False
            return (lo_v is None or v >= lo_v) and (hi_v is None or v <= hi_v)
        import signal

        class Timeout(Exception):
            pass

        def on_alarm(sig, frm):
            raise Timeout()
        signal.signal(signal.SIGALRM, on_alarm)
        for v in cands:
            out['tried'] += 1
            try:
                signal.alarm(20)       # a boundary value such as tr_radius.alpha1 = 1.0 can make solve loop without evaluating (rho never decreases): skip it
                s = dfols.solve(lambda x: np.array([x[0] - 1.0, x[1] + 2.0, x[0] * x[1]]), np.array([0.3, 0.2]), npt=npt, maxfun=12, user_params={key: v})
                signal.alarm(0)
                accepted = s.flag != s.EXIT_INPUT_ERROR
                how = 'flag %d (%s)' % (s.flag, s.msg[:60])
            except Timeout:
                out.setdefault('timed_out', []).append(repr(v))
                continue
            except Exception as ex:
                signal.alarm(0)
                accepted, how = True, 'raised %s: %s' % (type(ex).__name__, str(ex)[:80])
                if not documented_ok(v):
                    out.update(reproduced=True, inputs={'user_params': {key: repr(v)}, 'npt': npt, 'n': n}, observed='documented row %r rejects this value, solve %s instead of returning the input-error flag' % (doc, how))
                    break
                continue
            if accepted != documented_ok(v):
                # other input checks may reject a value the table accepts (contradictory options): only "accepted although documented out of range" is a replay
                if accepted and not documented_ok(v):
                    out.update(reproduced=True, inputs={'user_params': {key: repr(v)}, 'npt': npt, 'n': n}, observed='documented row %r rejects this value, solve returned %s' % (doc, how))
                    break
                if not accepted and documented_ok(v) and 'user_params' in (s.msg or '').lower() or (not accepted and documented_ok(v) and key in (s.msg or '')):
                    out.update(reproduced=True, inputs={'user_params': {key: repr(v)}, 'npt': npt, 'n': n}, observed='documented row %r accepts this value, solve returned %s' % (doc, how))
                    break
except Exception as ex:
    import traceback
    out = {'replayable': False, 'reproduced': None, 'error': traceback.format_exc()[-400:]}
print(json.dumps(out))
