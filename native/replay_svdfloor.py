"""R1 replay for the SVD-floor clause (C16 / C11): real Model objects in the growing phase (fewer points than n+1), interpolate_mini_models_svd(make_full_rank=True) of the tree under
test, then the property itself: the completed model still reproduces the stored residual vector at every interpolation point (to 1e-8 relative).
argv[1]: JSON {obligation, model, meta};  prints one JSON line."""
import sys, json, warnings
import numpy as np
warnings.simplefilter('ignore')
out = {'replayable': True, 'reproduced': False, 'tried': 0}
try:
    from dfols.model import Model
    rng = np.random.default_rng(0)
    for trial in range(200):
        n = int(rng.integers(2, 6)); m = int(rng.integers(2, 6)); ndir = int(rng.integers(1, n))      # ndir < n: still growing
        x0 = rng.normal(size=n)
        A = rng.normal(size=(m, n)) * 10.0 ** rng.integers(-1, 2)
        f = lambda x: A @ x + 1.0
        mod = Model(n + 1, x0, f(x0), -1e20 * np.ones(n), 1e20 * np.ones(n), [], 1, do_logging=False)
        dirs = np.linalg.qr(rng.normal(size=(n, n)))[0][:ndir] * rng.uniform(0.05, 2.0)
        for k in range(ndir):
            mod.change_point(k + 1, dirs[k], f(x0 + dirs[k]), k + 2)
        res = mod.interpolate_mini_models_svd(make_full_rank=True)
        out['tried'] += 1
        if not res[0]:
            continue
        err = 0.0
        for k in range(mod.npt()):
            pred = mod.model_value(mod.xpt(k), d_based_at_xopt=False, with_const_term=True)
            err = max(err, float(np.linalg.norm(pred - mod.fval_v[k, :]) / (1.0 + np.linalg.norm(mod.fval_v[k, :]))))
        if err > 1e-8:
            out.update(reproduced=True, inputs={'n': n, 'm': m, 'directions': ndir, 'trial': trial, 'rng_seed': 0},
                       observed='after the full-rank completion the model misses its interpolation data by %.3g (relative)' % err)
            break
except Exception as ex:
    import traceback
    out = {'replayable': False, 'reproduced': None, 'error': traceback.format_exc()[-400:]}
print(json.dumps(out))
