"""R1 replay for the C12 clauses (bundles trsbox / trclip / trsnorm): the REAL dfols.trust_region.trsbox (pure-Python path) of the tree under test on seeded random and structured
subproblems — random PSD / indefinite H, current point on faces, bounds exactly delta (or a fraction of it) away, ties (two coordinates reach their bounds at the same step length),
loose and tight radii — with the executable form of the clauses as monitor:
  box    sl - xopt <= d <= su - xopt componentwise, exactly (IEEE comparison, no tolerance)
  grad   returned gradient == g + H d   (relative 1e-8)
  norm   ||d|| <= delta * (1 + 1e-8)
  dec    g.d + 1/2 d.H d <= 0 (relative 1e-10): the step does not increase the quadratic model
Which clause is watched follows from the obligation name.   argv[1]: JSON {obligation, model, meta};  prints one JSON line."""
import sys, json, warnings
import numpy as np
warnings.simplefilter('ignore')
out = {'replayable': True, 'reproduced': False, 'tried': 0}


def instances(rng):
    # structured: the current point at the centre, a bound exactly delta away / ties on two coordinates
    for n in (2, 3, 4, 5):
        for trial in range(250):
            xopt = rng.normal(size=n) * rng.choice([0.0, 1.0, 10.0])
            delta = float(rng.choice([0.1, 0.5, 1.0, 2.0, 100.0]))
            sl, su = xopt - 10.0 * delta, xopt + 10.0 * delta
            kind = trial % 5
            g = rng.normal(size=n)
            H = np.eye(n) if trial % 2 == 0 else None
            if kind == 0:       # a bound exactly delta (or delta/sqrt(k)) away in the descent direction
                k = int(rng.integers(1, n + 1))
                for i in range(k):
                    if g[i] < 0:
                        su[i] = xopt[i] + delta / np.sqrt(k)
                    else:
                        sl[i] = xopt[i] - delta / np.sqrt(k)
            elif kind == 1:     # tie: equal gradient components, equal gaps -> two coordinates hit their bounds at the same step length
                g[1] = g[0]
                gap = float(rng.choice([0.25, 0.5, 0.75])) * delta
                for i in (0, 1):
                    if g[i] < 0:
                        su[i] = xopt[i] + gap
                    else:
                        sl[i] = xopt[i] - gap
            elif kind == 2:     # on a face with the gradient pointing outwards
                i = int(rng.integers(0, n))
                sl[i] = xopt[i]
                g[i] = abs(g[i])
            elif kind == 3:     # tight box
                sl, su = xopt - np.abs(rng.normal(size=n)) * delta * 0.3, xopt + np.abs(rng.normal(size=n)) * delta * 0.3
            if H is None:
                A = rng.normal(size=(n, n))
                H = A @ A.T if trial % 4 == 1 else 0.5 * (A + A.T)
            yield xopt, g, H, sl, su, delta
    for trial in range(3000):   # the trust-region boundary coincides with a bound along the steepest-descent direction (ties between the ball and the box: rounding decides)
        n = int(rng.integers(1, 4))
        xopt = rng.normal(size=n) * rng.choice([0.1, 1.0, 3.0])
        delta = float(rng.choice([0.1, 0.3, 0.5, 1.0]))
        i = int(rng.integers(0, n))
        sgn = float(rng.choice([-1.0, 1.0]))
        g = np.zeros(n); g[i] = -sgn * float(rng.uniform(0.1, 3.0))
        if trial % 3 == 0:
            g += 1e-3 * rng.normal(size=n)
        sl, su = xopt - 10.0, xopt + 10.0
        if sgn > 0:
            su[i] = xopt[i] + delta
        else:
            sl[i] = xopt[i] - delta
        H = np.zeros((n, n)) if trial % 2 else 1e-3 * np.eye(n)
        yield xopt, g, H, sl, su, delta
    for trial in range(600):    # a bound stops the first conjugate-gradient step, the fixed variable dominates the gradient, the radius is loose (restart of the method)
        n = int(rng.integers(2, 5))
        xopt = np.zeros(n)
        g = -np.abs(rng.normal(size=n)) - 0.5
        j = int(rng.integers(0, n)); g[j] *= 3.0
        sl, su = xopt - 100.0, xopt + 100.0
        su[j] = float(rng.uniform(0.05, 0.5))
        H = np.eye(n) * float(rng.choice([0.5, 1.0, 2.0])) if trial % 2 else np.eye(n) + 0.1 * np.ones((n, n))
        yield xopt, g, H, sl, su, 100.0
    for trial in range(1500):
        n = int(rng.integers(1, 7))
        xopt = rng.normal(size=n)
        A = rng.normal(size=(n, n))
        H = (A @ A.T if trial % 3 else 0.5 * (A + A.T)) * 10.0 ** rng.integers(-2, 2)
        g = rng.normal(size=n) * 10.0 ** rng.integers(-2, 2)
        sl = xopt - np.abs(rng.normal(size=n)) * rng.choice([0.0, 0.1, 1.0, 1e20], size=n)
        su = xopt + np.abs(rng.normal(size=n)) * rng.choice([0.0, 0.1, 1.0, 1e20], size=n)
        su = np.maximum(su, sl + 1e-3)
        xopt = np.minimum(np.maximum(xopt, sl), su)
        yield xopt, g, H, sl, su, float(rng.choice([0.01, 0.3, 1.0, 5.0]))


try:
    req = json.loads(sys.argv[1]) if len(sys.argv) > 1 else {}
    name = (req.get('obligation') or '').lower()
    watch = [w for w, keys in (('box', ('box exactly', 'fixed at its', 'not nan', 'output of the final clip', 'd_within_bounds')), ('grad', ('gradient', 'gnew', 'hred')),
                               ('norm', ('norm', 'trust-region budget', 'delsq', 'radius', '(n1)', '(n2)')),
                               ('dec', ('quadratic model', 'orthogonal', 'conjugate-gradient step', '(q)', '(o)'))) if any(k in name for k in keys)] or ['box', 'grad', 'norm', 'dec']
    from dfols.trust_region import trsbox
    rng = np.random.default_rng(0)
    for xopt, g, H, sl, su, delta in instances(rng):
        try:
            d, gnew, crvmin = trsbox(xopt.copy(), g.copy(), H.copy(), sl.copy(), su.copy(), delta, use_fortran=False)
        except AssertionError:
            continue
        out['tried'] += 1
        bad = None
        if 'box' in watch and not (np.all(d >= sl - xopt) and np.all(d <= su - xopt)):
            bad = 'step leaves the box: max(d - (su - xopt)) = %.3g, max((sl - xopt) - d) = %.3g' % (float(np.max(d - (su - xopt))), float(np.max((sl - xopt) - d)))
        if bad is None and 'grad' in watch:
            err = float(np.linalg.norm(gnew - (g + H @ d)) / (1.0 + np.linalg.norm(g) + np.linalg.norm(H @ d)))
            if err > 1e-8:
                bad = 'returned gradient differs from g + H d by %.3g (relative)' % err
        if bad is None and 'norm' in watch and np.linalg.norm(d) > delta * (1 + 1e-8):
            bad = '||d|| = %.10g exceeds delta = %g' % (float(np.linalg.norm(d)), delta)
        if bad is None and 'dec' in watch:
            q = float(g @ d + 0.5 * d @ (H @ d))
            if q > 1e-10 * (1.0 + abs(float(g @ d)) + abs(float(d @ (H @ d)))):
                bad = 'the step increases the quadratic model: g.d + 1/2 d.H d = %.6g > 0' % q
        if bad:
            out.update(reproduced=True, watched=watch, inputs={'xopt': xopt.tolist(), 'g': g.tolist(), 'H': H.tolist(), 'sl': sl.tolist(), 'su': su.tolist(), 'delta': delta},
                       observed=bad, call='dfols.trust_region.trsbox(xopt, g, H, sl, su, delta, use_fortran=False)')
            break
except Exception as ex:
    import traceback
    out = {'replayable': False, 'reproduced': None, 'error': traceback.format_exc()[-400:]}
print(json.dumps(out))
