"""Bounded native falsification search, second generation: a seeded RANDOM generator of small problems over the option space the properties quantify over, with the
executable form of each property as monitor.  Used only AFTER an obligation has been refuted, to look for a concrete failing input on the tree under test
(PYTHONPATH); finding none proves nothing and never turns a refutation into a pass.

The generator deliberately avoids the option combinations of the OPEN known findings, so that the input it reports belongs to the refuted obligation and not to a
finding that is already listed:  init.run_in_parallel (D6/D23), projections together with random initial directions (D24), an objective that is NaN everywhere
(F-C10f), a regulariser together with scaling_within_bounds (D11), logging.save_xk / save_rk (D20).

usage: falsify2.py <Cxx> [n_scenarios]     exit 1 + one JSON line with the first failing input; exit 0 if none is found."""
import sys, json, copy, warnings
import numpy as np

warnings.simplefilter('ignore')
import dfols
from dfols.util import pball, pbox

PID = sys.argv[1]
NSC = int(sys.argv[2]) if len(sys.argv) > 2 else 400
print('dfols from', dfols.__file__)


class Rec:
    """residual function wrapper: records every call, optional multiplicative noise, optional NaN fault"""

    def __init__(self, fun, noise=0.0, seed=0, nan_from=None, nan_radius=None):
        self.fun, self.noise, self.rng, self.nan_from, self.nan_radius = fun, noise, np.random.default_rng(seed), nan_from, nan_radius
        self.calls = []

    def __call__(self, x, *args):
        r = np.asarray(self.fun(x, *args), dtype=float).copy()
        if self.noise:
            r = r * (1 + self.noise * self.rng.normal(size=r.shape))
        k = len(self.calls) + 1
        if (self.nan_from is not None and k == self.nan_from) or (self.nan_radius is not None and np.linalg.norm(x) > self.nan_radius):
            r[0] = np.nan
        self.calls.append((np.array(x, dtype=float).copy(), r.copy(), args))
        return r


def enc(v):
    if isinstance(v, np.ndarray):
        return v.tolist()
    if isinstance(v, (tuple, list)):
        return [enc(x) for x in v]
    if callable(v):
        return '<callable>'
    if isinstance(v, dict):
        return {k: enc(x) for k, x in v.items()}
    if isinstance(v, (np.integer, np.floating, np.bool_)):
        return v.item()
    return v


def gen(rng, t):
    """one random scenario: (description dict, residual function, solve kwargs)"""
    n = int(rng.integers(1, 5))
    m = int(rng.integers(n, n + 3))
    kind = rng.choice(['lin', 'lin', 'rosen', 'sin'])
    A = rng.normal(size=(m, n)); b = rng.normal(size=m) * rng.choice([0.0, 1.0, 10.0])
    if kind == 'rosen':
        n, m = 2, 2
        fun = lambda x, *a: np.array([10.0 * (x[1] - x[0] ** 2), 1.0 - x[0]])
    elif kind == 'sin':
        fun = lambda x, *a: np.sin(A @ x) - 0.1 * b
    else:
        fun = lambda x, *a: A @ x - b
    x0 = rng.normal(size=n) * rng.choice([0.1, 1.0, 3.0])
    kw, d = {}, {'n': n, 'm': m, 'residual': kind, 'A': A, 'b': b, 'scenario': t}
    if t < 8:
        # plain scenarios first: default options, linear residuals, (no bounds | box | box with scaling) x (interpolation | regression), a budget that lets the run finish
        A = rng.normal(size=(m, n)); b = rng.normal(size=m)
        d.update(A=A, b=b)
        fun = lambda x, *a: A @ x - b
        d['residual'] = 'lin'
        c = ['none', 'box', 'box_scaled', 'box_scaled'][t % 4]
        if c != 'none':
            kw['bounds'] = (x0 - rng.uniform(0.5, 6.0, size=n), x0 + rng.uniform(0.5, 6.0, size=n))
            kw['rhobeg'] = 0.1
        if c == 'box_scaled':
            kw['scaling_within_bounds'] = True
            kw['rhobeg'] = 0.02
        kw['npt'] = n + 1 if t < 4 else 2 * n + 1
        kw['maxfun'] = 150
        d.update(constraint=c, mode='det', fault='none', regulariser=None)
        return d, Rec(fun, seed=t), x0, kw
    # ---- constraints
    c = rng.choice(['none', 'none', 'box', 'box_face', 'box_infeasible', 'box_scaled', 'proj'])
    rhobeg = float(rng.choice([0.05, 0.1, 0.5, 1.0]))
    if c.startswith('box'):
        lo = x0 - rng.uniform(2.2, 6.0, size=n) * rhobeg; hi = x0 + rng.uniform(2.2, 6.0, size=n) * rhobeg
        if c == 'box_face':
            j = int(rng.integers(0, n))
            (lo if rng.random() < 0.5 else hi)[j] = x0[j] + rng.choice([0.0, 1e-9, 0.004 * rhobeg, -0.3 * rhobeg])
            hi = np.maximum(hi, lo + 2.5 * rhobeg)
        if c == 'box_infeasible':
            x0 = x0 + rng.choice([-1, 1], size=n) * rng.uniform(0, 8.0, size=n) * rhobeg
        kw['bounds'] = (lo, hi)
        if c == 'box_scaled':
            kw['scaling_within_bounds'] = True
            rhobeg = min(rhobeg, 0.1)
    if c == 'proj':
        P = []
        for _ in range(int(rng.integers(1, 3))):
            if rng.random() < 0.5:
                cc = x0 + rng.normal(size=n) * 0.3; rr = float(rng.uniform(1.0, 3.0))
                P.append(lambda x, cc=cc, rr=rr: pball(x, cc, rr))
            else:
                a = rng.normal(size=n); a /= np.linalg.norm(a); bb = float(np.dot(a, x0) + rng.uniform(0.3, 2.0))
                P.append(lambda x, a=a, bb=bb: x - max(0.0, float(np.dot(a, x)) - bb) * a)
        kw['projections'] = P
        if rng.random() < 0.5:
            kw['bounds'] = (x0 - rng.uniform(2.2, 6.0, size=n), x0 + rng.uniform(2.2, 6.0, size=n))
        if rng.random() < 0.3:
            x0 = x0 + rng.normal(size=n) * 4
    kw['rhobeg'] = rhobeg
    kw['rhoend'] = float(rng.choice([1e-8, 1e-5, 1e-3, 1e-2])) * rhobeg
    kw['npt'] = int(rng.choice([n + 1, n + 1, n + 2, 2 * n + 1, (n + 1) * (n + 2) // 2]))
    kw['maxfun'] = int(rng.choice([rng.integers(1, kw['npt'] + 3), rng.integers(kw['npt'], 30), rng.integers(30, 120)]))
    up = {}
    # ---- noise / restarts
    r = rng.choice(['det', 'det', 'det_restarts', 'noise_soft', 'noise_hard', 'noise_samples'])
    noise = 0.0
    if r != 'det':
        up['restarts.use_restarts'] = True
        up['restarts.max_unsuccessful_restarts'] = int(rng.integers(1, 4))
        if rng.random() < 0.5:
            up['restarts.use_soft_restarts'] = bool(r != 'noise_hard')
        if rng.random() < 0.3:
            up['restarts.increase_npt'] = True
            up['restarts.increase_npt_amt'] = 1
            up['restarts.max_npt'] = min(kw['npt'] + 2, max(kw['npt'], (n + 1) * (n + 2) // 2))     # beyond (n+1)(n+2)/2 a hard restart trips the coordinate initialiser's assert (observation O14)
        if rng.random() < 0.3:
            up['restarts.soft.move_xk'] = bool(rng.integers(0, 2))
        if rng.random() < 0.3:
            up['restarts.rhoend_scale'] = float(rng.choice([0.1, 0.5, 1.0]))
        if rng.random() < 0.3:
            up['restarts.hard.use_old_rk'] = bool(rng.integers(0, 2))
        if rng.random() < 0.3:
            up['restarts.auto_detect'] = bool(rng.integers(0, 2))
    if r.startswith('noise'):
        noise = float(rng.choice([1e-3, 1e-2, 1e-1]))
        kw['objfun_has_noise'] = True
        if r == 'noise_samples':
            s = int(rng.integers(2, 4))
            kw['nsamples'] = lambda delta, rho, it, nruns, s=s: s
        if rng.random() < 0.3:
            up['noise.quit_on_noise_level'] = True
            up['noise.multiplicative_noise_level'] = noise
    # ---- growing / initialisation / misc
    if rng.random() < 0.3 and c != 'proj':
        up['growing.ndirs_initial'] = int(rng.integers(1, kw['npt']))
        if rng.random() < 0.5:
            up['growing.num_new_dirns_each_iter'] = int(rng.integers(0, 3))
        if rng.random() < 0.3:
            up['growing.full_rank.use_full_rank_interp'] = True
        elif rng.random() < 0.3:
            up['growing.perturb_trust_region_step'] = True
        if rng.random() < 0.3:
            up['growing.do_geom_steps'] = True
    if rng.random() < 0.2 and c != 'proj':
        up['init.random_initial_directions'] = True
    if rng.random() < 0.15:
        up['regression.momentum_extra_steps'] = True
        up['regression.num_extra_steps'] = 1
    if rng.random() < 0.3:
        up['logging.save_diagnostic_info'] = True
    if rng.random() < 0.2:
        up['model.abs_tol'] = float(rng.choice([1e-2, 1.0, 30.0]))
    if rng.random() < 0.2:
        up['tr_radius.alpha1'] = float(rng.choice([1e-3, 0.1, 0.5])); up['tr_radius.alpha2'] = float(rng.choice([0.1, 0.5, 0.9]))
    if rng.random() < 0.15:
        up['interpolation.precondition'] = False
    if rng.random() < 0.15:
        up['slow.max_slow_iters'] = 2; up['slow.thresh_for_slow'] = 0.5; up['slow.history_for_slow'] = 1
    # ---- regulariser (never together with scaling: finding D11)
    reg = None
    if rng.random() < 0.2 and not kw.get('scaling_within_bounds'):
        lam = float(rng.choice([0.01, 0.3, 2.0]))
        tag = object()
        kw['h'] = lambda x, *a: lam * float(np.sum(np.abs(x)))
        kw['lh'] = lam * np.sqrt(n)
        kw['prox_uh'] = lambda x, u, *a: np.sign(x) * np.maximum(np.abs(x) - u * lam, 0)
        if rng.random() < 0.5:
            kw['argsh'] = (tag,)
            kw['argsprox'] = (tag, 7)
        reg = lam
        up.pop('growing.ndirs_initial', None); up.pop('growing.num_new_dirns_each_iter', None); up.pop('growing.full_rank.use_full_rank_interp', None)
        up.pop('growing.perturb_trust_region_step', None); up.pop('growing.do_geom_steps', None)
    fault = rng.choice(['none', 'none', 'none', 'nan_at', 'nan_radius'])
    rec = Rec(fun, noise=noise, seed=t, nan_from=int(rng.integers(2, 15)) if fault == 'nan_at' else None,
              nan_radius=float(np.linalg.norm(x0) + rng.uniform(0.5, 3.0)) if fault == 'nan_radius' else None)
    if up:
        kw['user_params'] = up
    d.update(constraint=c, mode=r, fault=fault, regulariser=reg)
    return d, rec, x0, kw


def fail(d, x0, kw, what):
    print(json.dumps({'property': PID, 'observed': what, 'scenario': enc(d), 'x0': enc(x0), 'solve_kwargs': enc(kw),
                      'how': 'native/falsify2.py %s: seeded random scenario number %d (generator seed 0) run on the real code' % (PID, d['scenario'])}))
    sys.exit(1)


def F(call, h=None, argsh=()):
    v = float(np.dot(call[1], call[1]))
    return v + (h(call[0], *argsh) if h is not None else 0.0)


rng = np.random.default_rng(int(__import__('os').environ.get('VERIF_SEED', '0')))
count = 0
for t in range(NSC):
    d, rec, x0, kw = gen(rng, t)
    x0_copy = x0.copy()
    bnd_copy = copy.deepcopy(kw.get('bounds'))
    up_copy = copy.deepcopy(kw.get('user_params'))
    proj_len = len(kw['projections']) if 'projections' in kw else None
    hcalls, pcalls = [], []
    kw_run = dict(kw)
    if 'h' in kw:
        h0, p0 = kw['h'], kw['prox_uh']
        kw_run['h'] = lambda x, *a: (hcalls.append(a), h0(x, *a))[1]
        kw_run['prox_uh'] = lambda x, u, *a: (pcalls.append(a), p0(x, u, *a))[1]
    try:
        np.random.seed(t)
        s = dfols.solve(rec, x0, **kw_run)
    except Exception as e:      # noqa
        if PID in ('C07', 'C08', 'C06') and not (d['fault'] != 'none' and PID != 'C08'):
            fail(d, x0_copy, kw, 'solve raised %s: %s' % (type(e).__name__, str(e)[:200]))
        continue
    count += 1
    if PID == 'C07':
        if s.flag not in (s.EXIT_SUCCESS, s.EXIT_MAXFUN_WARNING, s.EXIT_SLOW_WARNING, s.EXIT_FALSE_SUCCESS_WARNING, s.EXIT_INPUT_ERROR, s.EXIT_TR_INCREASE_ERROR,
                          s.EXIT_LINALG_ERROR, s.EXIT_EVAL_ERROR, s.EXIT_TR_INCREASE_WARNING, getattr(s, 'EXIT_AUTO_DETECT_RESTART_WARNING', 4)):
            fail(d, x0_copy, kw, 'flag %r is not a documented exit code' % s.flag)
        if not s.msg:
            fail(d, x0_copy, kw, 'empty message')
        try:
            str(s)
        except Exception as e:  # noqa
            fail(d, x0_copy, kw, 'str(soln) raised %s' % type(e).__name__)
    if s.flag == s.EXIT_INPUT_ERROR:
        if PID == 'C07' and (s.nf != 0 or len(rec.calls) != 0):
            fail(d, x0_copy, kw, 'input-error result after %d evaluations' % len(rec.calls))
        continue
    h, argsh = kw.get('h'), kw.get('argsh', ())
    nsamp = kw.get('nsamples')
    maxfun = kw['maxfun']
    det = not kw.get('objfun_has_noise') and nsamp is None and d['fault'] == 'none'
    lo, hi = kw.get('bounds', (None, None))
    if PID == 'C01' and lo is not None:
        for i, call in enumerate(rec.calls):
            if np.any(call[0] < lo) or np.any(call[0] > hi):
                fail(d, x0_copy, kw, 'evaluation %d at x=%r violates the bounds by %g' % (i + 1, call[0].tolist(), max(np.max(lo - call[0]), np.max(call[0] - hi))))
        if np.any(s.x < lo) or np.any(s.x > hi):
            fail(d, x0_copy, kw, 'soln.x=%r violates the bounds' % s.x.tolist())
    if PID in ('C02', 'C08'):
        if len(rec.calls) > maxfun:
            fail(d, x0_copy, kw, 'objfun called %d times > maxfun=%d' % (len(rec.calls), maxfun))
        if s.nf != len(rec.calls):
            fail(d, x0_copy, kw, 'soln.nf=%d but objfun was called %d times' % (s.nf, len(rec.calls)))
        pts = 1 + sum(not np.array_equal(rec.calls[i][0], rec.calls[i - 1][0]) for i in range(1, len(rec.calls)))
        if nsamp is None and s.nx != s.nf:
            fail(d, x0_copy, kw, 'no averaging but soln.nx=%d != soln.nf=%d' % (s.nx, s.nf))
        if s.nx > s.nf or s.nx < 1:
            fail(d, x0_copy, kw, 'soln.nx=%d outside [1, nf=%d]' % (s.nx, s.nf))
    if PID in ('C03', 'C11') and det:
        k = int(s.xmin_eval_num)
        if not (1 <= k <= len(rec.calls)):
            fail(d, x0_copy, kw, 'xmin_eval_num=%d is not an evaluation number (nf=%d)' % (k, len(rec.calls)))
        xk, rk = rec.calls[k - 1][0], rec.calls[k - 1][1]
        if not np.allclose(xk, s.x, rtol=1e-9, atol=1e-9):
            fail(d, x0_copy, kw, 'soln.x is not evaluation point %d: %r vs %r' % (k, s.x.tolist(), xk.tolist()))
        if not np.allclose(rk, s.resid, rtol=1e-9, atol=1e-12):
            fail(d, x0_copy, kw, 'soln.resid is not the residual of evaluation %d' % k)
        if abs(s.obj - F(rec.calls[k - 1], h, argsh)) > 1e-9 * (1 + abs(s.obj)):
            fail(d, x0_copy, kw, 'soln.obj=%r but sum(resid^2)+h at evaluation %d is %r' % (s.obj, k, F(rec.calls[k - 1], h, argsh)))
        if PID == 'C11' and s.jacobian is not None and s.jacmin_eval_nums is not None:
            nums = np.asarray(s.jacmin_eval_nums)
            growing = 'growing.ndirs_initial' in kw.get('user_params', {})       # not "a fully initialised point set": unfilled rows carry evaluation number 0
            if np.any(nums < (0 if growing else 1)) or np.any(nums > len(rec.calls)):
                fail(d, x0_copy, kw, 'jacmin_eval_nums %r are not evaluation numbers (nf=%d)' % (nums.tolist(), len(rec.calls)))
            if d['residual'] == 'lin' and h is None and 'projections' not in kw and s.flag in (s.EXIT_SUCCESS, s.EXIT_MAXFUN_WARNING) and len(nums) >= d['n'] + 1 and not growing \
                    and not kw.get('user_params', {}).get('interpolation.precondition') is False \
                    and not np.allclose(s.jacobian, d['A'], rtol=1e-4, atol=1e-4 * (1 + np.abs(d['A']).max())):
                fail(d, x0_copy, kw, 'linear residuals but the returned Jacobian differs from A by %.3g' % np.abs(s.jacobian - d['A']).max())
    if PID in ('C04', 'C08') and not kw.get('objfun_has_noise') and nsamp is None:
        vals = [F(c_, h, argsh) for c_ in rec.calls]
        finite = [v for v in vals if np.isfinite(v)]
        if finite and (not np.isfinite(s.obj) or s.obj > min(finite) * (1 + 1e-12) + 1e-300):
            fail(d, x0_copy, kw, 'soln.obj=%r but evaluation %d had the smaller value %r' % (s.obj, vals.index(min(finite)) + 1, min(finite)))
    if PID == 'C06' and h is not None:
        if any(a != tuple(kw.get('argsh', ())) for a in hcalls):
            fail(d, x0_copy, kw, 'h was called with extra arguments %r, expected %r' % ([a for a in hcalls if a != tuple(kw.get('argsh', ()))][0], kw.get('argsh', ())))
        if any(a != tuple(kw.get('argsprox', ())) for a in pcalls):
            fail(d, x0_copy, kw, 'prox_uh was called with extra arguments %r, expected %r' % ([a for a in pcalls if a != tuple(kw.get('argsprox', ()))][0], kw.get('argsprox', ())))
    if PID == 'C09' and 'projections' in kw:
        P = kw['projections']
        for i, call in enumerate(rec.calls):
            if lo is not None and (np.any(call[0] < lo) or np.any(call[0] > hi)):
                fail(d, x0_copy, kw, 'evaluation %d violates the bound box (projected last) by %g' % (i + 1, max(np.max(lo - call[0]), np.max(call[0] - hi))))
            for j, pj in enumerate(P):
                dist = float(np.linalg.norm(pj(call[0]) - call[0]))
                if dist > 1e-3:        # far beyond sqrt(p*tol) ~ 2e-5: not an output of the projection routine
                    fail(d, x0_copy, kw, 'evaluation %d is %.3g away from user set %d' % (i + 1, dist, j))
    if PID == 'C10':
        if s.flag == s.EXIT_MAXFUN_WARNING and s.nf != maxfun:
            fail(d, x0_copy, kw, 'max-evaluations warning with nf=%d != maxfun=%d' % (s.nf, maxfun))
        if s.flag == s.EXIT_SUCCESS and not np.isfinite(s.obj) and any(np.isfinite(F(c_, h, argsh)) for c_ in rec.calls):
            fail(d, x0_copy, kw, 'success flag with obj=%r' % s.obj)
        if s.flag == s.EXIT_SUCCESS and 'sufficiently small' in s.msg and det:
            f0 = F(rec.calls[0], h, argsh)
            up = kw.get('user_params', {})
            thr = max(up.get('model.abs_tol', 1e-12), up.get('model.rel_tol', 1e-20) * f0)
            if s.obj > thr * (1 + 1e-9):
                fail(d, x0_copy, kw, '"objective is sufficiently small" but soln.obj=%r > max(abs_tol, rel_tol*f(x0))=%r' % (s.obj, thr))
        if 'restarts.use_restarts' not in kw.get('user_params', {}) and not kw.get('objfun_has_noise') and s.nruns != 1:
            fail(d, x0_copy, kw, 'no restarts enabled but soln.nruns=%d' % s.nruns)
    if PID == 'C18' and s.diagnostic_info is not None and len(s.diagnostic_info):
        df = s.diagnostic_info
        if np.any(df['delta'] < df['rho'] * (1 - 1e-12)) or np.any(df['rho'] <= 0) or (h is None and np.any(df['delta'] > 1e10)):
            fail(d, x0_copy, kw, 'a diagnostic row violates 0 < rho <= delta <= 1e10')
        if np.any(df['rho'] > kw['rhobeg'] * (1 + 1e-12)):
            fail(d, x0_copy, kw, 'a diagnostic row has rho > rhobeg')
        if list(df['iters_total']) != list(range(len(df))):
            fail(d, x0_copy, kw, 'iteration numbers are not consecutive')
        if np.any(np.diff(df['nf']) < 0) or df['nf'].iloc[-1] > s.nf or np.any(np.diff(df['nruns']) < 0):
            fail(d, x0_copy, kw, 'nf / nruns columns are not non-decreasing or exceed soln.nf')
    if PID == 'C19':
        if not np.array_equal(x0, x0_copy):
            fail(d, x0_copy, kw, "solve modified the caller's x0: %r -> %r" % (x0_copy.tolist(), x0.tolist()))
        if bnd_copy is not None and not (np.array_equal(kw['bounds'][0], bnd_copy[0]) and np.array_equal(kw['bounds'][1], bnd_copy[1])):
            fail(d, x0_copy, kw, "solve modified the caller's bound arrays")
        if up_copy is not None and kw['user_params'] != up_copy:
            fail(d, x0_copy, kw, "solve modified the caller's user_params dictionary")
        if proj_len is not None and len(kw['projections']) != proj_len:
            fail(d, x0_copy, kw, "solve changed the length of the caller's projections list: %d -> %d" % (proj_len, len(kw['projections'])))
        up = kw.get('user_params', {})
        randomised = kw.get('objfun_has_noise') or any(up.get(k_) for k_ in ('init.random_initial_directions', 'regression.momentum_extra_steps', 'restarts.increase_npt',
                                                                              'growing.perturb_trust_region_step')) or 'growing.ndirs_initial' in up or 'projections' in kw
        if not randomised and count % 3 == 0:
            rec2 = Rec(rec.fun, noise=0.0, seed=t, nan_from=rec.nan_from, nan_radius=rec.nan_radius)
            np.random.seed(12345 + t)
            np.random.normal(size=7)
            try:
                s2 = dfols.solve(rec2, x0_copy.copy(), **kw_run)
                if len(rec2.calls) != len(rec.calls) or any(not np.array_equal(a[0], b_[0]) for a, b_ in zip(rec.calls, rec2.calls)):
                    fail(d, x0_copy, kw, 'the sequence of evaluation points depends on the state of numpy.random although no random option is on')
            except Exception:
                pass
    if PID == 'C20':
        try:
            for rn in (True, False):
                dct = s.to_dict(replace_nan=rn)
                txt = json.dumps(dct, allow_nan=not rn)
                back = dfols.solver.OptimResults.from_dict(json.loads(txt))
                for fld in ('x', 'resid', 'jacobian', 'xmin_eval_num', 'jacmin_eval_nums'):
                    a, b_ = getattr(s, fld), getattr(back, fld)
                    if (a is None) != (b_ is None) or (a is not None and not np.array_equal(np.asarray(a, dtype=float), np.asarray(b_, dtype=float), equal_nan=True)):
                        fail(d, x0_copy, kw, 'field %s does not survive the JSON round trip (replace_nan=%s)' % (fld, rn))
                for fld in ('nf', 'nx', 'nruns', 'flag', 'msg'):
                    if getattr(s, fld) != getattr(back, fld):
                        fail(d, x0_copy, kw, 'field %s does not survive the JSON round trip: %r -> %r' % (fld, getattr(s, fld), getattr(back, fld)))
                if not (s.obj == back.obj or (np.isnan(s.obj) and np.isnan(back.obj))):
                    fail(d, x0_copy, kw, 'obj does not survive the JSON round trip: %r -> %r' % (s.obj, back.obj))
                if str(s) != str(back):
                    fail(d, x0_copy, kw, 'str() of the reloaded object differs')
                ta, tb = s.diagnostic_info, back.diagnostic_info
                if (ta is None) != (tb is None):
                    fail(d, x0_copy, kw, 'diagnostic table present on one side of the JSON round trip only (replace_nan=%s)' % rn)
                if ta is not None:
                    if list(ta.columns) != list(tb.columns) or len(ta) != len(tb):
                        fail(d, x0_copy, kw, 'diagnostic table changes shape in the JSON round trip: %d x %d -> %d x %d' % (len(ta), len(ta.columns), len(tb), len(tb.columns)))
                    for col in ta.columns:
                        try:
                            same = np.array_equal(np.asarray(ta[col], dtype=float), np.asarray(tb[col], dtype=float), equal_nan=True)
                        except (TypeError, ValueError):
                            same = list(ta[col]) == list(tb[col])
                        if not same:
                            fail(d, x0_copy, kw, 'column %s of the diagnostic table (%d rows) is not reproduced in order by the JSON round trip (replace_nan=%s)' % (col, len(ta), rn))
        except SystemExit:
            raise
        except Exception as e:  # noqa
            fail(d, x0_copy, kw, 'to_dict / json / from_dict / str raised %s: %s' % (type(e).__name__, str(e)[:150]))
print('%s: %d scenarios run, no violation found (bounded search: proves nothing)' % (PID, count))
sys.exit(0)
