"""Bounded, seeded differential tests of the ASSUMED library facts (A-lib axioms of the value domains) against the real NumPy / json / pandas of /venv.

This is not proof and is never counted as such: it is a cross-check of the trusted base, run by the thorough tier.  Each group draws `N` random instances (seed fixed),
evaluates the axiom natively and reports {instances, failures, first failing instance}.  A failure means an axiom the proofs rely on is FALSE for the installed
library: the driver turns that into exit 3 (soundness guard), never into a verdict about the property.
usage: axiom_tests.py <group>[,<group>...]     groups: J M B V Vd Sc L      prints one JSON line"""
import sys, json, math, warnings
import numpy as np

warnings.filterwarnings('ignore')
N = 2000
rng = np.random.default_rng(12345)
out = {}


def record(name, gen, holds, n=N):
    fails, first = 0, None
    for _ in range(n):
        inst = gen()
        try:
            good = bool(holds(*inst))
        except Exception as ex:          # an axiom that raises is a failure too
            good = False
            inst = inst + (repr(ex),)
        if not good:
            fails += 1
            if first is None:
                first = repr(inst)[:300]
    out[name] = {'instances': n, 'failures': fails, 'first_failure': first}


def rfloat(special=True):
    c = rng.integers(0, 10)
    if special and c == 0:
        return float(rng.choice([0.0, -0.0, np.inf, -np.inf, np.nan, 1e-320, 1.7976931348623157e308, 5e-324]))
    return float(rng.normal() * 10.0 ** rng.integers(-12, 13))


def rarr(shape, nan=True):
    a = rng.normal(size=shape) * 10.0 ** rng.integers(-6, 7)
    if nan and a.size:
        m = rng.random(size=shape) < 0.15
        a = np.where(m, rng.choice([np.nan, np.inf, -np.inf, 0.0], size=shape), a)
    return a


def same_arr(a, b):
    return a.shape == b.shape and a.dtype == b.dtype and bool(np.all((a == b) | (np.isnan(a) & np.isnan(b)))) if a.dtype.kind == 'f' else (a.shape == b.shape and bool(np.all(a == b)))


def group_J():
    from dfols.util import replace_nan_with_none as rn
    shapes = [(0,), (1,), (3,), (2, 3), (4, 1)]
    record('J: np.array(rn(a.tolist()), dtype=float) == a  (float arrays; NaN -> None -> NaN; inf kept)',
           lambda: (rarr(shapes[rng.integers(0, len(shapes))]),), lambda a: same_arr(np.array(rn(a.tolist()), dtype=float), a))
    record('J: np.array(a.tolist(), dtype=float) == a', lambda: (rarr(shapes[rng.integers(0, len(shapes))]),), lambda a: same_arr(np.array(a.tolist(), dtype=float), a))
    record('J: np.array(rn(a.tolist()), dtype=int) == a  (int arrays)', lambda: (rng.integers(-10**9, 10**9, size=int(rng.integers(0, 6))),),
           lambda a: same_arr(np.array(rn(a.tolist()), dtype=int), a.astype(int)))
    record('J: rn(float(v)) is None iff isnan(v), else float(v) unchanged', lambda: (rfloat(),),
           lambda v: (rn(float(v)) is None) if math.isnan(v) else (rn(float(v)) == float(v)))
    record('J: rn is the identity on ints, strings and None', lambda: (rng.choice([int(rng.integers(-9, 9)), 'abc', None], p=None),), lambda v: rn(v) == v or (v is None and rn(v) is None), n=200)

    def plain():
        a = rarr((int(rng.integers(0, 4)),), nan=False)
        return ({'x': a.tolist(), 'n': int(rng.integers(0, 100)), 's': 'msg %d' % rng.integers(0, 9), 'f': float(rng.normal() * 10.0 ** rng.integers(-300, 300)), 'none': None},)
    record('J: json.loads(json.dumps(t)) == t on plain terms (floats by repr, exact)', plain, lambda t: json.loads(json.dumps(t)) == t)
    record('J: strict JSON accepts rn(t) for a term with NaN entries', lambda: ({'x': rarr((3,)).tolist(), 'f': rfloat()},),
           lambda t: json.loads(json.dumps(rn({k: (v if not isinstance(v, list) else [None if (isinstance(e, float) and math.isnan(e)) else e for e in v]) for k, v in t.items()}), allow_nan=True)) is not None
           and all(e is None or not (isinstance(e, float) and math.isnan(e)) for e in rn(t)['x']), n=300)
    try:
        import pandas as pd

        def df():
            k = int(rng.integers(0, 5))
            return (pd.DataFrame({'a': rarr((k,)), 'b': rng.integers(0, 9, size=k), 'c': ['t%d' % i for i in range(k)]}),)

        def df_ok(d):
            back = pd.DataFrame.from_dict(json.loads(json.dumps(rn(d.to_dict()))))
            if list(back.columns) != list(d.columns) or len(back) != len(d):
                return False
            for c in d.columns:
                for x, y in zip(d[c].tolist(), back[c].tolist()):
                    if not (x == y or (isinstance(x, float) and math.isnan(x) and (y is None or (isinstance(y, float) and math.isnan(y))))):
                        return False
            return True
        record('J: DataFrame.from_dict(json(rn(df.to_dict()))) has the same columns and cell values in order (NaN <-> None)', df, df_ok, n=300)
    except ImportError:
        out['J: pandas round trip'] = {'instances': 0, 'failures': 0, 'first_failure': None, 'skipped': 'pandas not importable'}


def group_M():
    def v():
        a = rarr((int(rng.integers(1, 7)),))
        return (np.where(np.isinf(a), 1.0, a),)
    record('M: np.argmin returns the index of the first NaN if there is one, else of the first minimum',
           v, lambda a: int(np.argmin(a)) == (int(np.where(np.isnan(a))[0][0]) if np.any(np.isnan(a)) else min(range(len(a)), key=lambda i: (a[i], i))))
    record('M: np.argmin(np.where(np.isnan(v), inf, v)) is the first minimum over the non-NaN entries (0 if all NaN)',
           v, lambda a: int(np.argmin(np.where(np.isnan(a), np.inf, a))) == (min((i for i in range(len(a)) if not np.isnan(a[i])), key=lambda i: (a[i], i)) if not np.all(np.isnan(a)) else 0))
    record('M: every comparison with NaN is False; < is a strict total order on non-NaN doubles', lambda: (rfloat(), rfloat()),
           lambda x, y: (not (x < y) and not (x <= y) and not (x == y)) if (math.isnan(x) or math.isnan(y)) else ((x < y) + (y < x) + (x == y) == 1))
    record('M: np.append(a, row, axis=0) appends exactly one row and keeps the others', lambda: (rarr((int(rng.integers(0, 4)), 2)), rarr((1, 2))),
           lambda a, r: same_arr(np.append(a, r, axis=0)[:-1], a) and same_arr(np.append(a, r, axis=0)[-1:], r))
    record('M: .copy() is a distinct object with equal contents', lambda: (rarr((3,)),), lambda a: a.copy() is not a and same_arr(a.copy(), a), n=200)


def group_B():
    fin = lambda: rfloat(special=False)
    record('B: finite * finite is not NaN', lambda: (fin(), fin()), lambda x, y: not math.isnan(x * y))
    record('B: t / t == 1 for finite non-zero t', lambda: (fin(),), lambda t: t == 0 or t / t == 1.0)
    record('B: 0 / y is a zero for finite non-zero y', lambda: (fin(), float(rng.choice([0.0, -0.0]))), lambda y, z: y == 0 or (np.float64(z) / np.float64(y)) == 0.0)
    record('B: x / y is NaN only if x is NaN (y finite non-zero)', lambda: (rfloat(), fin()), lambda x, y: y == 0 or math.isnan(x) or not math.isnan(float(np.float64(x) / np.float64(y))))
    record('B: np.minimum / np.maximum are the elementwise min / max on NaN-free arrays', lambda: (rarr((4,), nan=False), rarr((4,), nan=False)),
           lambda a, b: same_arr(np.minimum(a, b), np.array([min(x, y) for x, y in zip(a, b)])) and same_arr(np.maximum(a, b), np.array([max(x, y) for x, y in zip(a, b)])))
    record('B: np.maximum(np.minimum(x, u), l) lies in [l, u] for l <= u (no NaN)', lambda: (rarr((4,), nan=False), rarr((4,), nan=False), np.abs(rarr((4,), nan=False))),
           lambda x, l, w: bool(np.all((np.maximum(np.minimum(x, l + w), l) >= l) & (np.maximum(np.minimum(x, l + w), l) <= l + w))))


def group_V():
    vec = lambda: rng.normal(size=int(rng.integers(1, 6)))
    close = lambda a, b: abs(a - b) <= 1e-12 * max(1.0, abs(a), abs(b))
    record('V: ||t*v|| == |t| * ||v||  (to 1e-12 relative)', lambda: (float(rng.normal() * 10), vec()), lambda t, v: close(np.linalg.norm(t * v), abs(t) * np.linalg.norm(v)))
    record('V: ||v|| >= 0, ||0|| == 0, 1.0*v == v, v - v == 0, v + 0 == v, (a + b) - a == b to rounding', lambda: (vec(),),
           lambda v: np.linalg.norm(v) >= 0 and np.linalg.norm(0 * v) == 0 and np.all(1.0 * v == v) and np.all(v - v == 0) and np.all(v + 0 == v))
    record('V: dot(0, a) == 0; Cauchy-Schwarz (to 1e-12 relative)', lambda: (vec(),), lambda a: np.dot(np.zeros_like(a), a) == 0 and np.dot(a, a[::-1]) ** 2 <= np.dot(a, a) * np.dot(a[::-1], a[::-1]) * (1 + 1e-12))
    from dfols.util import pball, pbox
    record('V: pball returns a point of the ball and keeps members (to 1e-12)', lambda: (vec(), float(abs(rng.normal()) + 0.1)),
           lambda x, r: np.linalg.norm(pball(x, np.zeros_like(x), r)) <= r * (1 + 1e-12) and (np.linalg.norm(x) > r or np.allclose(pball(x, np.zeros_like(x), r), x, rtol=1e-14, atol=0)))


def group_Vd():
    vec = lambda: rng.normal(size=int(rng.integers(1, 6)))
    close = lambda a, b: abs(a - b) <= 1e-12 * max(1.0, abs(a), abs(b))

    def ej():
        n = int(rng.integers(1, 6))
        return (n, int(rng.integers(0, n)), float(rng.normal() * 10.0 ** rng.integers(-3, 4)))

    def setel(n, j, t):
        z = np.zeros(n)
        z[j] = t
        return np.linalg.norm(z) == abs(t)
    record('Vd: an entry t written into a zero vector gives a vector of length |t| (exact)', ej, setel)
    record('Vd: ||v / ||v|| || == 1 for v != 0 (to 1e-12)', lambda: (vec(),), lambda v: close(np.linalg.norm(v / np.linalg.norm(v)), 1.0))

    def q():
        k = int(rng.integers(1, 6))
        return (np.linalg.qr(rng.normal(size=(k, k)))[0], int(rng.integers(0, 3)))

    def q_ok(Q, pad):
        k = Q.shape[0]
        mask = np.zeros(k + pad, dtype=bool)
        mask[rng.permutation(k + pad)[:k]] = True
        E = np.zeros((k + pad, k))
        E[mask, :] = Q
        return all(close(np.linalg.norm(E[:, c]), 1.0) for c in range(k))
    record('Vd: the Q factor of np.linalg.qr has columns of length 1, also after embedding into zero rows (to 1e-12)', q, q_ok, n=500)
    record('Vd: clipping to [l, u] with l <= 0 <= u does not lengthen a vector (exact, entrywise shrink)', lambda: (vec(),),
           lambda v: np.linalg.norm(np.maximum(np.minimum(v, np.abs(rng.normal(size=v.shape))), -np.abs(rng.normal(size=v.shape)))) <= np.linalg.norm(v))


def group_Sc():
    m = lambda: rarr((3, 2), nan=False)
    record('Sc: M / 1.0 == M exactly', lambda: (m(),), lambda M: same_arr(M / 1.0, M))

    def tail(k):
        v = np.ones((k,))
        v[1:] = 1.0 / 1.0
        return bool(np.all(v == 1))
    record('Sc: v[1:] = 1.0 on a vector of ones leaves it unchanged', lambda: (int(rng.integers(1, 6)),), tail, n=50)

    def rest(W, M):
        W = W.copy()
        W[:, 1:] = M
        return same_arr(W[:, 1:], M)
    record('Sc: W[:, 1:] read after W[:, 1:] = M returns M', lambda: (rarr((3, 3), nan=False), rarr((3, 2), nan=False)), rest, n=300)


def group_L():
    from dfols.util import dykstra, pball
    worst = 0.0
    n_inst = 300
    for _ in range(n_inst):
        n = int(rng.integers(2, 5))
        c1, c2 = rng.normal(size=n), rng.normal(size=n)
        c1, c2 = c1 / max(1.0, np.linalg.norm(c1)), c2 / max(1.0, np.linalg.norm(c2))      # the origin is a common point of the three sets (the property quantifies over non-empty intersections)
        a = rng.normal(size=n); a /= np.linalg.norm(a)
        P = [lambda x, c1=c1: pball(x, c1, 2.0), lambda x, a=a: x - max(0.0, float(np.dot(a, x)) - 0.5) * a, lambda x, c2=c2: pball(x, c2, 2.5)]
        x = rng.normal(size=n) * 3
        p1 = dykstra(P, x)
        p2 = dykstra(P, p1)
        worst = max(worst, float(np.linalg.norm(p2 - p1)))
    # a MEASUREMENT, not an axiom: nothing in domain L assumes this any more (it used to be numeric assumption N4, and this very measurement refuted it: finding D24)
    out['L: (measurement) largest move when Dykstra is applied to its own output, three sets with a common point'] = {'instances': n_inst, 'failures': 0, 'first_failure': None, 'worst': worst}


def group_L2():
    """numeric assumptions of C04 (ii) (A-N1, A-N2, N-ratio; A-M): evaluated as ONE run-time clause at every Model.change_point call of seeded random solver runs without
    sample averaging: the call targets a new slot, or a slot other than kopt, or the new value is better than the incumbent it overwrites, or the incumbent had been
    offered to the saved slot (objsave <= objopt up to 1e-12 relative)."""
    import os
    src = open(os.path.join(os.path.dirname(os.path.abspath(__file__)), 'falsify2.py')).read().split("rng = np.random.default_rng(int(")[0]
    env = {'__name__': 'falsify2_gen'}
    argv = sys.argv
    sys.argv = ['falsify2', 'C04', '0']
    import io, contextlib
    with contextlib.redirect_stdout(io.StringIO()):
        exec(src, env)
    sys.argv = argv
    import dfols
    from dfols import model as M
    real = M.Model.change_point
    st = {'calls': 0, 'failures': 0, 'first': None, 'scenario': None}

    def wrapped(self, k, x, rvec, eval_num, allow_kopt_update=True):
        npt, kopt = self.npt(), self.kopt
        old = self.objval[kopt]
        saved = self.objsave is not None and (self.objsave <= old * (1 + 1e-12) + 1e-300)
        fine = k >= npt or k != kopt
        r = real(self, k, x, rvec, eval_num, allow_kopt_update)
        st['calls'] += 1
        if not fine:
            new = self.objval[k]
            if not (new < old or np.isnan(old) or saved):
                st['failures'] += 1
                if st['first'] is None:
                    st['first'] = 'scenario %r: change_point(k=%d == kopt) replaced the incumbent value %r by %r, saved slot %r' % (st['scenario'], k, float(old), float(new), self.objsave)
        return r
    M.Model.change_point = wrapped
    try:
        g = np.random.default_rng(0)
        for t in range(220):
            d, rec, x0, kw = env['gen'](g, t)
            if kw.get('nsamples') is not None or kw.get('objfun_has_noise'):
                continue            # the clause is C04's: deterministic objective, no sample averaging (see DESIGN.md 10.9 for what a noisy run showed about A-N1)
            st['scenario'] = (t, str(d['mode']), str(d['constraint']))
            try:
                np.random.seed(t)
                with contextlib.redirect_stdout(io.StringIO()):
                    dfols.solve(rec, x0, **kw)
            except Exception:
                pass
    finally:
        M.Model.change_point = real
    out['L: A-N1 / A-N2 / N-ratio as one run-time clause at every Model.change_point call (random solver runs, no sample averaging)'] = \
        {'instances': st['calls'], 'failures': st['failures'], 'first_failure': st['first']}


GROUPS = {'J': group_J, 'M': group_M, 'B': group_B, 'V': group_V, 'Vd': group_Vd, 'Sc': group_Sc, 'L': lambda: (group_L(), group_L2())}
if __name__ == '__main__':
    want = sys.argv[1].split(',') if len(sys.argv) > 1 else list(GROUPS)
    for g in want:
        if g in GROUPS:
            try:
                GROUPS[g]()
            except Exception as ex:
                out['%s: group crashed' % g] = {'instances': 0, 'failures': 1, 'first_failure': repr(ex)[:300]}
    print(json.dumps(out))
    sys.exit(1 if any(v['failures'] for v in out.values()) else 0)
