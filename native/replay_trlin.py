"""R1 replay for the trsbox_linear scan clause (C13): the REAL trsbox_linear of the tree under test on seeded random boxes (active / inactive / degenerate sides) and radii; the point
returned must lie inside the box (to 1e-12 relative) and the ball.   argv[1]: JSON {obligation, model, meta};  prints one JSON line."""
import sys, json, warnings
import numpy as np
warnings.simplefilter('ignore')
out = {'replayable': True, 'reproduced': False, 'tried': 0}
try:
    from dfols.trust_region import trsbox_linear
    rng = np.random.default_rng(0)
    for trial in range(4000):
        n = int(rng.integers(1, 6))
        g = rng.normal(size=n) * rng.choice([0.0, 1.0], size=n, p=[0.15, 0.85])
        lo = -np.abs(rng.normal(size=n)) * rng.choice([0.0, 0.1, 1.0, 5.0], size=n); hi = np.abs(rng.normal(size=n)) * rng.choice([0.0, 0.1, 1.0, 5.0], size=n)
        Delta = float(rng.choice([0.01, 0.5, 1.0, 3.0]))
        x = trsbox_linear(g.copy(), lo.copy(), hi.copy(), Delta)
        out['tried'] += 1
        a, b = np.minimum(lo, -1e-14), np.maximum(hi, 1e-14)
        viol = max(float(np.max(a - x)), float(np.max(x - b)))
        if viol > 1e-12 * (1 + np.max(np.abs(x))) or np.linalg.norm(x) > Delta * (1 + 1e-8):
            out.update(reproduced=True, inputs={'g': g.tolist(), 'lower': lo.tolist(), 'upper': hi.tolist(), 'Delta': Delta},
                       observed='result %r is outside the box by %.3g (||x|| = %.6g, Delta = %g)' % (x.tolist(), viol, np.linalg.norm(x), Delta))
            break
except Exception as ex:
    import traceback
    out = {'replayable': False, 'reproduced': None, 'error': traceback.format_exc()[-400:]}
print(json.dumps(out))
