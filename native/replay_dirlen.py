"""R1 replay for the direction-length bundle (C14, second sentence): calls the REAL generators of the tree under test over a small family of boxes (inactive,
lower-active, upper-active, mixed; narrow and wide), radii and counts, and checks the clause of the refuted obligation natively: number of rows, length of each row.
argv[1]: JSON {obligation, model, meta};  prints one JSON line {replayable, reproduced, inputs, observed}"""
import sys, json, itertools
import numpy as np

req = json.loads(sys.argv[1])
name = req['obligation']
out = {'replayable': True, 'reproduced': False, 'tried': 0}
try:
    from dfols import util
    fn = name.split('/')[0]
    weaker = 'weaker envelope' in name or 'length envelope' in name
    if fn == 'get_scale':
        gens = ['get_scale']
    elif fn in ('random_directions_within_bounds', 'random_orthog_directions_within_bounds'):
        gens = [fn]
    else:
        gens = []
        out['replayable'] = False
    boxes = []
    for n in (1, 2, 3):
        for pat in itertools.product('ilu', repeat=n):
            for w in (0.2, 5.0, 100.0):
                lo = np.array([0.0 if p == 'l' else -w for p in pat]); hi = np.array([0.0 if p == 'u' else w for p in pat])
                boxes.append((lo, hi))
    np.random.seed(0)
    for g in gens:
        for lo, hi in boxes:
            n = len(lo)
            for delta in (0.3, 1.0, 3.0):
                if g == 'get_scale':
                    for _ in range(20):
                        d = np.random.normal(size=n)
                        s = util.get_scale(d, delta, lo, hi)
                        out['tried'] += 1
                        if not (0 <= s <= delta):
                            out.update(reproduced=True, inputs={'dirn': d.tolist(), 'delta': delta, 'lower': lo.tolist(), 'upper': hi.tolist()}, observed='get_scale returned %r' % float(s))
                            raise StopIteration
                    continue
                for num in (1, n, n + 1, 2 * n, 2 * n + 3):
                    for neg in ((True, False) if g.startswith('random_orthog') else (None,)):
                        r = getattr(util, g)(num, delta, lo, hi) if neg is None else getattr(util, g)(num, delta, lo, hi, with_neg_dirns=neg)
                        out['tried'] += 1
                        inp = {'function': g, 'num_pts': num, 'delta': delta, 'lower': lo.tolist(), 'upper': hi.tolist(), 'with_neg_dirns': neg, 'np.random.seed': 0}
                        if 'count' in name and r.shape[0] != num:
                            out.update(reproduced=True, inputs=inp, observed='%d directions returned, %d requested' % (r.shape[0], num))
                            raise StopIteration
                        if 'count' not in name and r.size:
                            L = np.linalg.norm(r, axis=1).max()
                            lim = (2.0 if weaker else 1.0) * delta * (1 + 1e-12)
                            if L > lim:
                                out.update(reproduced=True, inputs=inp, observed='longest returned direction has length %.6g = %.4g * delta' % (L, L / delta))
                                raise StopIteration
except StopIteration:
    pass
except Exception as ex:
    out = {'replayable': False, 'reproduced': None, 'error': repr(ex)[:300]}
print(json.dumps(out))
