"""R1 replay for the str-totality bundle: builds real OptimResults objects for every combination of the fields that may be None under the contract's precondition
(jacobian, jacmin_eval_nums, diagnostic_info; small and large arrays; NaN objective; input-error results) and calls str() on the tree under test.
argv[1]: JSON {obligation, model, meta};  prints one JSON line."""
import sys, json, itertools, warnings
import numpy as np
warnings.simplefilter('ignore')
out = {'replayable': True, 'reproduced': False, 'tried': 0}
try:
    import pandas as pd
    from dfols.solver import OptimResults
    jac_opts = [None, np.zeros((2, 2)), np.ones((30, 10))]
    jnum_opts = [None, np.array([1, 2, 3]), np.arange(150)]
    diag_opts = [None, pd.DataFrame({'a': [1.0, 2.0]}), pd.DataFrame()]
    for jac, jn, dg, flag, obj, big in itertools.product(jac_opts, jnum_opts, diag_opts, (0, 1, -3), (1.5, float('nan')), (False, True)):
        resid = np.ones(150) if big else np.ones(3)
        s = OptimResults(np.array([1.0, 2.0]), resid, obj, jac, 7, 5, 1, flag, 'message', 3, jn)
        s.diagnostic_info = dg
        out['tried'] += 1
        try:
            str(s)
        except Exception as ex:
            out.update(reproduced=True, inputs={'jacobian': None if jac is None else list(jac.shape), 'jacmin_eval_nums': None if jn is None else len(jn),
                                                'diagnostic_info': None if dg is None else 'DataFrame%s' % (dg.shape,), 'flag': flag, 'obj': repr(obj), 'len(resid)': len(resid)},
                       observed='str(result) raised %s: %s' % (type(ex).__name__, str(ex)[:120]))
            break
except Exception as ex:
    import traceback
    out = {'replayable': False, 'reproduced': None, 'error': traceback.format_exc()[-400:]}
print(json.dumps(out))
