"""R1 replay for the binary64 (box) bundle: rebuilds the doubles of the solver's counter-model, calls the REAL function of the tree under test and evaluates the
clause natively.  Products / quotients are abstracted in the encoding, so if the model's own values do not reproduce, a short seeded random search around
the model (same magnitudes, bounds hit exactly) looks for a concrete failing input of the same clause.
argv[1]: JSON {obligation, model, meta};  prints one JSON line {replayable, reproduced, inputs, observed}"""
import sys, json, re, struct, math
import numpy as np


def parse_fp(s):
    s = s.strip()
    if s in ('+oo',):
        return float('inf')
    if s in ('-oo',):
        return float('-inf')
    if s == 'NaN':
        return float('nan')
    if s in ('+0.0', '0.0'):
        return 0.0
    if s == '-0.0':
        return -0.0
    m = re.match(r'^(-?[0-9.]+)(?:\*\(2\*\*(-?[0-9]+)\))?$', s)
    if m:
        return math.ldexp(float(m.group(1)), int(m.group(2) or 0))
    try:
        return float(s)
    except ValueError:
        return None


req = json.loads(sys.argv[1])
name = req['obligation']
vals = {}
for k, v in (req.get('model') or {}).items():
    key = k.split('!')[0]
    f = parse_fp(v) if isinstance(v, str) else None
    if f is not None:
        vals[key] = f
out = {'replayable': False, 'reproduced': None}
rng = np.random.default_rng(0)


def nearby(x):
    """doubles of similar magnitude, including the value itself and its neighbours"""
    if not np.isfinite(x):
        return x
    c = rng.integers(0, 4)
    if c == 0:
        return x
    if c == 1:
        return float(np.nextafter(x, np.inf))
    if c == 2:
        return float(np.nextafter(x, -np.inf))
    return float(x * (1 + rng.normal() * 1e-3) + rng.normal() * 1e-300)


try:
    from dfols.model import Model
    from dfols import util
    fn = name.split('/')[0]
    if fn in ('Model.as_absolute_coordinates', 'Model.xpt') and 'lies in the box' in name:
        out['replayable'] = True

        def run(v):
            m = Model.__new__(Model)
            m.xl, m.xu = np.array([v['xl']]), np.array([v['xu']])
            m.xbase, m.sl, m.su = np.array([v['xbase']]), np.array([v['sl']]), np.array([v['su']])
            m.points = np.array([[v['points']]]); m.projections = []; m.npt_so_far = 1; m.num_pts = 1
            r = m.as_absolute_coordinates(np.array([v['x']]))[0] if fn.endswith('as_absolute_coordinates') else m.xpt(0, abs_coordinates=True)[0]
            return r, bool(v['xl'] <= r <= v['xu'])
        v0 = {k: vals.get('self.' + k, vals.get(k, 0.0)) for k in ('xl', 'xu', 'xbase', 'sl', 'su', 'points')}
        v0['x'] = vals.get('x', 0.0)
        tries = [v0]
        for _ in range(20000):
            xb = v0['xbase'] if np.isfinite(v0['xbase']) else 1.0
            xl = nearby(v0['xl']); xu = nearby(v0['xu'])
            if not (xl <= xu):
                continue
            xb2 = nearby(xb) if rng.integers(0, 2) else float(rng.normal() * (abs(xl) + abs(xu) + 1))
            tries.append({'xl': xl, 'xu': xu, 'xbase': xb2, 'sl': xl - xb2, 'su': xu - xb2, 'points': float(rng.normal() * (abs(xu - xl) + 1)),
                          'x': float(rng.choice([xl - xb2, xu - xb2, rng.normal() * (abs(xu - xl) + 1) * 3]))})
        for v in tries:
            if any(isinstance(x, float) and x != x for x in v.values()):
                continue
            r, ok = run(v)
            if not ok:
                out.update(reproduced=True, inputs=v, observed={'result': r, 'overshoot': max(v['xl'] - r, r - v['xu'])})
                break
        else:
            out['reproduced'] = False
    elif fn == 'remove_scaling' and 'caller' in name:
        out['replayable'] = True
        for _ in range(50000):
            if _ % 2:
                lo = float(np.round(rng.normal() * 3, 1)); hi = lo + float(np.round(abs(rng.normal()) * 3 + 0.1, 1))
            else:       # generic doubles over seven decades
                lo = float(rng.normal() * 10.0 ** rng.integers(-3, 4)); hi = lo + float(abs(rng.normal()) * 10.0 ** rng.integers(-3, 4)) + 1e-9
            x = float(rng.choice([0.0, 1.0, rng.uniform(0, 1), np.nextafter(1.0, 0.0)]))
            r = util.remove_scaling(np.array([x]), (np.array([lo]), np.array([hi - lo]), np.array([hi])))[0]
            if not (lo <= r <= hi):
                out.update(reproduced=True, inputs={'x_scaled': x, 'lower': lo, 'upper': hi}, observed={'result': r, 'overshoot': max(lo - r, r - hi)})
                break
        else:
            out['reproduced'] = False
    elif fn == 'pbox':
        out['replayable'] = True
        x, l, u = vals.get('x', 0.0), vals.get('l', 0.0), vals.get('u', 0.0)
        r = util.pbox(np.array([x]), np.array([l]), np.array([u]))[0]
        out.update(reproduced=not (l <= r <= u), inputs={'x': x, 'l': l, 'u': u}, observed={'result': r})
except Exception as e:      # noqa
    out['error'] = repr(e)
print(json.dumps(out))
