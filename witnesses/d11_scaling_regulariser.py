"""D11 (C06, the property's own known limitation): with scaling_within_bounds=True the smoothed-FISTA subproblem subtracts the proximal point (caller's
coordinates) from xopt + d (scaled coordinates); the regularised solve then stops at a wrong point and still reports success.   exit 1 = defect observed."""
import sys, numpy as np, dfols, warnings
warnings.simplefilter('ignore')
print('dfols from', dfols.__file__)
rng = np.random.default_rng(0)
A = rng.normal(size=(5, 3)); b = rng.normal(size=5); lam = 0.5
h = lambda x: lam * np.sum(np.abs(x))
prox = lambda x, u: np.sign(x) * np.maximum(np.abs(x) - u * lam, 0)
fr = lambda x: A @ x - b
lo = -np.array([5., 50., 0.5]); hi = np.array([5., 50., 0.5])
x0 = np.array([1., 1., 0.1])
s1 = dfols.solve(fr, x0, h=h, lh=lam * np.sqrt(3), prox_uh=prox, bounds=(lo, hi), do_logging=False)
s2 = dfols.solve(fr, x0, h=h, lh=lam * np.sqrt(3), prox_uh=prox, bounds=(lo, hi), scaling_within_bounds=True, do_logging=False)
print('unscaled: obj %.6f flag %d | scaled: obj %.6f flag %d (%s)' % (s1.obj, s1.flag, s2.obj, s2.flag, s2.msg))
if s2.flag == s2.EXIT_SUCCESS and s2.obj > s1.obj + 1e-3 * (1 + s1.obj):
    print('DEFECT: the scaled run reports success at an objective %.3f above the optimum found without scaling' % (s2.obj - s1.obj))
    sys.exit(1)
sys.exit(0)
