"""C18 finding: tr_radius.alpha1 is accepted anywhere in [0, 1], but Controller.reduce_rho keeps rho >= rhoend only for alpha1 >= 1/250
(for rho/rhoend > 250 it sets rho = alpha1*rho).  With a smaller alpha1 the recorded rho drops below rhoend.   exit 1 = defect observed."""
import sys, numpy as np, dfols
print('dfols from', dfols.__file__)
def rosen(x):
    return np.array([10.0 * (x[1] - x[0] ** 2), 1.0 - x[0]])
rhoend = 1.0 / 300.0
soln = dfols.solve(rosen, np.array([-1.2, 1.0]), rhobeg=1.0, rhoend=rhoend, maxfun=300, do_logging=False,
                   user_params={'tr_radius.alpha1': 1e-3, 'logging.save_diagnostic_info': True, 'logging.save_poisedness': False})
df = soln.diagnostic_info
bad = df[df['rho'] < rhoend * (1 - 1e-12)]
print('flag', soln.flag, soln.msg, ' rows:', len(df), ' rows with rho < rhoend:', len(bad), ' min rho:', df['rho'].min(), ' rhoend:', rhoend)
sys.exit(1 if len(bad) > 0 else 0)
