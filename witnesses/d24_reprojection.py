"""D24 (C03, C11): with projections, the initialisers store the PROJECTED point minus the base (x - xbase) and Model.xpt(k, abs_coordinates=True) projects the stored
point again.  Dykstra applied to its own output is not the identity where the alternating projections converge slowly (two half-planes meeting at a small angle),
so the x that is returned differs from the x that was evaluated; soln.obj and soln.resid are those of the evaluated point, not of soln.x.
Needs init.random_initial_directions=True (or the projections branch of the coordinate initialiser) and a best point that is one of the initial points.  exit 1 = defect observed."""
import sys, warnings
import numpy as np, dfols
warnings.simplefilter('ignore')
print('dfols from', dfols.__file__)


def halfspace(a, b):
    a = np.asarray(a, float)
    nn = np.dot(a, a)
    return lambda x: x - max(0.0, float(np.dot(a, x)) - b) * a / nn


slope, tgt = 0.1, np.array([-1.0, 0.05])
P = [halfspace([0, -1.0], 0.0), halfspace([-slope, 1.0], 0.0)]      # x2 >= 0 and x2 <= slope * x1: a wedge with its vertex at the origin
pts = []


def f(x):
    pts.append(x.copy())
    return x - tgt


np.random.seed(7)
s = dfols.solve(f, np.array([0.05, 0.001]), projections=P, maxfun=3, rhobeg=0.5, user_params={'init.random_initial_directions': True})
xe = pts[s.xmin_eval_num - 1]
d = float(np.linalg.norm(s.x - xe))
print('flag', s.flag, 'xmin_eval_num', s.xmin_eval_num, 'soln.x', s.x, 'evaluated there', xe, '|difference|', d)
print('soln.obj', s.obj, 'objective at soln.x', float(np.sum((s.x - tgt) ** 2)), 'objective at the evaluated point', float(np.sum((xe - tgt) ** 2)))
if d > 1e-9:
    print('DEFECT: soln.x is %.3g away from evaluation point number %d; soln.obj is the value at the evaluated point' % (d, s.xmin_eval_num))
    sys.exit(1)
sys.exit(0)
