"""D17 (C14): random_orthog_directions_within_bounds builds its "extra directions for active constraints" with length 2*delta, so a returned direction is longer
than the requested length delta (still inside the bounds).  Through the API: random orthogonal initialisation with x0 on a face evaluates a point 2*rhobeg away.
exit 1 = defect observed."""
import sys, numpy as np, dfols
from dfols.util import random_orthog_directions_within_bounds
print('dfols from', dfols.__file__)
np.random.seed(0)
lower, upper, delta = np.array([0.0, -1.0]), np.array([1.0, 1.0]), 0.3
d = random_orthog_directions_within_bounds(4, delta, lower, upper)
lens = np.linalg.norm(d, axis=1)
print('requested length', delta, 'returned lengths', lens, 'in bounds:', bool(np.all(d >= lower) and np.all(d <= upper)))
if np.any(lens > delta * (1 + 1e-12)):
    print('DEFECT: direction %d has length %.6g = %.3g * delta' % (int(np.argmax(lens)), lens.max(), lens.max() / delta))
    sys.exit(1)
sys.exit(0)
