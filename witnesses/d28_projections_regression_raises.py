"""D28 (C07): with general convex constraints (projections) and npt > n+1, Controller.initialise_coordinate_directions can never reach the requested number of
directions (its direction matrix is n x n) and raises RuntimeError("Unable to generate suitable initial directions") out of solve, instead of returning a result
with an error flag.  exit 1 = defect observed."""
import sys, warnings
import numpy as np, dfols
from dfols.util import pball
warnings.simplefilter('ignore')
print('dfols from', dfols.__file__)
n = 2
try:
    s = dfols.solve(lambda x: x - 2.0, np.zeros(n), projections=[lambda x: pball(x, np.zeros(n), 5.0)], npt=n + 2, maxfun=30)
    print('returned flag', s.flag, '|', s.msg)
    ok = s.flag in (s.EXIT_SUCCESS, s.EXIT_MAXFUN_WARNING, s.EXIT_SLOW_WARNING, s.EXIT_FALSE_SUCCESS_WARNING, s.EXIT_INPUT_ERROR, s.EXIT_TR_INCREASE_ERROR,
                    s.EXIT_LINALG_ERROR, s.EXIT_EVAL_ERROR, s.EXIT_TR_INCREASE_WARNING) and bool(s.msg)
    str(s)
    sys.exit(0 if ok else 1)
except Exception as e:
    print('DEFECT: solve raised %s: %s' % (type(e).__name__, e))
    sys.exit(1)
