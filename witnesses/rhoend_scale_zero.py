"""O11 (C07/C18): restarts.rhoend_scale = 0.0 passes the parameter check (range [0, inf)); after the first restart rhoend is 0 and
Controller.reduce_rho divides by it.   exit 1 = defect observed (solve raises ZeroDivisionError instead of returning a result)."""
import sys, numpy as np, dfols, warnings
warnings.simplefilter('ignore')
print('dfols from', dfols.__file__)
rng = np.random.default_rng(0)
def noisy(x):
    return np.array([10.0 * (x[1] - x[0] ** 2), 1.0 - x[0]]) * (1 + 1e-2 * rng.normal(size=2))
try:
    soln = dfols.solve(noisy, np.array([-1.2, 1.0]), objfun_has_noise=True, rhoend=1e-3, maxfun=400, do_logging=False,
                       user_params={'restarts.rhoend_scale': 0.0})
    print('returned flag', soln.flag, soln.msg)
    sys.exit(0)
except ZeroDivisionError as e:
    print('DEFECT: solve raised ZeroDivisionError:', e)
    sys.exit(1)
