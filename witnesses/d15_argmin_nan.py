"""D15 (C08/C17): Model.add_new_sample re-selects the incumbent with np.argmin, which returns the first NaN:
one NaN *sample* at a non-incumbent point steals the incumbent from a finite best point.
exit 1 = defect observed, exit 0 = not observed."""
import sys, numpy as np
import dfols
from dfols.model import Model
print('dfols from', dfols.__file__)
n, m, npt = 2, 2, 3
x0 = np.zeros(n)
mod = Model(npt, x0, np.array([1.0, 1.0]), -1e20 * np.ones(n), 1e20 * np.ones(n), [], 1)
mod.change_point(1, np.array([0.1, 0.0]), np.array([2.0, 0.0]), 2)
mod.change_point(2, np.array([0.0, 0.1]), np.array([3.0, 0.0]), 3)
assert mod.kopt == 0 and np.isfinite(mod.objopt())
mod.add_new_sample(2, rvec_extra=np.array([np.nan, 0.0]))
x, r, f, jac, ns, en, jen = mod.get_final_results()
print('kopt after NaN sample at point 2:', mod.kopt, ' objopt =', mod.objopt(), ' returned obj =', f)
if mod.kopt != 0 or not np.isfinite(f):
    print('DEFECT: a NaN sample displaced the finite incumbent (f=2.0)')
    sys.exit(1)
print('not observed')
sys.exit(0)
