"""D6/D23 (C03, C04, C11): with init.run_in_parallel=True the random-direction initialisation evaluates all points first and only then
stores them, labelling every point with the *last* evaluation point number (and dropping the results after the first exiting one).
exit 1 = defect observed."""
import sys, numpy as np, dfols
print('dfols from', dfols.__file__)
calls = []
def rosen(x):
    calls.append(x.copy())
    return np.array([10.0 * (x[1] - x[0] ** 2), 1.0 - x[0]])
np.random.seed(0)
soln = dfols.solve(rosen, np.array([-1.2, 1.0]), maxfun=3, do_logging=False,
                   user_params={'init.run_in_parallel': True, 'init.random_initial_directions': True})
print('flag', soln.flag, 'nf', soln.nf, 'xmin_eval_num', soln.xmin_eval_num, 'jacmin_eval_nums', soln.jacmin_eval_nums)
bad = False
# the returned x must be the point passed as evaluation point number xmin_eval_num
k = int(soln.xmin_eval_num)
if not (1 <= k <= len(calls)) or not np.allclose(calls[k - 1], soln.x, rtol=0, atol=1e-12):
    print('DEFECT: soln.x is not evaluation point', k, '(it is', [i + 1 for i, c in enumerate(calls) if np.allclose(c, soln.x, atol=1e-12)], ')')
    bad = True
# run to completion of the initialisation and look at the labels in the model
np.random.seed(0); calls.clear()
soln = dfols.solve(rosen, np.array([-1.2, 1.0]), maxfun=4, do_logging=False,
                   user_params={'init.run_in_parallel': True, 'init.random_initial_directions': True})
print('jacmin_eval_nums', soln.jacmin_eval_nums)
if soln.jacmin_eval_nums is not None and len(set(int(v) for v in soln.jacmin_eval_nums)) < len(soln.jacmin_eval_nums):
    print('DEFECT: several interpolation points carry the same evaluation number')
    bad = True
sys.exit(1 if bad else 0)
