"""D20 (C20, the property's own known limitation): with logging.save_xk / save_rk the diagnostic table holds NumPy arrays in its cells and
json.dumps(soln.to_dict()) raises TypeError.   exit 1 = defect observed."""
import sys, json, numpy as np, dfols, warnings
warnings.simplefilter('ignore')
print('dfols from', dfols.__file__)
def rosen(x):
    return np.array([10.0 * (x[1] - x[0] ** 2), 1.0 - x[0]])
soln = dfols.solve(rosen, np.array([-1.2, 1.0]), maxfun=30, do_logging=False,
                   user_params={'logging.save_diagnostic_info': True, 'logging.save_xk': True, 'logging.save_poisedness': False})
try:
    json.dumps(soln.to_dict())
    print('serialised fine')
    sys.exit(0)
except TypeError as e:
    print('DEFECT: json.dumps(soln.to_dict()) raised TypeError:', e)
    sys.exit(1)
