"""C10 (f) finding: an objective that returns NaN everywhere ends, with soft restarts, in
"Success: Reached maximum number of unsuccessful restarts" with soln.obj = nan (a success flag attached to a non-finite objective).
exit 1 = defect observed."""
import sys, numpy as np, dfols, warnings
warnings.simplefilter('ignore')
print('dfols from', dfols.__file__)
def allnan(x):
    return np.array([np.nan, np.nan])
soln = dfols.solve(allnan, np.array([-1.2, 1.0]), objfun_has_noise=True, maxfun=500, do_logging=False)
print('flag', soln.flag, '|', soln.msg, '| obj', soln.obj, '| nf', soln.nf, '| nruns', soln.nruns)
sys.exit(1 if (soln.flag == soln.EXIT_SUCCESS and not np.isfinite(soln.obj)) else 0)
