"""D27 (C07): solve can return the undocumented exit flag 4 (EXIT_AUTO_DETECT_RESTART_WARNING), for which ExitInformation.message has no stem
("Unknown exit flag: ...").  It needs hard restarts, an auto-detected restart, and the budget running out exactly at that evaluation.
exit 1 = defect observed."""
import sys, numpy as np, dfols, warnings
warnings.simplefilter('ignore')
print('dfols from', dfols.__file__)
def f(x):
    return np.array([10.0 * (x[1] - x[0] ** 2), 1.0 - x[0]]) * (1 + 1e-2 * np.random.normal(size=2))
up = {'restarts.use_soft_restarts': False, 'restarts.auto_detect.history': 3, 'restarts.auto_detect.min_chgJ_slope': 0.0,
      'restarts.auto_detect.min_correl': 0.0}
documented = None
for maxfun in range(8, 40):
    np.random.seed(0)
    s = dfols.solve(f, np.array([-1.2, 1.0]), objfun_has_noise=True, maxfun=maxfun, do_logging=False, user_params=up)
    documented = {s.EXIT_SUCCESS, s.EXIT_MAXFUN_WARNING, s.EXIT_SLOW_WARNING, s.EXIT_FALSE_SUCCESS_WARNING, s.EXIT_TR_INCREASE_WARNING,
                  s.EXIT_INPUT_ERROR, s.EXIT_TR_INCREASE_ERROR, s.EXIT_LINALG_ERROR, s.EXIT_EVAL_ERROR}
    if s.flag not in documented:
        print('DEFECT: maxfun=%d returns flag %d with message %r (documented codes: %s)' % (maxfun, s.flag, s.msg, sorted(documented)))
        sys.exit(1)
print('not observed')
sys.exit(0)
