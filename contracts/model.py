"""Sidecar contracts, domain M (model bookkeeping).  Serves C17, C03 (model side), C04/C08 (best-so-far inside Model),
C11 (pairing), C16 (ii: factorisation freshness).

Class invariant INV_model — for all 0 <= k < npt():
  (c) objval[k] == sumsq(fval_v[k]) [+ h(U(xbase + points[k]))]          (SMT identity, NaN included)
  (d) 0 <= kopt < npt(), 1 <= npt_so_far, array lengths == num_pts
  (e) saved slot: all-or-nothing, objsave == sumsq(rsave) [+ h(U(xsave))]
  (f) G.kmin_ok  =>  no stored objective is < objval[kopt]     (kmin_ok is cleared when the incumbent is overwritten by a worse point)
  (g) factorisation_current => G.fact_ver == G.geom            (the cached QR belongs to the current geometry)
"""
import ast, z3
from pyvc.domains.model import ModelDomain, V, F, vadd_f, vsub_f, vmin_f, vmax_f, hU_f, sumsq_f, mulJ_f, Arr, isnan_f, rv_f, FINF, transp_f, vscale_f
from pyvc.core import Ob, isz, isfp, Opt

MODS = ['self.points', 'self.fval_v', 'self.objval', 'self.nsamples', 'self.eval_num', 'self.kopt', 'self.npt_so_far',
        'self.factorisation_current', 'G.geom', 'G.kmin_ok']


def build(repo):
    D = ModelDomain(repo)
    D.ghost_shapes = {'geom': 'int', 'fact_ver': 'int', 'kmin_ok': 'bool'}
    # spec-only functions
    sb = D.spec_builtins = {}
    sb['same'] = lambda a, b: same(a, b)
    sb['isnan'] = lambda a: isnan_f(a.val if isinstance(a, Opt) else a)
    sb['vadd'] = lambda a, b: vadd_f(a, b)
    sb['notposinf'] = lambda a: z3.And(z3.Not(isnan_f(val_(a))), rv_f(val_(a)) < rv_f(FINF))
    sb['vsub'] = lambda a, b: vsub_f(a, b)
    sb['hU'] = lambda a: hU_f(a)
    sb['matvec'] = lambda a, b: mulJ_f(a, b)
    sb['transp'] = lambda a: transp_f(a)
    sb['twice'] = lambda a: vscale_f(z3.RealVal('2.0'), a)
    sb['val'] = lambda a: a.val if isinstance(a, Opt) else a
    sb['same_opt'] = same_opt
    from pyvc.domains.model import ZEROV
    D.spec_consts = {'zerov': ZEROV, 'anyY': z3.Const('anyY', V)}

    D.predicate('npt', ['m'], 'min(m.num_pts, m.npt_so_far)')
    D.predicate('Fobj', ['m', 'r', 'xabs'], 'ite(isnone(m.h), sumsq(r), sumsq(r) + hU(xabs))')
    D.predicate('rec_unchanged', ['m', 'j'],
                'm.points[j] == old(m.points[j]) and m.fval_v[j] == old(m.fval_v[j]) and same(m.objval[j], old(m.objval[j])) '
                'and m.nsamples[j] == old(m.nsamples[j]) and m.eval_num[j] == old(m.eval_num[j])')
    D.predicate('rec_moved', ['m', 'j', 'i'],     # record j is the old record i
                'm.points[j] == old(m.points[i]) and m.fval_v[j] == old(m.fval_v[i]) and same(m.objval[j], old(m.objval[i])) '
                'and m.nsamples[j] == old(m.nsamples[i]) and m.eval_num[j] == old(m.eval_num[i])')
    D.predicate('slot_none', ['m'], 'isnone(m.objsave) and isnone(m.xsave) and isnone(m.rsave) and isnone(m.nsamples_save) and isnone(m.eval_num_save)')
    D.predicate('slot_some', ['m'], 'not isnone(m.objsave) and not isnone(m.xsave) and not isnone(m.rsave) and not isnone(m.nsamples_save) '
                                    'and not isnone(m.eval_num_save)')
    D.predicate('slot_unchanged', ['m'],
                'isnone(m.objsave) == isnone(old(m.objsave)) and implies(not isnone(m.objsave), same(val(m.objsave), val(old(m.objsave))) '
                'and val(m.xsave) == val(old(m.xsave)) and val(m.rsave) == val(old(m.rsave)) and val(m.nsamples_save) == val(old(m.nsamples_save)) '
                'and val(m.eval_num_save) == val(old(m.eval_num_save)) and jac_slot_unchanged(m))')
    D.predicate('jac_slot_unchanged', ['m'],
                'isnone(m.jacsave) == isnone(old(m.jacsave)) and implies(not isnone(m.jacsave), val(m.jacsave) == val(old(m.jacsave))) and '
                'isnone(m.jacsave_eval_nums) == isnone(old(m.jacsave_eval_nums)) and '
                'implies(not isnone(m.jacsave_eval_nums), val(m.jacsave_eval_nums) == val(old(m.jacsave_eval_nums)))')
    D.predicate('INV_shape', ['m'],
                '0 <= m.kopt and m.kopt < npt(m) and 1 <= m.npt_so_far and 1 <= m.num_pts '
                'and len(m.points) == m.num_pts and len(m.fval_v) == m.num_pts and len(m.objval) == m.num_pts '
                'and len(m.nsamples) == m.num_pts and len(m.eval_num) == m.num_pts')
    D.predicate('INV_obj', ['m'], 'forall(k_, 0, npt(m), same(m.objval[k_], Fobj(m, m.fval_v[k_], vadd(m.xbase, m.points[k_]))))')
    D.predicate('INV_slot', ['m'], 'slot_none(m) or (slot_some(m) and same(val(m.objsave), Fobj(m, val(m.rsave), val(m.xsave))))')
    D.predicate('INV_min', ['m'], 'implies(G.kmin_ok, forall(k_, 0, npt(m), not (m.objval[k_] < m.objval[m.kopt])))')
    D.predicate('INV_fact', ['m'], 'implies(m.factorisation_current, G.fact_ver == G.geom)')
    D.predicate('INV_model', ['m'], 'INV_shape(m) and INV_obj(m) and INV_slot(m) and INV_min(m) and INV_fact(m)')
    INV_ENS = [('class invariant (d) indices and lengths:: INV_shape(self)', 'C17', 'C03'),
               ('class invariant (c) each stored objective equals sum(stored residual^2)+h at the stored point:: INV_obj(self)', 'C17', 'C03'),
               ('class invariant (e) saved slot is all-or-nothing and consistent:: INV_slot(self)', 'C17', 'C03', 'C04'),
               ('class invariant (f) incumbent designates the smallest stored objective unless overwritten by a worse point:: INV_min(self)', 'C17', 'C04'),
               ('class invariant (g) cached factorisation belongs to the current geometry:: INV_fact(self)', 'C16', 'C17')]

    T17 = ['C17']
    # ------------------------------------------------------------------ change_point
    D.contract('Model.change_point', tags=['C17', 'C03', 'C04', 'C08'],
               params={'k': 'int', 'x': 'V', 'rvec': 'V', 'eval_num': 'int', 'allow_kopt_update': 'bool'},
               requires=['INV_model(self)', 'k >= 0'],
               modifies=MODS,
               ghost_return=[('G.geom', 'G.geom + 1'),
                             ('G.kmin_ok', 'old(G.kmin_ok) and allow_kopt_update and (k != old(self.kopt) or self.objval[k] <= old(self.objval[self.kopt]))')],
               ensures=['record k is the new data:: self.points[k] == x and self.fval_v[k] == rvec and self.nsamples[k] == 1 and self.eval_num[k] == eval_num',
                        'objective formula:: same(self.objval[k], Fobj(self, rvec, vadd(self.xbase, x)))',
                        'all other records unchanged:: forall(j, 0, self.num_pts, implies(j != k, rec_unchanged(self, j)))',
                        'incumbent moves only to a strictly better value:: self.kopt == ite(allow_kopt_update and self.objval[k] < self.objval[old(self.kopt)], k, old(self.kopt))',
                        ('cached factorisation invalidated:: not self.factorisation_current', 'C16', 'C17'),
                        'growing counter:: self.npt_so_far == old(self.npt_so_far) + (1 if (k >= old(self.npt_so_far) and old(self.npt_so_far) < self.num_pts) else 0)',
                        ('finite incumbent not displaced by NaN:: implies(not isnan(old(self.objval[self.kopt])) and k != old(self.kopt), not isnan(self.objval[self.kopt]))', 'C08', 'C04', 'C17'),
                        ('best never gets worse unless incumbent overwritten:: implies(allow_kopt_update and k != old(self.kopt) and not isnan(old(self.objval[self.kopt])), self.objval[self.kopt] <= old(self.objval[self.kopt]) and self.objval[self.kopt] <= self.objval[k] or isnan(self.objval[k]) and same(self.objval[self.kopt], old(self.objval[self.kopt])))', 'C04', 'C08'),
                        ] + INV_ENS)
    # ------------------------------------------------------------------ swap_points
    D.contract('Model.swap_points', tags=['C17', 'C03'], params={'k1': 'int', 'k2': 'int'},
               requires=['INV_model(self)', '0 <= k1 and k1 < npt(self)', '0 <= k2 and k2 < npt(self)'],
               modifies=MODS, ghost_return=[('G.geom', 'G.geom + 1')],
               ensures=['whole records exchanged:: rec_moved(self, k1, k2) and rec_moved(self, k2, k1)',
                        'all other records unchanged:: forall(j, 0, self.num_pts, implies(j != k1 and j != k2, rec_unchanged(self, j)))',
                        'incumbent follows its record:: self.kopt == ite(old(self.kopt) == k1, k2, ite(old(self.kopt) == k2, k1, old(self.kopt)))',
                        ('cached factorisation invalidated:: not self.factorisation_current', 'C16', 'C17'),
                        'self.npt_so_far == old(self.npt_so_far)', 'G.kmin_ok == old(G.kmin_ok)',
                        ] + INV_ENS)
    # ------------------------------------------------------------------ add_new_sample
    D.contract('Model.add_new_sample', tags=['C17', 'C03', 'C08'], params={'k': 'int', 'rvec_extra': 'V'},
               requires=['INV_model(self)', 'self.nsamples[k] >= 1'],
               modifies=['self.fval_v', 'self.objval', 'self.nsamples', 'self.kopt', 'G.kmin_ok'],
               ghost_return=[('G.kmin_ok', 'forall(k_, 0, npt(self), not isnan(self.objval[k_]))')],
               ensures=['running mean:: self.fval_v[k] == wavg(old(self.nsamples[k]), old(self.fval_v[k]), rvec_extra)',
                        'sample count exact:: self.nsamples[k] == old(self.nsamples[k]) + 1',
                        'objective formula:: same(self.objval[k], Fobj(self, self.fval_v[k], vadd(self.xbase, self.points[k])))',
                        'all other records unchanged:: forall(j, 0, self.num_pts, implies(j != k, rec_unchanged(self, j)))',
                        'self.points[k] == old(self.points[k]) and self.eval_num[k] == old(self.eval_num[k])',
                        ('incumbent is the smallest stored objective (no NaN stored):: implies(forall(k_, 0, npt(self), not isnan(self.objval[k_])), forall(k_, 0, npt(self), self.objval[self.kopt] <= self.objval[k_]))', 'C17', 'C04'),
                        ('incumbent is at least as good as every finite stored value (NaN never preferred):: forall(j, 0, npt(self), implies(notposinf(self.objval[j]), '
                         'not isnan(self.objval[self.kopt]) and self.objval[self.kopt] <= self.objval[j]))', 'C08', 'C17', 'C04'),
                        ] + INV_ENS)
    # ------------------------------------------------------------------ add_new_point
    D.contract('Model.add_new_point', tags=['C17', 'C03', 'C04', 'C08'], params={'x': 'V', 'rvec': 'V', 'eval_num': 'int'},
               requires=['INV_model(self)', 'point set is full (the appended row is the next valid one):: self.npt_so_far >= self.num_pts'],
               modifies=MODS + ['self.num_pts'],
               ghost_return=[('G.geom', 'G.geom + 1')],
               ensures=['appended record is the new data:: self.points[old(self.num_pts)] == x and self.fval_v[old(self.num_pts)] == rvec '
                        'and self.nsamples[old(self.num_pts)] == 1 and self.eval_num[old(self.num_pts)] == eval_num',
                        'objective formula:: same(self.objval[old(self.num_pts)], Fobj(self, rvec, vadd(self.xbase, x)))',
                        'all other records unchanged:: forall(j, 0, old(self.num_pts), rec_unchanged(self, j))',
                        'self.num_pts == old(self.num_pts) + 1 and self.npt_so_far == old(self.npt_so_far) + 1',
                        'incumbent moves only to a strictly better value:: self.kopt == ite(self.objval[old(self.num_pts)] < old(self.objval[self.kopt]), old(self.num_pts), old(self.kopt))',
                        ('cached factorisation invalidated:: not self.factorisation_current', 'C16', 'C17'),
                        ('finite incumbent not displaced by NaN:: implies(not isnan(old(self.objval[self.kopt])), not isnan(self.objval[self.kopt]))', 'C08', 'C04'),
                        'G.kmin_ok == old(G.kmin_ok)'] + INV_ENS)
    # ------------------------------------------------------------------ shift_base
    D.contract('Model.shift_base', tags=['C17', 'C16', 'C03'], params={'xbase_shift': 'V'},
               requires=['INV_model(self)'],
               modifies=['self.points', 'self.xbase', 'self.sl', 'self.su', 'self.factorisation_current', 'self.model_const', 'G.geom'],
               ghost_return=[('G.geom', 'G.geom + 1')],
               loops={'for:k#0': ['forall(j, 0, i_, self.points[j] == vsub(old(self.points[j]), xbase_shift))',
                          'forall(j, i_, self.num_pts, self.points[j] == old(self.points[j]))',
                          'len(self.points) == old(len(self.points))']},
               ensures=['every stored point shifted:: forall(j, 0, npt(self), self.points[j] == vsub(old(self.points[j]), xbase_shift))',
                        'rows beyond npt untouched:: forall(j, npt(self), self.num_pts, self.points[j] == old(self.points[j]))',
                        'self.xbase == vadd(old(self.xbase), xbase_shift)',
                        'self.sl == vsub(old(self.sl), xbase_shift) and self.su == vsub(old(self.su), xbase_shift)',
                        ('absolute points unchanged:: forall(j, 0, npt(self), vadd(self.xbase, self.points[j]) == vadd(old(self.xbase), old(self.points[j])))', 'C16', 'C17', 'C03'),
                        ('model constant follows the shift:: self.model_const == vadd(old(self.model_const), matvec(self.model_jac, xbase_shift))', 'C16'),
                        ('model values at every fixed absolute point are unchanged (y arbitrary, relative to the old base):: '
                         'vadd(self.model_const, matvec(self.model_jac, vsub(anyY, xbase_shift))) == vadd(old(self.model_const), matvec(self.model_jac, anyY))', 'C16'),
                        ('the residual vector assembled by build_full_model (model_const + J*xopt) is unchanged, hence so are g = 2*J^T*r and H = 2*J^T*J:: '
                         'vadd(self.model_const, matvec(self.model_jac, self.xopt())) == vadd(old(self.model_const), matvec(self.model_jac, old(self.xopt())))', 'C16'),
                        ('the Jacobian itself is not touched by a base shift:: self.model_jac == old(self.model_jac)', 'C16'),
                        ('cached factorisation invalidated:: not self.factorisation_current', 'C16', 'C17'),
                        ] + INV_ENS)
    # ------------------------------------------------------------------ save_point
    D.contract('Model.save_point', tags=['C17', 'C03', 'C04', 'C08', 'C11'],
               params={'x': 'V', 'rvec': 'V', 'nsamples': 'int', 'eval_num': 'int', 'x_in_abs_coords': 'bool'},
               requires=['INV_model(self)'],
               modifies=['self.xsave', 'self.rsave', 'self.objsave', 'self.jacsave', 'self.nsamples_save', 'self.eval_num_save', 'self.jacsave_eval_nums'],
               result='bool',
               ensures=['slot is untouched or entirely the new entry:: (not result and slot_unchanged(self)) or (result and slot_some(self) '
                        'and val(self.xsave) == NEWX and val(self.rsave) == rvec and val(self.nsamples_save) == nsamples '
                        'and val(self.eval_num_save) == eval_num and same(val(self.objsave), Fobj(self, rvec, NEWX)))'.replace('NEWX', 'ite(x_in_abs_coords, x, self.as_absolute_coordinates(x))'),
                        ('Jacobian snapshot saved with its evaluation numbers:: implies(result, val(self.jacsave) == self.model_jac and '
                         'isnone(self.jacsave_eval_nums) == isnone(self.model_jac_eval_nums) and implies(not isnone(self.model_jac_eval_nums), '
                         'val(self.jacsave_eval_nums) == val(self.model_jac_eval_nums)))', 'C11'),
                        ('NaN-aware minimum:: not isnone(self.objsave) and '
                         'implies(not isnan(NEWF), not isnan(val(self.objsave)) and val(self.objsave) <= NEWF) and '
                         'implies(not isnone(old(self.objsave)) and not isnan(val(old(self.objsave))), not isnan(val(self.objsave)) and val(self.objsave) <= val(old(self.objsave)))'
                         .replace('NEWF', 'Fobj(self, rvec, ite(x_in_abs_coords, x, self.as_absolute_coordinates(x)))'), 'C04', 'C08', 'C17', 'C10'),
                        ] + INV_ENS)
    # ------------------------------------------------------------------ get_final_results
    D.contract('Model.get_final_results', tags=['C17', 'C03', 'C04', 'C08', 'C11'],
               requires=['INV_model(self)'], modifies=[], result=None,
               ensures=['one whole entry is returned:: (result[0] == self.xopt(abs_coordinates=True) and result[1] == self.fval_v[self.kopt] and same(val(result[2]), self.objval[self.kopt]) '
                        'and result[4] == self.nsamples[self.kopt] and result[5] == self.eval_num[self.kopt]) or '
                        '(slot_some(self) and result[0] == val(self.xsave) and result[1] == val(self.rsave) and same(val(result[2]), val(self.objsave)) '
                        'and result[4] == val(self.nsamples_save) and result[5] == val(self.eval_num_save))',
                        ('objective formula of the returned entry:: (same(val(result[2]), self.objval[self.kopt]) and result[1] == self.fval_v[self.kopt] and '
                         'same(val(result[2]), Fobj(self, result[1], vadd(self.xbase, self.points[self.kopt])))) or '
                         '(slot_some(self) and same(val(result[2]), Fobj(self, result[1], result[0])))', 'C03', 'C17'),
                        ('Jacobian returned with its own evaluation numbers:: (result[3] == self.model_jac and same_opt(result[6], self.model_jac_eval_nums)) or '
                         '(not isnone(self.objsave) and same_opt(result[3], self.jacsave) and same_opt(result[6], self.jacsave_eval_nums))', 'C11'),
                        ('Jacobian belongs to the returned entry:: (result[5] == self.eval_num[self.kopt] and same(val(result[2]), self.objval[self.kopt]) and result[3] == self.model_jac) or '
                         '(slot_some(self) and result[5] == val(self.eval_num_save) and same_opt(result[3], self.jacsave))', 'C11'),
                        ('NaN-aware minimum:: implies(not isnan(self.objval[self.kopt]), not isnan(val(result[2])) and val(result[2]) <= self.objval[self.kopt]) and '
                         'implies(not isnone(self.objsave) and not isnan(val(self.objsave)), not isnan(val(result[2])) and val(result[2]) <= val(self.objsave))', 'C04', 'C08', 'C17', 'C10')])
    # ------------------------------------------------------------------ __init__
    D.contract('Model.__init__', tags=['C17', 'C03'],
               params={'npt': 'int', 'x0': 'V', 'r0': 'V', 'xl': 'V', 'xu': 'V', 'projections': 'projlist', 'r0_nsamples': 'int', 'h': 'opt:cb:h',
                       'n': 'opt:int', 'm': 'opt:int', 'abs_tol': 'fp', 'rel_tol': 'fp', 'x0_eval_num': 'int'},
               requires=['npt >= 1'],
               modifies=['self.*', 'G.kmin_ok', 'G.geom', 'G.fact_ver'],
               ghost_return=[('G.kmin_ok', 'True')],
               ensures=['first record is x0:: self.points[0] == zerov and self.xbase == x0 and self.fval_v[0] == r0 and self.nsamples[0] == r0_nsamples '
                        'and self.eval_num[0] == x0_eval_num',
                        'self.kopt == 0 and self.npt_so_far == 1 and self.num_pts == npt',
                        'same(self.objval[0], Fobj(self, r0, x0))',
                        'slot_none(self)', 'isnone(self.model_jac_eval_nums)', 'not self.factorisation_current'] + INV_ENS)
    # ------------------------------------------------------------------ factorisation / interpolation (bookkeeping only)
    D.contract('Model.factorise_geom_system', tags=['C16', 'C17'],
               requires=['INV_model(self)'],
               modifies=['self.Q', 'self.R', 'self.qr_of_transpose', 'self.left_scaling', 'self.right_scaling', 'self.factorisation_current', 'G.fact_ver'],
               ghost_return=[('G.fact_ver', 'ite(old(self.factorisation_current), G.fact_ver, G.geom)')],
               ensures=['self.factorisation_current', 'factorisation is of the current geometry:: G.fact_ver == G.geom'],
               notes='ghost: the QR computed when the flag was clear is of the current point set (interpolation_matrix() is read in the same call)')
    D.contract('Model.interpolate_mini_models_svd', tags=['C11', 'C17', 'C16'],
               requires=['INV_model(self)'],
               modifies=['self.Q', 'self.R', 'self.qr_of_transpose', 'self.left_scaling', 'self.right_scaling', 'self.factorisation_current', 'G.fact_ver',
                         'self.model_jac', 'self.model_const', 'self.model_jac_eval_nums'],
               ensures=[('successful fit is labelled with a snapshot of the evaluation numbers it used:: implies(result[0], not isnone(self.model_jac_eval_nums) '
                         'and val(self.model_jac_eval_nums) == self.eval_num)', 'C11'),
                        ('failed fit keeps the previous pair:: implies(not result[0] and not make_full_rank, self.model_jac == old(self.model_jac) and same_opt(self.model_jac_eval_nums, old(self.model_jac_eval_nums)))', 'C11')] + INV_ENS,
               params={'make_full_rank': 'bool', 'verbose': 'bool', 'get_chg_J': 'bool', 'throw_error_on_nans': 'bool'})
    D.contract('Model.build_full_model', tags=['C16'], requires=['INV_model(self)'], modifies=[], result=None,
               ensures=['g = 2 J^T r with r = model_const + J xopt (Gauss-Newton assembly; the convention is sum of squares, no factor 1/2):: '
                        'result[0] == twice(matvec(transp(self.model_jac), vadd(self.model_const, matvec(self.model_jac, self.xopt()))))',
                        'H = 2 J^T J:: result[1] == twice(matvec(transp(self.model_jac), self.model_jac))'])
    # ------------------------------------------------------------------ xpt_directions: the directions the interpolation system is built from are those of the CLIPPED stored points
    D.contract('Model.xpt_directions', tags=['C16'], params={'include_kopt': 'bool'},
               requires=['INV_model(self)'], modifies=[], result='arr:V',
               loops={'for:k#0': [('rows written so far are the directions of the clipped stored points from the clipped incumbent:: '
                                   'forall(j, 0, k, implies(include_kopt or j != self.kopt, dirns[j if (include_kopt or j < self.kopt) else j - 1] == '
                                   'vsub(np.minimum(np.maximum(self.sl, self.points[j]), self.su), np.minimum(np.maximum(self.sl, self.points[self.kopt]), self.su))))', 'C16')]},
               ensures=[('(C16) every direction handed to the interpolation system is xpt(k) - xopt with BOTH points clipped to the bounds exactly as when they were evaluated '
                         '(a stored step that overshoots a bound is not used raw: the fit goes through the points that were really evaluated):: '
                         'forall(j, 0, self.npt(), implies(include_kopt or j != self.kopt, result[j if (include_kopt or j < self.kopt) else j - 1] == '
                         'vsub(np.minimum(np.maximum(self.sl, self.points[j]), self.su), np.minimum(np.maximum(self.sl, self.points[self.kopt]), self.su))))', 'C16')])
    D.verify_list = ['Model.xpt_directions', 'Model.build_full_model', 'Model.__init__', 'Model.factorise_geom_system', 'Model.interpolate_mini_models_svd', 'Model.change_point', 'Model.swap_points', 'Model.add_new_sample', 'Model.add_new_point', 'Model.shift_base',
                     'Model.save_point', 'Model.get_final_results']
    return D


def val_(a):
    return a.val if isinstance(a, Opt) else a


def same_opt(a, b):
    oa = a if isinstance(a, Opt) else Opt(z3.BoolVal(False), a)
    ob = b if isinstance(b, Opt) else Opt(z3.BoolVal(False), b)
    if oa.val is None or ob.val is None:
        return z3.And(oa.is_none, ob.is_none)
    va, vb = oa.val, ob.val
    eq = z3.And(va.arr == vb.arr, va.len == vb.len) if isinstance(va, Arr) else (va == vb)
    return z3.And(oa.is_none == ob.is_none, z3.Or(oa.is_none, eq))


def same(a, b):
    """SMT identity ('the stored value *is* v': NaN is NaN); fpEQ is only used where the code itself compares with =="""
    if isinstance(a, Opt):
        a = a.val
    if isinstance(b, Opt):
        b = b.val
    return a == b


SNAPSHOT_FIELDS = {'xsave', 'rsave', 'jacsave', 'jacsave_eval_nums', 'model_jac_eval_nums'}


def extra_obligations(repo, D, pid):
    from pyvc import fresh
    tags = ['C03', 'C11', 'C17', 'C19']
    obs = fresh.obligations(repo, SNAPSHOT_FIELDS, tags)
    # returned x / resid / Jacobian of the live entry are copies (the caller may keep them across later model updates)
    obs += fresh.returns_fresh(repo, 'Model.get_final_results', [0, 1, 3], tags)
    # A-alias (arrays are modelled by value) needs: no statement of a Model method reads a VIEW of an array on its right-hand side that the same statement overwrites through another
    # target (a[i, :], a[j, :] = a[j, :], a[i, :] exchanges nothing: the second read sees the first write).  Basic-index reads (ints / slices) are views; fancy-index reads
    # (a[[i, j]]) and .copy() are copies.
    import ast, z3
    from pyvc.core import Ob
    for qual, f in sorted(repo.funcs.items()):
        if f.cls != 'Model':
            continue
        k = 0
        for n in ast.walk(f.node):
            if not (isinstance(n, ast.Assign) and len(n.targets) == 1 and isinstance(n.targets[0], ast.Tuple) and isinstance(n.value, ast.Tuple)):
                continue
            tg, vals = n.targets[0].elts, n.value.elts
            k += 1
            bad = []
            for i, t in enumerate(tg):
                if not isinstance(t, ast.Subscript):
                    continue
                base = ast.unparse(t.value)
                for j, v in enumerate(vals):
                    if j <= i:
                        continue        # a value read for an EARLIER target position cannot be affected by this store... (all right-hand sides are evaluated first, but views stay live)
                    pass
                for j, v in enumerate(vals):
                    if isinstance(v, ast.Subscript) and ast.unparse(v.value) == base and j != i:
                        idx = v.slice.elts if isinstance(v.slice, ast.Tuple) else [v.slice]
                        if not any(isinstance(x, ast.List) for x in idx):      # basic indexing: a view of the array that target i writes into
                            bad.append('%s is a view of %s, which the same statement writes through %s' % (ast.unparse(v), base, ast.unparse(t)))
            obs.append(Ob('%s/fresh[tuple assignment #%d reads no view of an array it also writes (arrays by value)]' % (qual, k), 'fresh', qual, ['C17', 'C03'], [],
                          z3.BoolVal(not bad), n.lineno, 'unsat', {'syntactic': True, 'why': '; '.join(bad[:2])}))
    obs += guarded_fit_obligation(repo)
    return obs


def guarded_fit_obligation(repo):
    """(C08) the one linear solve whose right-hand side is EVALUATION DATA (the residual fit in Model.interpolate_mini_models_svd) sits inside a try block whose handlers catch both
    LinAlgError and ValueError and return the failure flag: SciPy's finiteness check raises ValueError on an inf / NaN residual, and that must become the documented
    linear-algebra exit, not an exception out of solve.  Syntactic (exception frame of the function)."""
    import ast, z3
    from pyvc.core import Ob
    fi = repo.func('Model.interpolate_mini_models_svd')
    out = []
    if fi is None:
        return out
    sites, bad = 0, []
    for t in ast.walk(fi.node):
        if not isinstance(t, ast.Try):
            continue
        calls = [c for b in t.body for c in ast.walk(b) if isinstance(c, ast.Call) and isinstance(c.func, ast.Attribute) and c.func.attr == 'solve_geom_system']
        if not calls:
            continue
        sites += len(calls)
        caught = set()
        for h in t.handlers:
            names = [h.type] if h.type is not None and not isinstance(h.type, ast.Tuple) else (list(h.type.elts) if h.type is not None else [])
            returns = any(isinstance(x, ast.Return) for b in h.body for x in ast.walk(b)) and not any(isinstance(x, ast.Raise) for b in h.body for x in ast.walk(b))
            for nm in names:
                if returns:
                    caught.add(ast.unparse(nm).split('.')[-1])
            if h.type is None and returns:
                caught |= {'LinAlgError', 'ValueError'}
        if 'Exception' in caught:
            caught |= {'LinAlgError', 'ValueError'}
        for need in ('LinAlgError', 'ValueError'):
            if need not in caught:
                bad.append('the try around solve_geom_system at line %d has no returning handler for %s' % (calls[0].lineno, need))
    total = sum(1 for c in ast.walk(fi.node) if isinstance(c, ast.Call) and isinstance(c.func, ast.Attribute) and c.func.attr == 'solve_geom_system')
    if total != sites:
        bad.append('%d call(s) of solve_geom_system outside any try block' % (total - sites))
    out.append(Ob('Model.interpolate_mini_models_svd/frame[(C08) the fit of the evaluation data is guarded: LinAlgError and ValueError (inf / NaN data) become the failure flag, not an exception]',
                  'frame', 'Model.interpolate_mini_models_svd', ['C08'], [], z3.BoolVal(not bad and total > 0), fi.span[0], 'unsat', {'syntactic': True, 'why': '; '.join(bad)}))
    return out
