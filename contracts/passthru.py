"""Sidecar contracts, bundle `passthru` (domain L with opaque values).  Serves C06 (i): every call of the regulariser has the shape h(<point>, *argsh) and every call
of the proximal operator the shape prox_uh(<point>, u, *argsprox), with exactly the tuples the caller gave to solve (ghost G.argsh, G.argsprox), along the whole route
solve -> solve_main -> Controller -> Model / util.model_value / ctrsbox_sfista (nested gradient_Fu)."""
import ast, z3
from pyvc.core import *
from pyvc.domain import Domain
from pyvc.domains.ledger import LedgerDomain, VL, isval


class SpaceVal:
    """coordinate-space tag of a vector inside ctrsbox_sfista: 'scaled' (the solver's internal coordinates) or 'user' (the caller's)"""

    def __init__(self, tag):
        self.tag = tag

    def merge(self, c, o):
        return self if isinstance(o, SpaceVal) and o.tag == self.tag else UNK

    def fresh_like(self, name, st):
        return self


class Dom(LedgerDomain):
    inline = set(LedgerDomain.inline) | {'sumsq_'}

    def __init__(self, repo):
        LedgerDomain.__init__(self, repo)
        self.ghost_shapes = {'argsh': 'val', 'argsprox': 'val', 'gen': 'int', 'mver': 'int', 'nptver': 'int', 'proj': 'bool', 'lastvals': 'val', 'nanflag': 'bool'}
        for cls in ('Controller', 'Model'):
            self.field_shapes[(cls, 'argsh')] = 'val'
            self.field_shapes[(cls, 'h')] = 'opt:cb:h'
        self.field_shapes[('Controller', 'argsprox')] = 'val'
        self.field_shapes[('Controller', 'prox_uh')] = 'opt:cb:prox_uh'
        self.field_shapes[('Controller', 'model')] = 'ref:Model'
        self._n = 0
        self.install_space()

    def callback(self, eng, cb, e, args, kwargs, st):
        if cb.name in ('h', 'prox_uh') and len(eng.frames) >= 1:
            want_pos = 1 if cb.name == 'h' else 2
            ghost = st.heap[('G', 'argsh' if cb.name == 'h' else 'argsprox')]
            stars = [a for a in args if isinstance(a, StarArgs)]
            pos = [a for a in args if not isinstance(a, StarArgs)]
            ok = z3.BoolVal(False)
            if len(stars) == 1 and args and isinstance(args[-1], StarArgs) and len(pos) == want_pos and isval(stars[0].v):
                ok = stars[0].v == ghost
            fr = eng.frames[0]
            self._n += 1
            k = fr.call_ord.get(id(e), (cb.name, self._n))
            # nested closures (gradient_Fu) are executed inside the frame of the enclosing function: the obligation belongs to it
            if cb.name == 'prox_uh' and pos and isinstance(pos[0], SpaceVal):
                eng.oblige(st, z3.BoolVal(pos[0].tag == 'user'), 'space', 'prox_uh receives its point in the caller\'s coordinates', ['C06'], e.lineno, site='prox_uh#%d' % (self._n + 1))
            eng.oblige(st, ok, 'pass-through', '%s is called as %s(%s*%s) with the caller\'s tuple' % (cb.name, cb.name, 'x, ' if want_pos == 1 else 'x, u, ',
                                                                                                      'argsh' if cb.name == 'h' else 'argsprox'),
                       ['C06'], e.lineno, site='%s#%d@%d' % (k[0], k[1], e.lineno) if False else '%s#%d' % (cb.name, self._n))
            return SpaceVal('user') if cb.name == 'prox_uh' else UNK
        return LedgerDomain.callback(self, eng, cb, e, args, kwargs, st)

    def binop(self, op, a, b, st, node=None):
        if isinstance(a, SpaceVal) and isinstance(b, SpaceVal):
            if a.tag != b.tag and op in ('+', '-'):
                # a vector in the solver's (scaled) coordinates combined with one in the caller's: only meaningful without scaling
                sc = st.env.get('scaling_changes', UNK)
                isn = self.is_same(sc, NONE, st)
                self._sp = getattr(self, '_sp', 0) + 1
                self.eng.oblige(st, isn if isn is not None else z3.BoolVal(False), 'space', 'a scaled-coordinate vector is combined with a user-coordinate vector only when there is no scaling',
                                ['C06'], getattr(node, 'lineno', 0), site='gradient_Fu#%d' % self._sp)
            return SpaceVal(a.tag)
        if isinstance(a, SpaceVal) or isinstance(b, SpaceVal):
            sv = a if isinstance(a, SpaceVal) else b
            return SpaceVal(sv.tag)
        return LedgerDomain.binop(self, op, a, b, st, node)

    def at_arity_error(self, eng, node, st, msg, callee):
        nm = callee.name if hasattr(callee, 'name') else getattr(callee, 'qual', '?')
        self._n += 1
        eng.oblige(st, z3.BoolVal(False), 'call-conformance', '%s: %s' % (nm, msg), ['C06', 'C07'], node.lineno, site='%s#%d' % (nm, self._n))

    def default_loop_invariant(self, eng, loop, st, frame):
        con = frame.contract
        if con is None or len(eng.frames) != 1 or not con.ledger_inv:
            return []
        if not any(isinstance(n, ast.Call) for s_ in loop.body for n in ast.walk(s_)):
            return []
        if frame.fi.name == 'solve_main' and 'control' not in st.env:
            return []           # the x0 sampling loop runs before the controller exists
        return con.ledger_inv

    def at_break(self, eng, loop, st, line, frame):
        pass

    def install_space(self):
        self.builtins['np.zeros'] = lambda eng, n, a, k, st: SpaceVal('scaled') if eng.frames and eng.frames[0].qual == 'ctrsbox_sfista' else UNK
        self.builtins['remove_scaling'] = lambda eng, n, a, k, st: SpaceVal('user') if a and isinstance(a[0], SpaceVal) else UNK

    def lib_call(self, eng, e, name, args, kwargs, st):
        if name in self.builtins:
            return self.builtins[name](eng, e, args, kwargs, st)
        return LedgerDomain.lib_call(self, eng, e, name, args, kwargs, st)

    def call_method(self, eng, recv, meth, e, st):
        if isinstance(recv, SpaceVal) and meth in ('copy', 'dot'):
            eng.eval_args(e, st)
            return recv if meth == 'copy' else UNK
        return LedgerDomain.call_method(self, eng, recv, meth, e, st)

    def default_param(self, fi, nm, st):
        if nm in ('argsh', 'argsprox'):
            return z3.Const(fresh_name(nm), VL)
        return LedgerDomain.default_param(self, fi, nm, st)

    def name_shape(self, name):
        if name in ('argsh', 'argsprox'):
            return 'val'
        return LedgerDomain.name_shape(self, name)


def build(repo):
    D = Dom(repo)
    T = ['C06']
    AH, AP = 'argsh == G.argsh', 'argsprox == G.argsprox'
    SELF_M = ['self.argsh == G.argsh']
    SELF_C = ['self.argsh == G.argsh', 'self.argsprox == G.argsprox', 'self.model.argsh == G.argsh']
    # constructors
    D.contract('Model.__init__', tags=T, params={'h': 'opt:cb:h'}, requires=[AH], modifies=['self.*'], ensures=['self.argsh == argsh', 'same_none:: isnone(self.h) == isnone(h)'])
    D.contract('Controller.__init__', tags=T, params={'h': 'opt:cb:h', 'prox_uh': 'opt:cb:prox_uh'}, requires=[AH, AP], modifies=['self.*'],
               ensures=['self.argsh == argsh and self.argsprox == argsprox and self.model.argsh == argsh'])
    # Model methods that evaluate h
    for q in ('Model.change_point', 'Model.add_new_sample', 'Model.add_new_point', 'Model.save_point'):
        D.contract(q, tags=T, requires=SELF_M, modifies=['self.points', 'self.fval_v', 'self.objval', 'self.nsamples', 'self.eval_num', 'self.kopt', 'self.npt_so_far',
                                                         'self.num_pts', 'self.factorisation_current', 'self.xsave', 'self.rsave', 'self.objsave', 'self.jacsave',
                                                         'self.nsamples_save', 'self.eval_num_save', 'self.jacsave_eval_nums'], ensures=[])
    # util
    D.contract('model_value', tags=T, params={'h': 'opt:cb:h'}, requires=['isnone(h) or argsh == G.argsh'], modifies=[], ensures=[], result='unk')
    D.contract('eval_least_squares_with_regularisation', tags=T, params={'h': 'opt:cb:h', 'objfun': 'cb:objfun_'}, requires=[AH], modifies=[], ensures=[], result=('unk', 'unk'))
    def setup_sfista(eng, st):
        st.env['xopt'] = SpaceVal('scaled')
        st.env['g'] = SpaceVal('scaled')
        st.env['scaling_changes'] = Opt(fbool('sc_none'), UNK)
    D.contract('ctrsbox_sfista', tags=T, setup=setup_sfista, params={'h': 'opt:cb:h', 'prox_uh': 'opt:cb:prox_uh'}, requires=[AH, AP], modifies=[], ensures=[],
               result=('unk', 'unk', 'unk'))
    # Controller methods
    for q in ('Controller.evaluate_objective', 'Controller.evaluate_criticality_measure', 'Controller.trust_region_step', 'Controller.geometry_step',
              'Controller.calculate_ratio'):
        D.contract(q, tags=T, requires=SELF_C, modifies=['self.nf', 'self.nx', 'self.diffs', 'self.last_successful_iter', 'self.model.*'], ensures=SELF_C, result='unk')
    D.contract('solve_main', tags=T, params={'h': 'opt:cb:h', 'prox_uh': 'opt:cb:prox_uh', 'objfun': 'cb:objfun_', 'nsamples': 'cb:nsamples'},
               requires=[AH, AP], modifies=['params[*]'], ensures=[], result=('unk',) * 12,
               ledger_inv=[c.replace('self.', 'control.') for c in SELF_C])
    D.contract('solve', tags=T, params={'h': 'opt:cb:h', 'prox_uh': 'opt:cb:prox_uh', 'objfun': 'cb:objfun_', 'nsamples': 'opt:cb:nsamples'},
               requires=['ghost: the tuples the caller passed:: argsh == G.argsh and argsprox == G.argsprox'], modifies=['params[*]'], ensures=[], result='unk')
    D.verify_list = ['solve', 'solve_main', 'Controller.__init__', 'Model.__init__', 'Model.change_point', 'Model.add_new_sample', 'Model.add_new_point', 'Model.save_point',
                     'model_value', 'eval_least_squares_with_regularisation', 'ctrsbox_sfista', 'Controller.evaluate_objective', 'Controller.evaluate_criticality_measure',
                     'Controller.trust_region_step', 'Controller.geometry_step', 'Controller.calculate_ratio']
    return D


def extra_obligations(repo, D, pid):
    """coverage: every syntactic call of h / prox_uh in the package lies in a function under contract in this bundle"""
    out = []
    covered = set(D.verify_list)
    for qual, fi in sorted(repo.funcs.items()):
        if fi.module == 'hessian':
            continue
        n_calls = 0
        for n in ast.walk(fi.node):
            if isinstance(n, ast.Call):
                nm = n.func.id if isinstance(n.func, ast.Name) else (n.func.attr if isinstance(n.func, ast.Attribute) else None)
                if nm in ('h', 'prox_uh'):
                    n_calls += 1
        if n_calls:
            out.append(Ob('%s/frame[its %d call(s) of h / prox_uh are under contract]' % (qual, n_calls), 'frame', qual, ['C06'], [], z3.BoolVal(qual in covered), fi.span[0],
                          'unsat', {'syntactic': True}))
    return out
