"""Sidecar contracts, domain Tb.  Serves C18 (diagnostic table shape): one row per save_info_from_control, all 23 documented columns of equal
length, iters_total[i] == i, update_* write the last row only."""
from pyvc.domains.table import TableDomain, DL
from pyvc.core import fint, UNK

# transcribed from docs/diagnostic.rst (23 documented columns)
COLUMNS = ['xk', 'rk', 'fk', 'rho', 'delta', 'norm_sk', 'npt', 'interpolation_error', 'interpolation_condition_number',
           'interpolation_change_J_norm', 'interpolation_total_residual', 'poisedness', 'max_distance_xk', 'norm_gk', 'nruns', 'nf', 'nx',
           'nsamples', 'iter_this_run', 'iters_total', 'iter_type', 'ratio', 'slow_iter']


def build(repo):
    D = TableDomain(repo)
    D.ghost_shapes = {'rows': 'int'}
    D.field_shapes[('Controller', 'nf')] = 'int'
    D.field_shapes[('Controller', 'nx')] = 'int'

    def setup(eng, st):
        st.heap[('self', 'data')] = DL({k: (st.heap[('G', 'rows')], UNK) for k in COLUMNS})
    T = ['C18']
    D.contract('DiagnosticInfo.__init__', tags=T, modifies=['self.*', 'G.rows'], ghost_return=[('G.rows', '0')],
               ensures=['the table has exactly the documented columns:: columns_are(self.data, %r)' % COLUMNS, 'every column is empty:: all_len(self.data, 0)'])
    D.contract('DiagnosticInfo.save_info_from_control', tags=T, setup=setup, params={'nruns': 'int', 'iter_this_run': 'int', 'control': 'ref:Controller'},
               requires=['G.rows >= 0'], modifies=['self.data', 'G.rows'], ghost_return=[('G.rows', 'G.rows + 1')],
               ensures=['exactly one row is added to every column:: all_len(self.data, old(G.rows) + 1)',
                        'iteration numbers are consecutive from 0:: collast(self.data, "iters_total") == old(G.rows)',
                        'the row records the live counters:: collast(self.data, "nf") == control.nf and collast(self.data, "nx") == control.nx and '
                        'collast(self.data, "nruns") == nruns and collast(self.data, "iter_this_run") == iter_this_run',
                        'columns_are(self.data, %r)' % COLUMNS])
    for q in ('update_interpolation_information', 'update_ratio', 'update_iter_type', 'update_slow_iter'):
        D.contract('DiagnosticInfo.' + q, tags=T, setup=setup,
                   requires=['a row exists (save_info_from_control ran earlier in this iteration):: G.rows >= 1'], modifies=['self.data'],
                   ensures=['no row is added or removed:: all_len(self.data, G.rows)', 'columns_are(self.data, %r)' % COLUMNS])
    D.verify_list = ['DiagnosticInfo.__init__', 'DiagnosticInfo.save_info_from_control', 'DiagnosticInfo.update_interpolation_information',
                     'DiagnosticInfo.update_ratio', 'DiagnosticInfo.update_iter_type', 'DiagnosticInfo.update_slow_iter']
    return D
