"""Sidecar contract, domain Cd (real scalars, arrays by element).  Serves C16 / C11, clause "the full-rank completion does not disturb the data":

Model.interpolate_mini_models_svd(make_full_rank=True) raises the singular values of the fitted Jacobian to a floor.  The first r = (number of directions) singular values carry
the interpolation conditions; they stay what they are exactly when the floor does not exceed s[r-1].  Contract: whenever the two safety floors do not bind
(s[0] / max_jac_cond <= s[r-1], min_sing_val <= s[r-1]) and sing_val_frac <= 1, the floor is at most s[r-1].  Everything else in the function is opaque here
(its bookkeeping is under contract in bundle model)."""
from pyvc.domains.coord import CoordDomain


import z3
M_ = z3.Int('M_dim')


class Dom(CoordDomain):
    def __init__(self, repo):
        CoordDomain.__init__(self, repo)
        from pyvc.domains.coord import N_
        self.builtins['Model.n'] = lambda eng, n, a, k, st: N_
        self.builtins['Model.m'] = lambda eng, n, a, k, st: M_
        self.field_shapes[('Model', 'npt_so_far')] = 'int'

    def name_shape(self, name):
        if name == 's':
            return 'rvec'
        if name in ('r', 'k'):
            return 'int'
        return CoordDomain.name_shape(self, name)

    def on_assign_name(self, name, v, st):
        from pyvc.core import is_unk
        if is_unk(v) and name == 's':
            return self.fresh('rvec', 's', st)
        return CoordDomain.on_assign_name(self, name, v, st)


def build(repo):
    D = Dom(repo)
    D.ghost_shapes = {'floor': 'real', 'sr': 'real', 's0': 'real', 'set': 'bool'}
    D.contract('Model.interpolate_mini_models_svd', tags=['C16', 'C11'],
               params={'make_full_rank': 'bool', 'min_sing_val': 'real', 'sing_val_frac': 'real', 'max_jac_cond': 'real', 'verbose': 'bool', 'get_chg_J': 'bool',
                       'throw_error_on_nans': 'bool'},
               requires=['max_jac_cond > 0', 'not G.set', 'self.npt_so_far >= 2'],
               modifies=['self.*', 'G.floor', 'G.sr', 'G.s0', 'G.set'], result=None,
               # the rank index is taken from its definition (number of directions, capped by n and m), not from the local `r`
               ghost_after_assign={'floor_val': [('G.floor', 'floor_val'), ('G.sr', 's[min(self.npt_so_far - 1, self.n(), self.m()) - 1]'), ('G.s0', 's[0]'), ('G.set', 'True')]},
               ensures=[('(C16, C11) the full-rank completion leaves the genuine singular values alone: when neither safety floor binds and sing_val_frac <= 1, the floor applied to the '
                         'singular values does not exceed the smallest genuine one, s[r-1] (A-lib: LA.svd returns them in descending order, non-negative):: '
                         'implies(G.set and sing_val_frac <= 1 and G.s0 >= G.sr and G.sr >= 0 and G.s0 / max_jac_cond <= G.sr and min_sing_val <= G.sr, G.floor <= G.sr)', 'C16', 'C11')])
    D.verify_list = ['Model.interpolate_mini_models_svd']
    return D
