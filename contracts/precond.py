"""Sidecar contract, domain Sc.  Serves C16, clause (iv) "preconditioning consistency":

Model.interpolation_matrix returns (W, left_scaling, right_scaling).  solve_geom_system solves with W and multiplies the solution by right_scaling, so the solution is that
of the UNSCALED interpolation system [1 | y_t - x_k] exactly when W is that matrix with its direction columns divided by ONE scale s and right_scaling is (1, 1/s, ..., 1/s) for
the SAME s — and s must be 1 when preconditioning is switched off.  The contract states this on the real body; a change that scales the matrix but not the solution (or the
reverse), under either setting of the option, fails it."""
from pyvc.domains.precond import PrecondDomain


def build(repo):
    D = PrecondDomain(repo)
    D.ghost_shapes = {'s': 'real'}
    D.contract('Model.interpolation_matrix', tags=['C16'], requires=[], modifies=['G.s'], result=None,
               ghost_after_assign={'approx_delta': [('G.s', 'approx_delta')]},
               ensures=['(C16 iv) the matrix that is factorised is [1 | directions / s]:: '
                        'result[0] == SETREST(SETCOL0(ZEROS(npt_now(), ndim() + 1), 1.0), DIVS(XPT_DIRECTIONS(), G.s))',
                        '(C16 iv) the solution is un-scaled by the same s: right_scaling == (1, 1/s, ..., 1/s):: result[2] == SETTAIL(ONES(ndim() + 1), 1.0 / G.s)',
                        '(C16 iv) no row scaling:: result[1] == ONES(npt_now())',
                        '(C16 iv) without preconditioning the scale is exactly 1:: self.precondition or G.s == 1.0'])
    D.verify_list = ['Model.interpolation_matrix']
    return D
