"""Sidecar contracts, domain V (real vectors).  Serves C15 (Dykstra: stop rule, fixed point, last projector, sweeps), C13 (||d|| <= Delta for the convex
step solvers, zero-step substitution), C09 (stop rule => sqrt(p*tol) via Lean lemma L1).

Ghost of dykstra:  G.xs[j]  the iterate after j sub-steps of the current sweep (xs[0] at sweep start, xs[j+1] = P[j](...)),
                   G.S      sum_{j < i} ||xs[j] - xs[j+1]||^2   (a recursive ghost function SUMSQ(xs, i)).
When the routine stops by its rule:  SUMSQ(xs, p) < tol  and  xs[j+1] in C_j for all j  — exactly the hypothesis of lemma L1 (lemmas/L1.lean), whose conclusion
is  ||xs[p] - xs[i]|| <= sqrt(p * tol), hence  dist(result, C_i) <= sqrt(p * tol)  for every set."""
import z3
from pyvc.core import *
from pyvc.domains.vec import VecDomain, V, R, I, norm_f, vsub_f, PROJ, INC, PLEN, PListV, PLv, vscale_r
from pyvc.domains.model import Arr, ZEROV

SUMSQ = z3.RecFunction('SUMSQ', z3.ArraySort(I, V), I, R)
_xs, _k = z3.Const('xs_', z3.ArraySort(I, V)), z3.Int('k_')
z3.RecAddDefinition(SUMSQ, [_xs, _k], z3.If(_k <= 0, z3.RealVal(0),
                                            SUMSQ(_xs, _k - 1) + norm_f(vsub_f(z3.Select(_xs, _k - 1), z3.Select(_xs, _k))) * norm_f(vsub_f(z3.Select(_xs, _k - 1), z3.Select(_xs, _k)))))


class Dom(VecDomain):
    scratch_ghosts = ('xs', 'S')       # ghost scratch state of dykstra (meaningful only inside one call)

    def init_state(self, st, fi, con):
        VecDomain.init_state(self, st, fi, con)
        xs, k, j, v = z3.Const('xs_', z3.ArraySort(I, V)), z3.Int('k_'), z3.Int('j_'), z3.Const('v_', V)
        # L0 (trusted, elementary induction on k): the ghost sum up to k reads xs[0..k] only
        st.assume(z3.ForAll([xs, k, j, v], z3.Implies(j > k, SUMSQ(z3.Store(xs, j, v), k) == SUMSQ(xs, k))))
        st.assume(z3.ForAll([xs], SUMSQ(xs, 0) == 0))

    def name_shape(self, name):
        return {'obj': 'real'}.get(name)

    def on_assign_name(self, name, v, st):
        if is_unk(v) and self.name_shape(name) == 'real':
            return freal(name)
        return VecDomain.on_assign_name(self, name, v, st)

    def install_builtins(self):
        VecDomain.install_builtins(self)
        self.builtins['ceil'] = lambda eng, n, a, k, st: self.b_round(a, st, True)
        self.builtins['math.ceil'] = self.builtins['ceil']
        self.builtins['int'] = lambda eng, n, a, k, st: self.b_round(a, st, False) if a and isz(a[0]) and isreal(a[0]) else VecDomain.b_int(self, eng, n, a, k, st)

    def b_round(self, a, st, up):
        """A-lib: ceil(x) is the integer r with x <= r < x + 1; int(x) truncates towards zero"""
        x = a[0] if a else UNK
        if not (isz(x) and isnum(x)):
            return fint('round')
        x = to_real(x)
        r = fint('ceil' if up else 'trunc')
        rr = z3.ToReal(r)
        if up:
            st.assume(z3.And(rr >= x, rr < x + 1))
        else:
            st.assume(z3.If(x >= 0, z3.And(rr <= x, x < rr + 1), z3.And(rr >= x, x > rr - 1)))
        return r

    def fresh(self, shape, name, st=None):
        if shape == 'xs':
            return z3.Array(fresh_name(name), I, V)
        return VecDomain.fresh(self, shape, name, st)

    def spec_call(self, eng, name, e, st):
        if name == 'SUMSQ':
            a, k = eng.ev(e.args[0], st), eng.ev(e.args[1], st)
            if not isz(a) or not isint(k):
                return UNK
            return SUMSQ(a, k)
        if name == 'XOPT_ABS':
            return z3.Const('XOPT_ABS', V)
        if name == 'XOPT_REL':
            return z3.Const('XOPT_REL', V)
        if name == 'unfold':
            # one unfolding of the recursive ghost sum at k (k >= 1): hint for the solver
            a, k = eng.ev(e.args[0], st), eng.ev(e.args[1], st)
            if not isz(a) or not isint(k):
                return UNK
            d = norm_f(vsub_f(z3.Select(a, k - 1), z3.Select(a, k)))
            return z3.Implies(k >= 1, SUMSQ(a, k) == SUMSQ(a, k - 1) + d * d)
        return VecDomain.spec_call(self, eng, name, e, st)


def build(repo):
    D = Dom(repo)
    D.ghost_shapes = {'xs': 'xs', 'S': 'real'}
    T15 = ['C15', 'C09']
    D.contract('dykstra', tags=T15, params={'P': 'plist', 'x0': 'V', 'max_iter': 'int', 'tol': 'real'},
               requires=['p >= 1 projectors:: len(P) >= 1', 'tol >= 0'],
               modifies=['G.xs', 'G.S'],
               ghost_after_assign={'x@elemcall': [('G.S', 'G.S + sq(norm(vsub(select(G.xs, i), x)))'), ('G.xs', 'store(G.xs, i + 1, x)')],
                                   'cI@const': [('G.S', '0.0'), ('G.xs', 'store(G.xs, 0, x)')]},
               loops={'while#0': ['0 <= n and (n <= max_iter or n == 0)', 'p == len(P)', 'len(y) == p',
                                  'before the first sweep the stop quantity is +inf:: n >= 1 or isinf(cI)',
                                  'after a sweep: the stop quantity is the sum of squared moves of that sweep:: implies(n >= 1, not isinf(cI) and rval(cI) == SUMSQ(G.xs, p))',
                                  'after a sweep: the iterate is the last one of the sweep:: implies(n >= 1, x == select(G.xs, p))',
                                  'after a sweep: every sub-iterate lies in its set:: implies(n >= 1, forall(j, 0, p, INC(P, j, select(G.xs, j + 1))))',
                                  ('fixed point: a starting point inside every set is never moved:: implies(forall(j, 0, p, INC(P, j, x0)), x == x0 and '
                                   'forall(j, 0, p, y[j] == zerov) and (n == 0 or rval(cI) == 0))', 'C15')],
                      'for:i#0': ['0 <= i_ and i_ <= p', 'p == len(P)', 'len(y) == p', 'n >= 0 and n < max_iter',
                                  'x == select(G.xs, i_)', 'not isinf(cI) and rval(cI) == G.S and G.S == SUMSQ(G.xs, i_) and unfold(G.xs, i_)',
                                  'forall(j, 0, i_, INC(P, j, select(G.xs, j + 1)))',
                                  ('fixed point (inner):: implies(forall(j, 0, p, INC(P, j, x0)), x == x0 and forall(j, 0, p, y[j] == zerov) and rval(cI) == 0)', 'C15')]},
               ensures=[('at most max_iter sweeps:: n <= max_iter or n == 0', 'C15'),
                        ('the routine returns before max_iter sweeps only by its documented rule with the CALLER\'s tolerance (the stop quantity of the last sweep is below tol as passed in):: '
                         'n >= max_iter or (not isinf(cI) and rval(cI) < tol)', 'C15', 'C09'),
                        ('stopped by the rule => hypothesis of lemma L1: the squared moves of the last sweep sum to less than tol, and each sub-iterate lies in its set:: '
                         'implies(n >= 1 and not isinf(cI) and rval(cI) < tol, result == select(G.xs, p) and SUMSQ(G.xs, p) < tol and '
                         'forall(j, 0, p, INC(P, j, select(G.xs, j + 1))))', 'C15', 'C09'),
                        ('result is an output of the last projector whenever a sweep ran:: implies(max_iter >= 1, INC(P, len(P) - 1, result))', 'C15', 'C09', 'C13'),
                        ('a point already in all sets is returned unchanged:: implies(forall(j, 0, len(P), INC(P, j, x0)), result == x0)', 'C15')],
               result='V')
    # ------------------------------------------------------------------ pball
    D.contract('pball', tags=['C13', 'C15'], params={'x': 'V', 'c': 'V', 'r': 'real'}, requires=['r > 0'], modifies=[], result='V',
               ensures=['result lies in the ball:: norm(vsub(result, c)) <= r',
                        ('a point of the ball is returned unchanged (exactly, in real arithmetic; up to rounding of c + 1.0*(x - c) in floating point):: '
                         'implies(norm(vsub(x, c)) <= r, result == x)', 'C15')])
    # ------------------------------------------------------------------ convex step solvers: the trust-region ball is projected last
    STEP_REQ = ['delta > 0', 'Dykstra runs at least one sweep (dykstra.max_iters >= 1 in the parameter table):: d_max_iters >= 1', 'd_tol >= 0']
    FINREQ = [('(C08 iv) the convex step solvers are only entered with a finite model gradient and Hessian (otherwise the zero step is taken):: ALLFINITE(g) and ALLFINITE(H)', 'C08', 'C13')]
    D.contract('ctrsbox_pgd', tags=['C13'], params={'xopt': 'V', 'g': 'V', 'H': 'V', 'projections': 'plist', 'delta': 'real', 'd_max_iters': 'int', 'd_tol': 'real'},
               requires=STEP_REQ + FINREQ, modifies=[], result=None,
               loops={'for:ii#0': ['norm(d) <= delta']},
               ensures=['||d|| <= Delta (real arithmetic):: norm(result[0]) <= delta'])
    D.contract('ctrsbox_sfista', tags=['C13'],
               params={'xopt': 'V', 'g': 'V', 'H': 'V', 'projections': 'plist', 'delta': 'real', 'd_max_iters': 'int', 'd_tol': 'real', 'h': 'cb:h',
                       'prox_uh': 'cb:prox_uh', 'L_h': 'real', 'func_tol': 'real', 'max_iters': 'int', 'scaling_changes': 'opt:V', 'sfista_iters_scale': 'real'},
               requires=STEP_REQ + FINREQ + ['A-pre (input checks of solve: lh > 0; documented parameter ranges: func_tol.* > 0 and sfista.max_iters_scaling > 0, times delta > 0):: '
                                            'L_h > 0 and func_tol > 0 and sfista_iters_scale > 0',
                                            ('(C06) the regularised subproblem is solved OVER the feasible set: S-FISTA is handed at least one projection (the bound box when there are no general '
                                             'constraints), so every iterate of its inner loop is feasible - a step computed in the ball alone and clipped afterwards is not a minimiser:: len(projections) >= 1', 'C06'),
                                            ('(C13, C06) S-FISTA evaluates the regulariser in the caller\'s variables: it is handed the controller\'s scaling_changes:: scaling_changes == G.sc', 'C13', 'C06'),
                                            'A-params sub-range (the S-FISTA loop runs at least once; func_tol.max_iters = 0 is accepted by the parameter check and leaves gnew unbound):: max_iters >= 1'],
               modifies=[], result=None,
               loops={'for:k#0': ['norm(d) <= delta',
                                  ('(C06, C08) the S-FISTA loop runs at least once (the iteration count is a ceiling of a positive quantity, capped by func_tol.max_iters >= 1), so the step, '
                                   'its gradient and the curvature it returns are always bound:: MAX_LOOP_ITERS >= 1', 'C06', 'C08', 'C13')]},
               ensures=['||d|| <= Delta (real arithmetic):: norm(result[0]) <= delta'])
    D.contract('ctrsbox_linear', tags=['C13'], params={'xbase': 'V', 'g': 'V', 'projections': 'plist', 'Delta': 'real', 'd_max_iters': 'int', 'd_tol': 'real'},
               requires=['Delta > 0', 'd_max_iters >= 1', 'd_tol >= 0'], modifies=[], result='V',
               loops={'for:ii#0': ['norm(d) <= Delta']},
               ensures=['||d|| <= Delta (real arithmetic):: norm(result) <= Delta'])
    PICK = [('the step returned is one of the two candidates (minimiser / maximiser of the linear function):: result == G.smin or result == G.smax', 'C13'),
            ('of the two candidates the one with the larger |c + g.s| is returned (the comparison that makes the geometry step attain its maximum):: '
             'abs(c + DOT(g, result)) >= abs(c + DOT(g, G.smin)) and abs(c + DOT(g, result)) >= abs(c + DOT(g, G.smax))', 'C13')]
    D.ghost_shapes.update({'smin': 'V', 'smax': 'V', 'sc': 'V'})
    D.contract('ctrsbox_geometry', tags=['C13'], params={'xbase': 'V', 'c': 'real', 'g': 'V', 'projections': 'plist', 'Delta': 'real', 'd_max_iters': 'int', 'd_tol': 'real'},
               requires=['Delta > 0'], modifies=['G.smin', 'G.smax'], result='V',
               ghost_after_assign={'smin': [('G.smin', 'smin')], 'smax': [('G.smax', 'smax')]},
               ensures=['||s|| <= Delta (real arithmetic):: norm(result) <= Delta'] + PICK)
    D.contract('trsbox_linear', tags=['C13'], params={'g': 'V', 'a_in': 'V', 'b_in': 'V', 'Delta': 'real'}, modifies=[], result='V',
               ensures=['A-def (a deterministic function of its arguments):: result == TRLIN(g, a_in, b_in, Delta)'], assumed=True,
               notes='active-set loop of the bound-constrained linear problem: opaque here (its feasibility / optimality is a not-decided clause of C13); only what '
                     'trsbox_geometry does with its two results is under contract')
    D.contract('trsbox_geometry', tags=['C13'], params={'xbase': 'V', 'c': 'real', 'g': 'V', 'lower': 'V', 'upper': 'V', 'Delta': 'real'},
               requires=[], modifies=['G.smin', 'G.smax'], result='V',
               ghost_after_assign={'smin': [('G.smin', 'smin')], 'smax': [('G.smax', 'smax')]},
               ensures=[('the two candidates are the linear problem solved for g (minimise) and for -g (maximise) over the box shifted to xbase and the ball of radius Delta:: '
                         'G.smin == TRLIN(g, vsub(lower, xbase), vsub(upper, xbase), Delta) and G.smax == TRLIN(vscaler(-1.0, g), vsub(lower, xbase), vsub(upper, xbase), Delta)', 'C13'),
                        ('the point returned is xbase plus one of the two candidate steps:: result == vadd(xbase, G.smin) or result == vadd(xbase, G.smax)', 'C13'),
                        ('of the two candidates the one with the larger |c + g.s| is returned:: '
                         'implies(result == vadd(xbase, G.smin), abs(c + DOT(g, G.smin)) >= abs(c + DOT(g, G.smax))) and '
                         'implies(result == vadd(xbase, G.smax) and result != vadd(xbase, G.smin), abs(c + DOT(g, G.smax)) > abs(c + DOT(g, G.smin)))', 'C13')])
    # ------------------------------------------------------------------ model value and the zero-step substitution
    D.contract('model_value', tags=['C13'], params={'g': 'V', 'H': 'V', 's': 'V', 'xopt': 'V', 'h': 'opt:cb:h', 'scaling_changes': 'opt:V'},
               requires=[('(C13, C06) with a regulariser the model value is taken in the caller\'s variables: the scaling handed to model_value is the controller\'s scaling_changes (ghost G.sc), '
                          'so that h(x) - m(d) compares h at two points of the same coordinate system:: isnone(h) or scaling_changes == G.sc', 'C13', 'C06')],
               modifies=[], result='real',
               ensures=['A-def (the model value is a function of its arguments; h is deterministic, A-callback):: result == MVF(g, H, s, xopt)',
                        'a zero step has model value h(x) (0 without a regulariser):: implies(s == zerov, result == ite(isnone(h), 0.0, HU(RSV(xopt))))'])
    D.field_shapes[('Controller', 'h')] = 'opt:cb:h'
    D.field_shapes[('Controller', 'model')] = 'ref:Model'
    D.field_shapes[('Model', 'projections')] = 'plist'
    D.field_shapes[('Controller', 'delta')] = 'real'
    D.contract('Model.build_full_model', tags=['C13'], modifies=[], result=('V', 'V'), ensures=[], assumed=True, notes='(g, H) are opaque here; their assembly is proved in domain M')
    D.contract('Model.xopt', tags=['C13'], modifies=[], result='V', params={'abs_coordinates': 'bool'},
               ensures=['A-def (the model is not modified inside trust_region_step, so xopt is one value per coordinate system):: result == ite(abs_coordinates, XOPT_ABS(), XOPT_REL())'],
               assumed=True)
    D.field_shapes[('Controller', 'scaling_changes')] = 'opt:V'
    SCDEF = 'A-def (ghost G.sc: the scaling triple of the controller, an opaque value here):: self.scaling_changes == G.sc'
    D.contract('Controller.trust_region_step', tags=['C13'],
               requires=[SCDEF, 'self.delta > 0', 'parameters inside the range table (established by solve):: params("dykstra.max_iters") >= 1 and params("dykstra.d_tol") >= 0',
                         'A-params sub-range (func_tol.max_iters = 0 is accepted by the parameter check):: params("func_tol.max_iters") >= 1'],
               modifies=[], result=None,
               ensures=['lemma instance (model value of the zero step, through the contract of model_value):: '
                        'isnone(self.h) or model_value(result[1], result[2], zerov, XOPT_ABS(), self.h, (), G.sc) == HU(RSV(XOPT_ABS()))',
                        ('the regularised step handed to the main loop never has a negative predicted reduction (h(x) - m(d) >= 0; the zero step is substituted otherwise):: '
                         'isnone(self.h) or HU(RSV(XOPT_ABS())) - MVF(result[1], result[2], result[0], XOPT_ABS()) >= 0', 'C13', 'C06')])
    D.ghost_shapes.update({'obj0': 'real'})
    D.contract('Controller.calculate_ratio', tags=['C04', 'C06'], params={'x': 'V', 'd': 'V', 'gopt': 'V', 'H': 'V', 'current_iter': 'int'},
               requires=[SCDEF], modifies=['self.diffs', 'self.last_successful_iter', 'G.obj0'], result=None,
               ghost_before={'model_value#1': [('G.obj0', 'obj')]},
               asserts={'return': [('(C04 N-ratio, C06) the value the acceptance ratio compares with the incumbent is the objective OF THE TRIAL POINT: sum of squares of its mean residual plus '
                                    'h at x + d in the caller\'s variables (so ratio > 0 means the evaluated point improves on the incumbent):: '
                                    'isnone(self.h) or obj == G.obj0 + HU(RSV(vadd(x, d)))', 'C04', 'C06')]},
               ensures=[])
    D.contract('Controller.evaluate_criticality_measure', tags=['C08', 'C13'],
               requires=[SCDEF, 'parameters inside the range table (established by solve):: params("dykstra.max_iters") >= 1 and params("dykstra.d_tol") >= 0',
                         'A-params sub-range (func_tol.max_iters = 0 is accepted by the parameter check):: params("func_tol.max_iters") >= 1'],
               modifies=[], result=None, ensures=[],
               notes='under contract for its call-site obligations only: S-FISTA is entered with a finite gradient (and a zero Hessian) or not at all')
    # ------------------------------------------------------------------ ball_step (bound-constrained geometry step: the last move along the free direction)
    D.contract('ball_step', tags=['C13'], params={'x0': 'V', 'g': 'V', 'Delta': 'real'},
               requires=['Delta > 0', 'the starting point is inside the ball:: DOT(x0, x0) <= Delta * Delta',
                         'A-lib (Cauchy-Schwarz and positivity of the dot product):: DOT(g, g) >= 0 and DOT(x0, x0) >= 0 and DOT(g, x0) * DOT(g, x0) <= DOT(g, g) * DOT(x0, x0)'],
               modifies=[], result='real',
               ensures=['the step length is never negative:: result >= 0',
                        ('unless g is numerically zero (||g|| < 1e-14) the step reaches the trust-region boundary: ||x0 + alpha*g||^2 == Delta^2 (real arithmetic; this is what lets the '
                         'bound-constrained geometry step attain its maximum along the last free direction):: '
                         'implies(DOT(g, g) >= 1e-28, DOT(g, g) * result * result + 2 * DOT(g, x0) * result + DOT(x0, x0) == Delta * Delta)'),
                        'a numerically zero direction gives no step:: implies(DOT(g, g) < 1e-28, result == 0)'])
    D.verify_list = ['Controller.calculate_ratio', 'ball_step', 'model_value', 'Controller.trust_region_step', 'Controller.evaluate_criticality_measure', 'dykstra', 'pball', 'ctrsbox_pgd', 'ctrsbox_sfista', 'ctrsbox_linear', 'ctrsbox_geometry', 'trsbox_geometry']
    return D


def extra_obligations(repo, D, pid):
    """the tolerance and sweep cap that dykstra uses when a caller relies on its defaults (Model.xpt, Model.as_absolute_coordinates) are the documented ones:
    the signature defaults equal the documented defaults of dykstra.max_iters / dykstra.d_tol (contracts/param_table.json)"""
    import ast, json, os, z3
    from pyvc.core import Ob
    out = []
    doc = json.load(open(os.path.join(os.path.dirname(os.path.abspath(__file__)), 'param_table.json'))).get('defaults', {})
    fi = repo.func('dykstra')
    cur = {}
    if fi is not None:
        a = fi.node.args
        names = [x.arg for x in a.args]
        for nm, dv in zip(names[len(names) - len(a.defaults):], a.defaults):
            cur[nm] = dv
    for nm, key in (('max_iter', 'dykstra.max_iters'), ('tol', 'dykstra.d_tol')):
        ok = False
        try:
            ok = nm in cur and eval(ast.unparse(cur[nm]), {'__builtins__': {}}) == eval(doc[key], {'__builtins__': {}})
        except Exception:
            ok = False
        out.append(Ob('dykstra/frame[default of %s is the documented default of %s]' % (nm, key), 'frame', 'dykstra', ['C15', 'C09'], [], z3.BoolVal(bool(ok)), fi.span[0] if fi else 0,
                      'unsat', {'syntactic': True, 'why': 'now %s, documented %s' % (ast.unparse(cur[nm]) if nm in cur else None, doc.get(key))}))
    return out
