"""Sidecar contracts, domain J (JSON terms).  Serves C20: field-wise round trip from_dict(json(to_dict(o))).f == norm_f(o.f), exactly the 12 keys,
plain / strict JSON values, constructor call conformance.  str() equality follows from field-wise equality (__str__ reads only those fields)."""
import ast, z3
from pyvc.core import *
from pyvc.domains.jsonterm import JsonDomain, DictV, T, TNONE, TNAN, U, t_isnan, isfloatarr, isintarr, plain, strict, axioms, tt

FIELDS = ['x', 'resid', 'obj', 'jacobian', 'nf', 'nx', 'nruns', 'flag', 'msg', 'diagnostic_info', 'xmin_eval_num', 'jacmin_eval_nums']
KIND = {'x': 'farr', 'resid': 'farr', 'jacobian': 'farr', 'jacmin_eval_nums': 'iarr', 'obj': 'float', 'nf': 'int', 'nx': 'int', 'nruns': 'int',
        'flag': 'int', 'xmin_eval_num': 'int', 'msg': 'str', 'diagnostic_info': 'df'}


def ENC(f, v):
    """what to_dict must write for field f (before NaN replacement)"""
    k = KIND[f]
    if k in ('farr', 'iarr'):
        return z3.If(v == TNONE, TNONE, U['tolist'](v))
    if k == 'df':
        return z3.If(v == TNONE, TNONE, U['dfto'](v))
    return U[{'float': 'pyfloat', 'int': 'pyint', 'str': 'pystr'}[k]](v)


def DEC(f, t):
    """what from_dict must put into field f given the dict entry t"""
    k = KIND[f]
    if k == 'farr':
        return z3.If(t == TNONE, TNONE, U['arrf'](t))
    if k == 'iarr':
        return z3.If(t == TNONE, TNONE, U['arri'](t))
    if k == 'df':
        return z3.If(t == TNONE, TNONE, U['dffrom'](t))
    if k == 'float':
        return z3.If(t == TNONE, TNAN, t)           # "None mapped back to NaN"
    return t


def NORM(f, v):
    """the value the reloaded object must carry"""
    k = KIND[f]
    if k in ('farr', 'iarr', 'df'):
        return v
    if k == 'float':
        return z3.If(t_isnan(v), TNAN, U['pyfloat'](v))
    return U[{'int': 'pyint', 'str': 'pystr'}[k]](v)


def TYPE_INV(f, v):
    k = KIND[f]
    if k == 'farr':
        return z3.Or(v == TNONE, isfloatarr(v))
    if k == 'iarr':
        return z3.Or(v == TNONE, isintarr(v))
    if k == 'df':
        return z3.BoolVal(True)
    return v != TNONE


isdict = z3.Function('isdict', T, z3.BoolSort())
islist = z3.Function('islist', T, z3.BoolSort())
isfloat = z3.Function('isfloat', T, z3.BoolSort())
MAPRN = z3.Function('MAPRN', T, T)      # the container with replace_nan_with_none applied to every value (keys / order kept)


class Dom(JsonDomain):
    def __init__(self, repo):
        JsonDomain.__init__(self, repo)
        self.builtins['replace_nan_with_none'] = self.b_rn
        self.builtins['isinstance'] = self.b_isinstance
        self.builtins['math.isnan'] = lambda eng, n, a, k, st: t_isnan(tt(a[0])) if tt(a[0]) is not None else UNK

    def b_isinstance(self, eng, node, args, kw, st):
        t = tt(args[0]) if args else None
        ty = node.args[1].id if len(node.args) > 1 and isinstance(node.args[1], ast.Name) else None
        if t is None or ty not in ('dict', 'list', 'float'):
            return UNK
        return {'dict': isdict, 'list': islist, 'float': isfloat}[ty](t)

    def comprehension(self, eng, e, st):
        """{k: E(v) for (k, v) in d.items()}  /  [E(i) for i in d]:  the element expression is evaluated at a GENERIC element el of the container (any term) and must
        equal rn(el) — the function's own contract at the smaller argument (induction hypothesis, measure: term size); the comprehension is then the map MAPRN(d)."""
        try:
            g = e.generators[0]
            if len(e.generators) != 1 or g.ifs:
                return UNK
            if isinstance(e, ast.DictComp) and isinstance(g.target, ast.Tuple) and isinstance(g.iter, ast.Call) and \
                    isinstance(g.iter.func, ast.Attribute) and g.iter.func.attr == 'items' and not g.iter.args and \
                    all(isinstance(x, ast.Name) for x in g.target.elts) and len(g.target.elts) == 2:
                kv, vv = g.target.elts[0].id, g.target.elts[1].id
                if not (isinstance(e.key, ast.Name) and e.key.id == kv):
                    return UNK
                src, elt = eng.ev(g.iter.func.value, st), e.value
            elif isinstance(e, ast.ListComp) and isinstance(g.target, ast.Name):
                vv, src, elt = g.target.id, eng.ev(g.iter, st), e.elt
            else:
                return UNK
            t = tt(src)
            if t is None:
                return UNK
            el = z3.Const(fresh_name('el'), T)
            saved = st.env.get(vv, None)
            st.env[vv] = el
            st.assume(U['rn'](el) == z3.If(z3.Or(isdict(el), islist(el)), MAPRN(el), z3.If(z3.And(isfloat(el), t_isnan(el)), TNONE, el)))
            v = tt(eng.ev(elt, st))
            if saved is None:
                st.env.pop(vv, None)
            else:
                st.env[vv] = saved
            if v is None:
                return UNK
            eng.oblige(st, v == U['rn'](el), 'assert', 'every element of the container, nested containers included, is mapped by the function itself (generic element)',
                       ['C20'], e.lineno, site='comprehension@%d' % (1 if isinstance(e, ast.DictComp) else 2))
            return MAPRN(t)
        except Exception:
            pass
        return UNK

    def b_rn(self, eng, node, args, kw, st):
        d = args[0] if args else UNK
        if isinstance(d, DictV):
            # contract of util.replace_nan_with_none (proved on its real body below): rn applied to every value, keys kept
            return DictV({k: (U['rn'](v) if isz(v) else UNK) for k, v in d.items.items()})
        t = tt(d)
        return U['rn'](t) if t is not None else UNK

    def spec_call(self, eng, name, e, st):
        if name == 'RN_SPEC':
            d = tt(eng.ev(e.args[0], st))
            return z3.If(z3.Or(isdict(d), islist(d)), MAPRN(d), z3.If(z3.And(isfloat(d), t_isnan(d)), TNONE, d))
        if name in ('ENC', 'DEC', 'NORM', 'TYPE_INV'):
            f = e.args[0].value
            v = tt(eng.ev(e.args[1], st))
            if v is None:
                return UNK
            return {'ENC': ENC, 'DEC': DEC, 'NORM': NORM, 'TYPE_INV': TYPE_INV}[name](f, v)
        return JsonDomain.spec_call(self, eng, name, e, st)


def build(repo):
    D = Dom(repo)
    for f in FIELDS:
        D.field_shapes[('OptimResults', f)] = 'T'
    D.inline = {'OptimResults.__init__'}
    T20 = ['C20']
    inv = ['TYPE_INV("%s", self.%s)' % (f, f) for f in FIELDS]
    D.contract('OptimResults.to_dict', tags=T20, params={'replace_nan': 'bool'}, requires=inv, modifies=[],
               ensures=['to_dict writes exactly the 12 fields:: keys_are(result, %r)' % FIELDS] +
                       ['field %s is encoded as documented:: term(result["%s"]) == ite(replace_nan, rn(ENC("%s", self.%s)), ENC("%s", self.%s))' % (f, f, f, f, f, f) for f in FIELDS] +
                       ['every value is JSON-serialisable (strict JSON when NaN replacement is on):: ' +
                        ' and '.join('plain(result["%s"]) and implies(replace_nan, strict(result["%s"]))' % (f, f) for f in FIELDS if f != 'diagnostic_info'),
                        'the diagnostic table is JSON-serialisable too:: plain(result["diagnostic_info"])'],
               result=None)

    def setup_from(eng, st):
        st.env['soln_dict'] = DictV({f: z3.Const(fresh_name('d_' + f), T) for f in FIELDS})
    D.contract('OptimResults.from_dict', tags=T20, setup=setup_from, requires=[], modifies=[], result=None,
               ensures=['field %s is decoded as documented:: term(result.%s) == DEC("%s", soln_dict["%s"])' % (f, f, f, f) for f in FIELDS])
    D.contract('replace_nan_with_none', tags=T20, params={'d': 'T'}, requires=[], modifies=[], result=None,
               ensures=['dict / list: the function mapped over the values (keys and order kept); NaN float: None; anything else unchanged:: term(result) == RN_SPEC(d)'],
               notes='structural induction: the recursive calls inside the comprehensions are the induction hypothesis (measure: term size)')
    D.verify_list = ['OptimResults.to_dict', 'OptimResults.from_dict', 'replace_nan_with_none']
    return D


def extra_obligations(repo, D, pid):
    """round-trip lemmas over the two contracts: for every field f and both settings of replace_nan,
       DEC_f(json(ENCODED_f(v))) == NORM_f(v)   (json is the identity on plain terms)"""
    out = []
    ax = axioms()
    for f in FIELDS:
        v = z3.Const('v_' + f, T)
        for rn_on in (True, False):
            enc = U['rn'](ENC(f, v)) if rn_on else ENC(f, v)
            goal = DEC(f, enc) == NORM(f, v)
            if KIND[f] == 'float' and not rn_on:
                # without NaN replacement a NaN objective travels as the (non-strict) JSON literal NaN: pyfloat(v) with isnan(v)
                goal = z3.Implies(z3.Not(t_isnan(v)), goal)
            out.append(Ob('round-trip/lemma[%s, replace_nan=%s]' % (f, rn_on), 'lemma', 'OptimResults.from_dict∘to_dict', ['C20'],
                          ax + [TYPE_INV(f, v)], goal, 0, 'unsat', {}))
    # call conformance of the constructor call in from_dict and the set of fields __init__ assigns
    fi = repo.func('OptimResults.__init__')
    ok = fi is not None
    why = ''
    if fi is not None:
        names = [a.arg for a in fi.node.args.args][1:]
        assigned = {}
        for s in fi.node.body:
            if isinstance(s, ast.Assign) and isinstance(s.targets[0], ast.Attribute) and isinstance(s.value, ast.Name):
                assigned[s.targets[0].attr] = s.value.id
        want = {'x': 'xmin', 'resid': 'rmin', 'obj': 'objmin', 'jacobian': 'jacmin', 'nf': 'nf', 'nx': 'nx', 'nruns': 'nruns', 'flag': 'exit_flag',
                'msg': 'exit_msg', 'xmin_eval_num': 'xmin_eval_num', 'jacmin_eval_nums': 'jacmin_eval_nums'}
        bad = {k: (assigned.get(k), w) for k, w in want.items() if assigned.get(k) != w}
        ok, why = not bad, str(bad)
    out.append(Ob('OptimResults.__init__/ensures[each field is bound to its own parameter]', 'frame', 'OptimResults.__init__', ['C20', 'C07'], [],
                  z3.BoolVal(ok), 0, 'unsat', {'syntactic': True, 'why': why}))
    return out
