"""Sidecar contract, domain S.  Serves C20 / C07 "printing works": OptimResults.__str__ raises on no result object that solve can produce.

Precondition (the shape of a result): flag is an int; for any result other than the input-error one x, resid, obj, nf, nx, nruns, xmin_eval_num and msg are present;
jacobian, jacmin_eval_nums and diagnostic_info may each be None independently (early termination without a Jacobian, a failed first interpolation that leaves a zero Jacobian
without evaluation numbers, diagnostics off).  Obligations: one per statement that can raise (len / numeric format on a possibly-None field, truth value of an array or table)."""
from pyvc.domains.strtot import StrTotDomain

FIELDS = ['x', 'resid', 'obj', 'jacobian', 'nf', 'nx', 'nruns', 'flag', 'msg', 'diagnostic_info', 'xmin_eval_num', 'jacmin_eval_nums']


def build(repo):
    D = StrTotDomain(repo)
    D.ghost_shapes = {}
    for f in FIELDS:
        D.field_shapes[('OptimResults', f)] = 'field:' + f
    present = ' and '.join('not isnone(self.%s)' % f for f in ('x', 'resid', 'obj', 'nf', 'nx', 'nruns', 'xmin_eval_num'))
    D.contract('OptimResults.__str__', tags=['C20', 'C07'],
               requires=['shape of a result that carries a solution:: implies(self.flag != self.EXIT_INPUT_ERROR, %s)' % present, 'not isnone(self.msg)'],
               modifies=[], result=None, ensures=[])
    D.verify_list = ['OptimResults.__str__']
    return D
