"""Sidecar contracts, domain L (Int evaluation ledger).  Serves C02, C04 (pending flag), C08 (i), C10 (c, d, e).

Ghost ledger G:  calls  = number of objfun invocations so far        pts     = number of evaluation points so far
                 maxfun = the budget                                  pending = an evaluated point has not yet been
                 nanflag = the latest evaluation returned a NaN                 offered to change_point/add_new_point/save_point
                 restarts = number of (soft + hard) restarts performed
"""
from pyvc.domains.ledger import LedgerDomain

MAXFUN_MSG = "Objective has been called MAXFUN times"
MAXRESTART_MSG = "Reached maximum number of unsuccessful restarts"
SMALL_MSG = "Objective is sufficiently small"

LEDGER_MODS = ['self.nf', 'self.nx', 'G.calls', 'G.pts', 'G.pending', 'G.nanflag']


def build(repo):
    D = LedgerDomain(repo)
    D.predicate('INV_ledger', ['c'],
                'G.calls == c.nf and G.pts == c.nx and 0 <= c.nx and c.nx <= c.nf and c.nf <= c.maxfun and c.maxfun == G.maxfun '
                'and c.last_successful_run >= 0')
    D.predicate('flag_ok', ['e'], 'e.flag >= EXIT_EVAL_ERROR and e.flag <= EXIT_TR_INCREASE_WARNING and e.flag != EXIT_INPUT_ERROR')
    D.predicate('exit_ok', ['e'],
                'isnone(e) or e.flag == EXIT_MAXFUN_WARNING or e.flag == EXIT_SUCCESS or e.flag == EXIT_LINALG_ERROR')

    # ---------------------------------------------------------------- the one caller of objfun
    D.contract('eval_least_squares_with_regularisation', tags=['C02', 'C08'],
               params={'objfun': 'cb:objfun', 'h': 'opt:cb:h', 'eval_num': 'int', 'pt_num': 'int'},
               requires=['numbering:: eval_num == G.calls + 1',
                         'budget:: eval_num <= G.maxfun',
                         'point numbering:: pt_num == G.pts or pt_num == G.pts + 1'],
               modifies=['G.calls', 'G.pts'], result=('unk', 'unk'),
               ghost_return=[('G.pts', 'pt_num')],
               ensures=['exactly one call:: G.calls == old(G.calls) + 1', 'G.pts == pt_num'])

    # ---------------------------------------------------------------- Controller.evaluate_objective
    D.contract('Controller.evaluate_objective', tags=['C02', 'C04', 'C08', 'C10'],
               params={'number_of_samples': 'int'},
               requires=['INV_ledger(self)', 'number_of_samples >= 1', 'not G.pending'],
               modifies=LEDGER_MODS, result=('evalvals', 'unk', 'int', 'optexit'),
               ghost_return=[('G.pending', 'result[2] > 0'), ('G.nanflag', None)],
               loops={0: ['!nodefault:: True',
                          'num_samples_run == i_',
                          'self.nf == old(self.nf) + i_',
                          'INV_ledger(self)',
                          'self.nx == old(self.nx) + (1 if i_ > 0 else 0)',
                          'aux incremented_nx:: incremented_nx == (i_ > 0)',
                          'isnone(exit_info)']},
               ensures=['samples:: result[2] == min(number_of_samples, max(0, old(self.maxfun) - old(self.nf)))',
                        'nf:: self.nf == old(self.nf) + result[2]',
                        'nx:: self.nx == old(self.nx) + (1 if result[2] > 0 else 0)',
                        'INV_ledger(self)',
                        'pending:: G.pending == (result[2] > 0)',
                        'no exit => all samples:: implies(isnone(result[3]), result[2] == number_of_samples)',
                        'exit flags:: implies(not isnone(result[3]), result[3].flag == EXIT_MAXFUN_WARNING or result[3].flag == EXIT_SUCCESS)',
                        'MAXFUN => nf == maxfun:: implies(not isnone(result[3]) and result[3].flag == EXIT_MAXFUN_WARNING, self.nf == self.maxfun)',
                        'SUCCESS => small msg:: implies(not isnone(result[3]) and result[3].flag == EXIT_SUCCESS, result[3].msg == "%s" and result[2] > 0)' % SMALL_MSG,
                        'zero samples => exit:: implies(result[2] == 0, not isnone(result[3]))',
                        'exit messages:: implies(not isnone(result[3]), result[3].msg == "%s" or result[3].msg == "%s")' % (SMALL_MSG, MAXFUN_MSG),
                        'self.last_successful_run == old(self.last_successful_run)'])

    # ---------------------------------------------------------------- consumers of an evaluated point (ghost-defining)
    for q in ('Model.change_point', 'Model.add_new_point', 'Model.save_point'):
        D.contract(q, tags=['C04'], modifies=['G.pending'], ghost_return=[('G.pending', 'False')],
                   ensures=['not G.pending'], assumed=True,
                   notes='definition of the ghost flag: these three Model methods are the consumers of an evaluated point; '
                         'that each of them keeps the best-so-far invariant is proved in domain M')

    # ---------------------------------------------------------------- Controller.__init__
    D.contract('Controller.__init__', tags=['C02'], params={'nf': 'int', 'nx': 'int', 'maxfun': 'int'},
               modifies=['self.*'],
               ensures=['self.nf == nf', 'self.nx == nx', 'self.maxfun == maxfun', 'self.last_successful_run == 0'])

    # ---------------------------------------------------------------- Controller methods that may evaluate
    common_req = ['INV_ledger(self)', 'not G.pending']
    common_ens = ['INV_ledger(self)', 'no point left pending:: not G.pending',
                  'exit flag is a run-time flag:: implies(not isnone($E), flag_ok($E))',
                  'not the max-restarts message:: implies(not isnone($E), $E.msg != "%s") or %s' % (MAXRESTART_MSG, '$SOFT'),
                  'self.nf >= old(self.nf)', 'self.nx >= old(self.nx)',
                  'MAXFUN => nf == maxfun:: implies(not isnone($E) and $E.flag == EXIT_MAXFUN_WARNING, self.nf == self.maxfun)']
    common_inv = ['INV_ledger(self)', 'no point left pending:: not G.pending', 'self.nf >= old(self.nf)', 'self.nx >= old(self.nx)']

    def method(q, res, exit_expr, extra_ens=(), extra_req=(), extra_mod=(), params=None, **kw):
        D.contract(q, tags=['C02', 'C04', 'C08', 'C10'], params=dict({'number_of_samples': 'int'}, **(params or {})),
                   requires=common_req + ['number_of_samples >= 1'] + list(extra_req),
                   modifies=LEDGER_MODS + list(extra_mod), result=res,
                   ensures=[c.replace('$E', exit_expr).replace('$SOFT', 'True' if q.endswith('soft_restart') else 'False') for c in common_ens] + list(extra_ens),
                   ledger_inv=common_inv, **kw)

    method('Controller.geometry_step', 'optexit', 'result')
    method('Controller.check_and_fix_geometry', ('bool', 'optexit'), 'result[1]')
    method('Controller.add_new_direction_while_growing', 'optexit', 'result')
    method('Controller.initialise_coordinate_directions', 'optexit', 'result',
           extra_req=['parallel coordinate initialisation is rejected by solve (O8: expected dead):: not params("init.run_in_parallel")'],
           dead=['return#3'])
    method('Controller.initialise_random_directions', 'optexit', 'result',
           extra_req=[('batched (parallel) initialisation is outside the ledger contract (D6/D23):: not params("init.run_in_parallel")', 'C03', 'C04')],
           dead=['return#1'])
    method('Controller.move_furthest_points', 'optexit', 'result')
    method('Controller.move_furthest_points_momentum', 'optexit', 'result')
    method('Controller.soft_restart', 'optexit', 'result', params={'nruns_so_far': 'int'},
           extra_req=['nruns_so_far >= 0'],
           extra_mod=['G.restarts', 'self.last_successful_run'],
           ghost_return=[('G.restarts', 'G.restarts + (1 if isnone(result) else 0)')],
           extra_ens=['restart counted:: G.restarts == old(G.restarts) + (1 if isnone(result) else 0)',
                      ('max restarts msg => that many runs:: implies(not isnone(result) and result.msg == "%s", '
                       'nruns_so_far >= params("restarts.max_unsuccessful_restarts"))' % MAXRESTART_MSG, 'C10'),
                      ('restart => budget left:: implies(isnone(result), old(self.nf) < self.maxfun)', 'C02')])

    # choose_point_to_replace / calculate_ratio: no ledger effect, but they return an optional exit
    D.contract('Controller.choose_point_to_replace', tags=['C10'], modifies=[], result=('unk', 'optexit'), assumed=False,
               ensures=['implies(not isnone(result[1]), result[1].flag == EXIT_LINALG_ERROR)'])
    D.contract('Controller.calculate_ratio', tags=['C10'], modifies=['self.diffs', 'self.last_successful_iter'], result=('unk', 'optexit'),
               ensures=['implies(not isnone(result[1]), result[1].flag == EXIT_TR_INCREASE_WARNING or result[1].flag == EXIT_TR_INCREASE_ERROR)'])

    # ---------------------------------------------------------------- solve_main
    D.contract('solve_main', tags=['C02', 'C04', 'C08', 'C10'],
               params={'maxfun': 'int', 'nruns_so_far': 'int', 'nf_so_far': 'int', 'nx_so_far': 'int', 'npt': 'int',
                       'r0_avg_old': 'opt:unk', 'objfun': 'cb:objfun', 'nsamples': 'cb:nsamples', 'h': 'opt:cb:h'},
               requires=['G.calls == nf_so_far', 'G.pts == nx_so_far', '0 <= nx_so_far', 'nx_so_far <= nf_so_far',
                         'nf_so_far <= maxfun', 'maxfun == G.maxfun', 'not G.pending', 'nruns_so_far >= 0',
                         'fresh evaluation needs budget:: implies(isnone(r0_avg_old), nf_so_far < maxfun)',
                         'implies(params("init.run_in_parallel"), params("init.random_initial_directions"))'],
               modifies=['G.calls', 'G.pts', 'G.pending', 'G.nanflag', 'G.restarts',
                         'params[growing.full_rank.use_full_rank_interp]', 'params[growing.perturb_trust_region_step]',
                         'params[growing.delta_scale_new_dirns]'],
               result=('unk', 'unk', 'unk', 'unk', 'unk', 'int', 'int', 'int', 'exit', 'unk', 'unk', 'unk'),
               ledger_inv=['INV_ledger(control)', 'no point left pending:: not G.pending',
                           'run accounting:: nruns_so_far == old(nruns_so_far) + G.restarts - old(G.restarts)',
                           'control.maxfun == maxfun', 'nruns_so_far >= 0', 'G.calls >= old(G.calls)',
                           'G.restarts >= old(G.restarts)'],
               loops={0: ['!nodefault:: True',
                          'nf == nf_so_far + i_', 'num_samples_run == i_', 'G.calls == nf', 'nf <= maxfun',
                          'nx == nx_so_far + 1', 'G.pts == nx', 'isnone(exit_info)',
                          'nruns_so_far == old(nruns_so_far)', 'G.restarts == old(G.restarts)', 'not G.pending']},
               asserts={'break@loop1': [
                   ('trial point offered or NaN:: not G.pending or G.nanflag', 'C04', 'C08'),
                   ('run accounting:: nruns_so_far == old(nruns_so_far) + G.restarts - old(G.restarts) + 1', 'C10'),
                   ('exit reason set:: not isnone(exit_info)', 'C07', 'C10'),
                   ('exit flag is a run-time flag:: flag_ok(exit_info)', 'C07', 'C10'),
                   ('MAXFUN => nf == maxfun:: implies(exit_info.flag == EXIT_MAXFUN_WARNING, control.nf == control.maxfun)', 'C10'),
               ]},
               ghost_return=[('G.pending', 'False')],
               ensures=['nf returned == calls made:: result[5] == G.calls',
                        'nx returned == points:: result[6] == G.pts',
                        'budget:: G.calls <= maxfun',
                        '0 <= result[6] and result[6] <= result[5]',
                        'calls only grow:: G.calls >= old(G.calls)',
                        'run accounting:: result[7] == old(nruns_so_far) + G.restarts - old(G.restarts) + 1',
                        'not G.pending', 'result[7] >= old(nruns_so_far) + 1', 'G.restarts >= old(G.restarts)',
                        ('exit flag is a run-time flag:: flag_ok(result[8])', 'C07', 'C10'),
                        ('MAXFUN => nf == maxfun:: implies(result[8].flag == EXIT_MAXFUN_WARNING, result[5] == maxfun)', 'C10')])

    # ---------------------------------------------------------------- solve (hard-restart loop)
    D.contract('solve', tags=['C02', 'C04', 'C08', 'C10'],
               params={'maxfun': 'opt:int', 'npt': 'opt:int', 'objfun': 'cb:objfun', 'nsamples': 'opt:cb:nsamples', 'h': 'opt:cb:h',
                       'x0': 'unk'},
               requires=['G.calls == 0', 'G.pts == 0', 'not G.pending', 'G.restarts == 0'],
               ghost_before={'solve_main#1': [('G.maxfun', 'maxfun')],
                             'solve_main#2': [('G.restarts', 'G.restarts + 1')],
                             'solve_main#3': [('G.restarts', 'G.restarts + 1')]},
               asserts={'before:solve_main#1': [('budget is the caller\'s:: implies(not isnone(old(maxfun)), maxfun == old(maxfun))', 'C02')]},
               loops={1: ['!nodefault:: True', 'nf == G.calls', 'nx == G.pts', '0 <= nx', 'nx <= nf', 'nf <= maxfun',
                          'maxfun == G.maxfun', 'not G.pending', 'nruns == G.restarts + 1', 'last_successful_run >= 0',
                          'last_successful_run <= nruns', 'flag_ok(exit_info)',
                          ('MAXFUN => nf == maxfun:: implies(exit_info.flag == EXIT_MAXFUN_WARNING, nf == maxfun)', 'C10')]},
               modifies=['G.*', 'params[*]'], result='unk',
               msg_asserts={MAXRESTART_MSG: [('that many runs were performed:: nruns >= params("restarts.max_unsuccessful_restarts")', 'C10')]},
               ensures=[('soln.nf == calls made:: implies(result.flag != EXIT_INPUT_ERROR, result.nf == G.calls)', 'C02'),
                        ('calls <= maxfun:: implies(result.flag != EXIT_INPUT_ERROR, G.calls <= G.maxfun)', 'C02', 'C08'),
                        ('soln.nx == last point number:: implies(result.flag != EXIT_INPUT_ERROR, result.nx == G.pts)', 'C02'),
                        ('soln.nruns == restarts + 1:: implies(result.flag != EXIT_INPUT_ERROR, result.nruns == G.restarts + 1)', 'C10'),
                        ('input error => nothing evaluated:: implies(result.flag == EXIT_INPUT_ERROR, G.calls == 0 and result.nf == 0)', 'C07'),
                        ('MAXFUN => nf == maxfun:: implies(result.flag == EXIT_MAXFUN_WARNING, result.nf == G.maxfun)', 'C10')])
    D.verify_list = ['eval_least_squares_with_regularisation', 'Controller.evaluate_objective', 'Controller.__init__',
                     'Controller.geometry_step', 'Controller.check_and_fix_geometry', 'Controller.add_new_direction_while_growing',
                     'Controller.initialise_coordinate_directions', 'Controller.initialise_random_directions',
                     'Controller.move_furthest_points', 'Controller.move_furthest_points_momentum', 'Controller.soft_restart',
                     'Controller.choose_point_to_replace', 'Controller.calculate_ratio', 'solve_main', 'solve']
    return D
