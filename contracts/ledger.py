"""Sidecar contracts, domain L (Int evaluation ledger).  Serves C02, C04 (pending flag), C08 (i), C10 (c, d, e).

Ghost ledger G:  calls  = number of objfun invocations so far        pts     = number of evaluation points so far
                 maxfun = the budget                                  pending = an evaluated point has not yet been
                 nanflag = the latest evaluation returned a NaN                 offered to change_point/add_new_point/save_point
                 restarts = number of (soft + hard) restarts performed
"""
from pyvc.domains.ledger import LedgerDomain

MAXFUN_MSG = "Objective has been called MAXFUN times"
MAXRESTART_MSG = "Reached maximum number of unsuccessful restarts"
SMALL_MSG = "Objective is sufficiently small"

LEDGER_MODS = ['self.nf', 'self.nx', 'G.calls', 'G.pts', 'G.pending', 'G.nanflag', 'G.lastx', 'G.lastvals', 'G.lastk', 'G.offered', 'G.better', 'G.savedver', 'G.reeval']
MODEL_GHOSTS = ['G.mver', 'G.gen', 'G.lastslot', 'G.nptver']


def build(repo):
    D = LedgerDomain(repo)
    D.predicate('INV_ledger', ['c'],
                'G.calls == c.nf and G.pts == c.nx and 0 <= c.nx and c.nx <= c.nf and c.nf <= c.maxfun and c.maxfun == G.maxfun '
                'and c.last_successful_run >= 0')
    D.predicate('flag_ok', ['e'], 'e.flag >= EXIT_EVAL_ERROR and e.flag <= EXIT_TR_INCREASE_WARNING and e.flag != EXIT_INPUT_ERROR')
    D.predicate('exit_ok', ['e'],
                'isnone(e) or e.flag == EXIT_MAXFUN_WARNING or e.flag == EXIT_SUCCESS or e.flag == EXIT_LINALG_ERROR')

    # ---------------------------------------------------------------- the one caller of objfun
    D.contract('eval_least_squares_with_regularisation', tags=['C02', 'C08'],
               params={'objfun': 'cb:objfun', 'h': 'opt:cb:h', 'eval_num': 'int', 'pt_num': 'int'},
               requires=['numbering:: eval_num == G.calls + 1',
                         'budget:: eval_num <= G.maxfun',
                         'point numbering:: pt_num == G.pts or pt_num == G.pts + 1'],
               modifies=['G.calls', 'G.pts'], result=('unk', 'unk'),
               ghost_return=[('G.pts', 'pt_num')],
               ensures=['exactly one call:: G.calls == old(G.calls) + 1', 'G.pts == pt_num'])

    # ---------------------------------------------------------------- Controller.evaluate_objective
    D.contract('Controller.evaluate_objective', tags=['C02', 'C04', 'C08', 'C10'],
               params={'number_of_samples': 'int', 'x': 'val'},
               requires=['INV_ledger(self)', 'number_of_samples >= 1', 'not G.pending'],
               modifies=LEDGER_MODS, result=('evalvals', 'unk', 'int', 'optexit'),
               ghost_return=[('G.pending', 'result[2] > 0'), ('G.nanflag', None), ('G.lastx', 'x'), ('G.lastvals', 'result[0]'),
                             ('G.lastk', 'result[2]'), ('G.offered', '0'), ('G.better', 'False'), ('G.savedver', 'G.savedver'), ('G.reeval', 'G.reeval')],
               loops={'for:i#0': ['!nodefault:: True',
                          'num_samples_run == i_',
                          'self.nf == old(self.nf) + i_',
                          'INV_ledger(self)',
                          'self.nx == old(self.nx) + (1 if i_ > 0 else 0)',
                          'aux incremented_nx:: incremented_nx == (i_ > 0)',
                          'isnone(exit_info)']},
               ensures=['samples:: result[2] == min(number_of_samples, max(0, old(self.maxfun) - old(self.nf)))',
                        'nf:: self.nf == old(self.nf) + result[2]',
                        'nx:: self.nx == old(self.nx) + (1 if result[2] > 0 else 0)',
                        'INV_ledger(self)',
                        'pending:: G.pending == (result[2] > 0)',
                        ('a fresh evaluation is not yet an accepted improvement:: not G.better and G.savedver == old(G.savedver) and G.reeval == old(G.reeval)', 'C04'),
                        ('latest evaluation recorded:: G.lastx == x and G.lastvals == result[0] and G.lastk == result[2] and G.offered == 0', 'C03'),
                        'no exit => all samples:: implies(isnone(result[3]), result[2] == number_of_samples)',
                        'exit flags:: implies(not isnone(result[3]), result[3].flag == EXIT_MAXFUN_WARNING or result[3].flag == EXIT_SUCCESS)',
                        'MAXFUN => nf == maxfun:: implies(not isnone(result[3]) and result[3].flag == EXIT_MAXFUN_WARNING, self.nf == self.maxfun)',
                        'SUCCESS => small msg:: implies(not isnone(result[3]) and result[3].flag == EXIT_SUCCESS, result[3].msg == "%s" and result[2] > 0)' % SMALL_MSG,
                        ('(C10 a) SUCCESS is only raised when the objective of this very evaluation - sum of squares of the mean of the completed samples, plus h at the '
                         'evaluated point - passed the small-objective test:: implies(not isnone(result[3]) and result[3].flag == EXIT_SUCCESS, '
                         'LEQ(ite(isnone(self.h), SUMSQ(MEANV(result[0], result[2])), ADDV(SUMSQ(MEANV(result[0], result[2])), HVAL(RS(x)))), MINOBJ(G.mver)))', 'C10', 'C06'),
                        'zero samples => exit:: implies(result[2] == 0, not isnone(result[3]))',
                        'exit messages:: implies(not isnone(result[3]), result[3].msg == "%s" or result[3].msg == "%s")' % (SMALL_MSG, MAXFUN_MSG),
                        'self.last_successful_run == old(self.last_successful_run)'])

    # ---------------------------------------------------------------- consumers of an evaluated point (ghost-defining)
    CONS_NOTE = ('ghost-defining contract: these Model methods are the consumers of an evaluated point; what they do with the data '
                 '(record integrity, best-so-far) is proved on their real bodies in domain M; here the *call sites* must hand over one whole ledger entry')
    T3 = ('C03', 'C11', 'C17')
    D.contract('Model.change_point', tags=['C04', 'C03'], params={'k': 'int', 'x': 'val', 'rvec': 'val', 'eval_num': 'int', 'allow_kopt_update': 'bool'},
               requires=[('an evaluated point is pending:: G.pending', 'C03'),
                         ('(C04) every stored point may become the incumbent: no caller switches the incumbent update off (the class invariant "kopt designates the smallest stored '
                          'objective" of bundle model is kept only with allow_kopt_update):: allow_kopt_update', 'C04'),
                         ('point is the one just evaluated (step + base == evaluated x):: ABS(G.gen, x) == G.lastx',) + T3,
                         ('residual is its first sample:: rvec == ROW(G.lastvals, 0)',) + T3,
                         ('evaluation number is its point number:: eval_num == G.pts',) + T3,
                         ('(C04 ii) the incumbent record is overwritten only by an accepted improvement (ratio > 0), after it was offered to the saved-point slot, or by the re-evaluation of '
                          'its own point (A-N1\': check_and_fix_geometry picked the incumbent itself; a deterministic objective returns the same value); '
                          'any other replacement targets a new slot or a slot other than kopt:: '
                          'k >= NPT(G.nptver) or k != KOPT(G.mver) or G.better or G.savedver == G.mver or G.reeval', 'C04', 'C08')],
               modifies=['G.pending', 'G.offered', 'G.mver', 'G.lastslot', 'G.nptver'],
               ghost_return=[('G.pending', 'False'), ('G.offered', '1'), ('G.mver', 'G.mver + 1'), ('G.lastslot', 'k'), ('G.nptver', 'G.nptver + 1')],
               ensures=['not G.pending', 'G.offered == 1', 'G.mver == old(G.mver) + 1', 'G.lastslot == k', 'G.nptver == old(G.nptver) + 1',
                        'A-M (growing counter + the assert "Growing: updating wrong point", proved in bundle model): npt() grows by at most the new slot:: '
                        'NPT(G.nptver) <= max(old(NPT(G.nptver)), k + 1)',
                        'A-M (same facts, lower side; num_pts is not changed by change_point):: NUMPTS(G.nptver) == old(NUMPTS(G.nptver)) and NPT(G.nptver) >= old(NPT(G.nptver)) and '
                        'NPT(G.nptver) >= min(NUMPTS(G.nptver), k + 1)'], assumed=True, notes=CONS_NOTE)
    D.contract('Model.add_new_point', tags=['C04', 'C03'], params={'x': 'val', 'rvec': 'val', 'eval_num': 'int'},
               requires=[('an evaluated point is pending:: G.pending', 'C03'),
                         ('point is the one just evaluated (step + base == evaluated x):: ABS(G.gen, x) == G.lastx',) + T3,
                         ('residual is its first sample:: rvec == ROW(G.lastvals, 0)',) + T3,
                         ('evaluation number is its point number:: eval_num == G.pts',) + T3],
               modifies=['G.pending', 'G.offered', 'G.mver', 'G.lastslot', 'G.nptver'],
               ghost_return=[('G.pending', 'False'), ('G.offered', '1'), ('G.mver', 'G.mver + 1'), ('G.nptver', 'G.nptver + 1'), ('G.lastslot', 'NPT(G.nptver) - 1')],
               ensures=['not G.pending', 'G.offered == 1', 'G.mver == old(G.mver) + 1', 'G.nptver == old(G.nptver) + 1', 'G.lastslot == NPT(G.nptver) - 1',
                        'A-M (proved on the real Model.add_new_point in bundle model: num_pts and npt_so_far both grow by one):: NPT(G.nptver) == old(NPT(G.nptver)) + 1 and '
                        'NUMPTS(G.nptver) == old(NUMPTS(G.nptver)) + 1'], assumed=True, notes=CONS_NOTE)
    D.contract('Model.add_new_sample', tags=['C03', 'C02', 'C17'], params={'k': 'int', 'rvec_extra': 'val'},
               requires=[('sample belongs to the point just stored:: k == G.lastslot', 'C03', 'C17'),
                         ('samples are offered in order, each once:: G.offered >= 1 and G.offered < G.lastk and rvec_extra == ROW(G.lastvals, G.offered)', 'C03', 'C17', 'C02')],
               modifies=['G.offered', 'G.mver'],
               ghost_return=[('G.offered', 'G.offered + 1'), ('G.mver', 'G.mver + 1'), ('G.lastslot', 'G.lastslot')],
               ensures=['G.offered == old(G.offered) + 1', 'G.mver == old(G.mver) + 1'], assumed=True, notes=CONS_NOTE)
    D.contract('Model.save_point', tags=['C04', 'C03'],
               params={'x': 'val', 'rvec': 'val', 'nsamples': 'int', 'eval_num': 'int', 'x_in_abs_coords': 'bool'},
               requires=[('saved entry is one whole ledger entry (the pending evaluation, averaged over all its samples, or the incumbent record):: '
                          '(G.pending and x_in_abs_coords and x == G.lastx and rvec == MEANV(G.lastvals, nsamples) and nsamples == G.lastk and eval_num == G.pts) or '
                          '(x_in_abs_coords and x == REC_X(G.mver) and rvec == REC_R(G.mver) and nsamples == REC_NS(G.mver) and eval_num == REC_EN(G.mver))',) + T3],
               modifies=['G.pending', 'G.offered', 'G.savedver'],
               ghost_return=[('G.pending', 'False'), ('G.offered', 'G.lastk'),
                             ('G.savedver', 'ite(x == REC_X(G.mver) and rvec == REC_R(G.mver) and nsamples == REC_NS(G.mver) and eval_num == REC_EN(G.mver), G.mver, G.savedver)')],
               ensures=['not G.pending', 'G.offered == G.lastk',
                        'offering the incumbent record marks this model version as saved:: G.savedver == ite(x == REC_X(G.mver) and rvec == REC_R(G.mver) and '
                        'nsamples == REC_NS(G.mver) and eval_num == REC_EN(G.mver), G.mver, old(G.savedver))'], assumed=True, notes=CONS_NOTE)
    D.contract('Model.get_final_results', tags=['C03', 'C11'], modifies=['G.ent', 'G.entjac'],
               result=('val', 'val', 'val', 'opt:val', 'int', 'int', 'opt:val'), assumed=True,
               ensures=['result[0] == EX(G.ent) and result[1] == ER(G.ent) and result[2] == EO(G.ent) and result[4] == ENS(G.ent) and result[5] == EEN(G.ent)',
                        'isnone(result[3]) or (result[3] == EJ(G.entjac) and result[6] == EJN(G.entjac))'],
               notes='proved on the real body in domain M: the seven values are one whole record (incumbent or saved slot) with its own Jacobian pair')
    # diagnostic table: call order (the methods themselves are proved in the table bundle)
    D.contract('DiagnosticInfo.__init__', tags=['C18'], modifies=['self.*', 'G.rows'], ensures=['G.rows == 0'], assumed=True,
               notes='proved in the table bundle: a new table has the documented columns, all empty')
    D.contract('DiagnosticInfo.save_info_from_control', tags=['C18'], modifies=['G.rows'], requires=['G.rows >= 0'],
               ensures=['G.rows == old(G.rows) + 1'], assumed=True, notes='proved in the table bundle: exactly one row is added to every column')
    for q in ('update_interpolation_information', 'update_ratio', 'update_iter_type', 'update_slow_iter'):
        D.contract('DiagnosticInfo.' + q, tags=['C18'], modifies=[],
                   requires=[('a row exists (save_info_from_control ran earlier on every path to this call):: G.rows >= 1', 'C18')], ensures=[], assumed=True,
                   notes='proved in the table bundle: writes the last row only')
    # random-direction sources (C19 b): only the call sites matter here
    for q in ('random_directions_within_bounds', 'random_orthog_directions_within_bounds'):
        D.contract(q, tags=['C19'], modifies=[], result='unk', ensures=[], assumed=True,
                   notes='source of pseudo-random directions (np.random); what it returns is decided under C14, here only WHERE it is called')
    D.contract('Controller.get_new_direction_for_growing', tags=['C19'], modifies=[], result='unk', ensures=[], assumed=True,
               notes='calls random_directions_within_bounds; only its call site matters here')
    D.contract('Model.shift_base', tags=['C03'], modifies=['G.gen'], ghost_return=[('G.gen', 'G.gen + 1')],
               ensures=['G.gen == old(G.gen) + 1'], assumed=True,
               notes='ghost-defining: a base shift starts a new base generation (absolute points are unchanged: proved in domain M)')

    # ---------------------------------------------------------------- Controller.__init__
    D.contract('Controller.__init__', tags=['C02'], params={'nf': 'int', 'nx': 'int', 'maxfun': 'int', 'npt': 'int'},
               modifies=['self.*', 'G.mver', 'G.gen', 'G.lastslot', 'G.proj', 'G.nptver'],
               ghost_return=[('G.mver', None), ('G.gen', None), ('G.lastslot', None), ('G.proj', None), ('G.nptver', None)],
               ensures=['self.nf == nf', 'self.nx == nx', 'self.maxfun == maxfun', 'self.last_successful_run == 0',
                        'A-M (Model.__init__, proved in bundle model: a new model holds the single record x0, which is the incumbent, and has room for npt points):: '
                        'NPT(G.nptver) == 1 and KOPT(G.mver) == 0 and NUMPTS(G.nptver) == npt'])

    # ---------------------------------------------------------------- Controller methods that may evaluate
    common_req = ['INV_ledger(self)', 'not G.pending', 'every stored point has all its samples:: G.offered == G.lastk']
    NOREEVAL = 'no re-evaluation licence is left over:: not G.reeval'
    common_ens = ['INV_ledger(self)', 'no point left pending:: not G.pending', 'no re-evaluation licence is left over:: not G.reeval',
                  ('every stored point has all its samples:: G.offered == G.lastk', 'C02', 'C03', 'C17'),
                  'exit flag is a run-time flag:: implies(not isnone($E), flag_ok($E))',
                  'not the max-restarts message:: implies(not isnone($E), $E.msg != "%s") or %s' % (MAXRESTART_MSG, '$SOFT'),
                  'self.nf >= old(self.nf)', 'self.nx >= old(self.nx)',
                  'MAXFUN => nf == maxfun:: implies(not isnone($E) and $E.flag == EXIT_MAXFUN_WARNING, self.nf == self.maxfun)']
    common_inv = ['INV_ledger(self)', 'no point left pending:: not G.pending', 'no re-evaluation licence is left over:: not G.reeval', 'self.nf >= old(self.nf)', 'self.nx >= old(self.nx)',
                  ('every stored point has all its samples:: G.offered == G.lastk', 'C02', 'C03', 'C17'), 'G.proj == old(G.proj)']

    def sub(c, exit_expr, q):
        f = lambda t: t.replace('$E', exit_expr).replace('$SOFT', 'True' if q.endswith('soft_restart') else 'False')
        return (f(c[0]),) + tuple(c[1:]) if isinstance(c, tuple) else f(c)

    def method(q, res, exit_expr, extra_ens=(), extra_req=(), extra_mod=(), params=None, extra_tags=(), **kw):
        D.contract(q, tags=['C02', 'C04', 'C08', 'C10'] + list(extra_tags), params=dict({'number_of_samples': 'int'}, **(params or {})),
                   requires=common_req + ([] if q.endswith('geometry_step') else [NOREEVAL]) + ['number_of_samples >= 1'] + list(extra_req),
                   modifies=LEDGER_MODS + MODEL_GHOSTS + list(extra_mod), result=res,
                   ensures=[sub(c, exit_expr, q) for c in common_ens] + list(extra_ens),
                   ledger_inv=common_inv, **kw)

    N1 = ('A-N1 (numeric; KNOWN TO BE FALSE as a fact about the code in about 8% of growing runs near a bound, harmless for a deterministic objective - see DESIGN.md 10.9): the point '
          'furthest from xopt, at a distance above a non-negative threshold, is not xopt itself.  Where it fails, the incumbent\'s stored (unclipped) step lies outside the shifted bounds, '
          'distances_to_xopt measures it against the clipped xopt, the geometry step then re-evaluates the incumbent\'s own clipped point and a deterministic objective returns the same value:: '
          'knew != KOPT(G.mver)', 'C04')
    N2 = ('A-N2 (numeric): np.argsort returns distinct slots and the incumbent (distance 0) sorts first; a point that became the incumbent during this loop '
          'sits in a slot already visited:: knew != KOPT(G.mver)', 'C04')
    method('Controller.geometry_step', 'optexit', 'result', params={'knew': 'int'},
           extra_req=[('(C04 ii) a geometry step never replaces the incumbent record unless it was offered to the saved-point slot or the step re-evaluates the incumbent\'s own point (A-N1 prime):: knew != KOPT(G.mver) or G.savedver == G.mver or G.reeval', 'C04', 'C08')],
           ghost_return=[('G.reeval', 'False')])
    method('Controller.check_and_fix_geometry', ('bool', 'optexit'), 'result[1]',
           # A-N1': no assumption prunes the state here.  When the furthest point IS the incumbent (its stored, unclipped step lies outside the shifted bounds), the geometry step
           # re-evaluates the incumbent's own clipped point: the licence G.reeval says so, and the consumer's clause accepts an overwrite of kopt under it.
           ghost_before={'Controller.geometry_step#1': [('G.reeval', 'knew == KOPT(G.mver)')]})
    method('Controller.add_new_direction_while_growing', 'optexit', 'result')
    FRESH = ('the model holds only x0 when initialisation starts:: NPT(G.nptver) == 1', 'C04')
    grow = lambda c: ('(C04 ii) initialisation fills new slots only: the model holds at most this many records so far:: NPT(G.nptver) <= i_ + %d' % c, 'C04')
    full = lambda c: ('(C19 N5) one new slot per direction: at least this many records are stored so far (or the set is full):: NPT(G.nptver) >= min(NUMPTS(G.nptver), i_ + %d) and '
                      'NUMPTS(G.nptver) == old(NUMPTS(G.nptver))' % c, 'C19')
    FULL_ENS = ('(C19 N5) without projections a completed initialisation has stored one point per requested direction (or filled the set):: '
                'implies(isnone(result) and not G.proj, NPT(G.nptver) >= min(NUMPTS(G.nptver), 1 + num_directions) and NUMPTS(G.nptver) == old(NUMPTS(G.nptver)))', 'C19')
    method('Controller.initialise_coordinate_directions', 'optexit', 'result', extra_tags=['C14'], params={'num_directions': 'int'},
           extra_req=['parallel coordinate initialisation is rejected by solve (O8: expected dead):: not params("init.run_in_parallel")', FRESH],
           loops={'for:k#0': [grow(1)], 'for:k#2': [grow(0)], 'for:k#3': [grow(0), full(0)]}, extra_ens=[FULL_ENS],
           dead_under=['init.run_in_parallel'])
    method('Controller.initialise_random_directions', 'optexit', 'result', extra_tags=['C14'],
           extra_req=[('batched (parallel) initialisation is outside the ledger contract (D6/D23):: not params("init.run_in_parallel")', 'C03', 'C04'), FRESH],
           params={'num_directions': 'int'}, extra_ens=[FULL_ENS],
           loops={'for:ndirns#1': [grow(1)], 'for:ndirns#2': [grow(1), full(1)]},
           dead_under=['init.run_in_parallel'])
    method('Controller.move_furthest_points', 'optexit', 'result', asserts={'before:Controller.geometry_step#1': [N2]})
    method('Controller.move_furthest_points_momentum', 'optexit', 'result', asserts={'before:Model.change_point#1': [N2]})
    method('Controller.soft_restart', 'optexit', 'result', params={'nruns_so_far': 'int', 'x_in_abs_coords_to_save': 'opt:val'},
           msg_asserts={MAXRESTART_MSG: [('(f) a success flag is attached only to a finite objective:: G.objfinite', 'C10')]},
           asserts={'before:random_directions_within_bounds#1': [('random directions only under the documented option restarts.increase_npt:: params("restarts.increase_npt")', 'C19')],
                    'before:Model.add_new_point#1': [('(C18) the interpolation set grows only while it is below the allowed maximum restarts.max_npt (the npt column of the diagnostic table '
                                                      'never exceeds it):: NPT(G.nptver) < params("restarts.max_npt")', 'C18')],
                    'before:Controller.geometry_step#1': [
                        ('A-N2 (numeric): np.argsort returns distinct slots with the incumbent (distance 0) first; it is skipped unless restarts.soft.move_xk, where it is the first '
                         'slot moved; a point that became the incumbent during this loop sits in a slot already visited:: '
                         '(i == 0 and params("restarts.soft.move_xk")) or knew != KOPT(G.mver)', 'C04')]},
           loops={'for:i#0': [('(C04 ii) the incumbent record was offered to the saved-point slot before the first point is moved:: i_ > 0 or G.savedver == G.mver', 'C04', 'C08')],
                  'for:i#1': [('(C18) the points still to be added fit below restarts.max_npt:: NPT(G.nptver) + (num_pts_to_add - i_) <= params("restarts.max_npt")', 'C18')]},
           extra_req=['nruns_so_far >= 0', 'no caller passes an extra point to save:: isnone(x_in_abs_coords_to_save)'],
           extra_mod=['G.restarts', 'self.last_successful_run'],
           ghost_return=[('G.restarts', 'G.restarts + (1 if isnone(result) else 0)')],
           extra_ens=['restart counted:: G.restarts == old(G.restarts) + (1 if isnone(result) else 0)',
                      ('max restarts msg => that many runs:: implies(not isnone(result) and result.msg == "%s", '
                       'nruns_so_far >= params("restarts.max_unsuccessful_restarts"))' % MAXRESTART_MSG, 'C10'),
                      ('restart => budget left:: implies(isnone(result), old(self.nf) < self.maxfun)', 'C02')])

    # choose_point_to_replace / calculate_ratio: no ledger effect, but they return an optional exit
    D.contract('Controller.choose_point_to_replace', tags=['C10', 'C04'], params={'skip_kopt': 'bool'}, modifies=[], result=('int', 'optexit'), assumed=False,
               loops={'for:k#0': [('candidates exclude the incumbent slot when asked to:: isnone(knew) or not skip_kopt or knew != KOPT(G.mver)', 'C04')]},
               ensures=['implies(not isnone(result[1]), result[1].flag == EXIT_LINALG_ERROR)',
                        ('(C04 ii) with skip_kopt the slot chosen for replacement is never the incumbent:: '
                         'implies(skip_kopt and isnone(result[1]), isnone(result[0]) or result[0] != KOPT(G.mver))', 'C04')])
    D.contract('Controller.calculate_ratio', tags=['C10'], params={'x': 'val'}, modifies=['self.diffs', 'self.last_successful_iter'], result=('val', 'optexit'),
               requires=[('(C06) the ratio test evaluates the regulariser at the incumbent in ABSOLUTE coordinates (x is model.xopt(abs_coordinates=True), not the point relative to '
                          'the base):: x == REC_X(G.mver)', 'C06')],
               ensures=['implies(not isnone(result[1]), result[1].flag == EXIT_TR_INCREASE_WARNING or result[1].flag == EXIT_TR_INCREASE_ERROR)'])

    # ---------------------------------------------------------------- solve_main
    D.contract('solve_main', tags=['C02', 'C04', 'C08', 'C10'],
               params={'maxfun': 'int', 'nruns_so_far': 'int', 'nf_so_far': 'int', 'nx_so_far': 'int', 'npt': 'int',
                       'r0_avg_old': 'opt:val', 'objfun': 'cb:objfun', 'nsamples': 'cb:nsamples', 'h': 'opt:cb:h', 'x0': 'val',
                       'r0_nsamples_old': 'opt:int', 'x0_eval_num_old': 'opt:int'},
               requires=[('(C03, C11) a run that re-uses the residual of its starting point is handed ONE whole entry of the evaluation record: the point, its mean residual, its sample count and '
                          'its evaluation number (the number under which the restarted model stores x0, and which the Jacobian\'s evaluation numbers and soln.xmin_eval_num then name):: '
                          'implies(not isnone(r0_avg_old), x0 == EX(G.best) and r0_avg_old == ER(G.best) and r0_nsamples_old == ENS(G.best) and x0_eval_num_old == EEN(G.best))', 'C03', 'C11'),
                         'not G.reeval', ('the run starts from the evaluation count so far (the nf column of the diagnostic table continues from it):: G.calls == nf_so_far', 'C02', 'C04', 'C08', 'C10', 'C18'),
                         ('the run starts from the point count so far (the nx column of the diagnostic table continues from it):: G.pts == nx_so_far', 'C02', 'C04', 'C08', 'C10', 'C18'), '0 <= nx_so_far', 'nx_so_far <= nf_so_far',
                         'nf_so_far <= maxfun', 'maxfun == G.maxfun', 'not G.pending', 'nruns_so_far >= 0', 'G.offered == G.lastk', 'G.rows >= 0',
                         'fresh evaluation needs budget:: implies(isnone(r0_avg_old), nf_so_far < maxfun)',
                         'implies(params("init.run_in_parallel"), params("init.random_initial_directions"))',
                         'parameter inside its range (established by the parameter check of solve):: params("restarts.hard.increase_ndirs_initial_amt") >= 0'],
               modifies=['G.calls', 'G.pts', 'G.pending', 'G.nanflag', 'G.restarts', 'G.lastx', 'G.lastvals', 'G.lastk', 'G.offered', 'G.proj',
                         'G.ent', 'G.entjac', 'G.rows', 'G.better', 'G.savedver', 'G.fullinit', 'G.reeval'] + MODEL_GHOSTS + [
                         'params[growing.full_rank.use_full_rank_interp]', 'params[growing.perturb_trust_region_step]',
                         'params[growing.delta_scale_new_dirns]'],
               result=('val', 'val', 'val', 'opt:val', 'int', 'int', 'int', 'int', 'exit', 'unk', 'int', 'opt:val'),
               ledger_inv=[('INV_ledger(control)', 'C02', 'C04', 'C08', 'C10', 'C18'), 'no point left pending:: not G.pending', 'no re-evaluation licence is left over:: not G.reeval',
                           ('every stored point has all its samples:: G.offered == G.lastk', 'C02', 'C03', 'C17'),
                           ('run accounting:: nruns_so_far == old(nruns_so_far) + G.restarts - old(G.restarts)', 'C02', 'C04', 'C08', 'C10', 'C18'),
                           'control.maxfun == maxfun', 'nruns_so_far >= 0', ('G.calls >= old(G.calls)', 'C02', 'C04', 'C08', 'C10', 'C18'),
                           ('(C19 N5) when the caller leaves growing.ndirs_initial at its default npt - 1 (or above) the initial set is complete, so the run never enters the growing phase '
                            '(whose safety and new-direction steps draw random directions):: implies(G.fullinit and not G.proj, finished_growing)', 'C19'),
                           'G.restarts >= old(G.restarts)', 'G.rows >= 0'],
               loops={'for:i#0': ['!nodefault:: True',
                          'nf == nf_so_far + i_', 'num_samples_run == i_', 'G.calls == nf', 'nf <= maxfun',
                          'nx == nx_so_far + 1', 'G.pts == nx', 'isnone(exit_info)',
                          'nruns_so_far == old(nruns_so_far)', 'G.restarts == old(G.restarts)', 'not G.pending']},
               asserts={'before:Controller.initialise_random_directions#1': [('random initialisation only under init.random_initial_directions:: params("init.random_initial_directions")', 'C19')],
                        'before:Controller.move_furthest_points_momentum#1': [('random extra steps only under regression.momentum_extra_steps:: params("regression.momentum_extra_steps")', 'C19')],
                        'before:Controller.add_new_direction_while_growing#1': [('random growing directions only while the initial set is still growing:: not finished_growing', 'C19')],
                        'before:Controller.add_new_direction_while_growing#2': [('random growing directions only while the initial set is still growing:: not finished_growing', 'C19')],
                        'before:Controller.get_new_direction_for_growing#1': [('random perturbation only while growing and under growing.perturb_trust_region_step:: '
                                                                              'not finished_growing and params("growing.perturb_trust_region_step")', 'C19')],
                        'return@text:obj0_avg': [('exit at x0 names x0 as evaluation point nx:: result[10] == nx and result[4] == num_samples_run and result[0] == x0', 'C03'),
                                           ('(C10 a) a SUCCESS exit at x0 returns an objective (sum of squares of the averaged residual plus h(x0)) that passed the abs_tol test:: '
                                            'implies(result[8].flag == EXIT_SUCCESS, LEQ(result[2], params("model.abs_tol")) and '
                                            'result[2] == ite(isnone(h), SUMSQ(result[1]), ADDV(SUMSQ(result[1]), HVAL(RS(x0)))) and result[1] == MEANV(rvec_list, num_samples_run))', 'C10', 'C06'),
                                           ('(C03) at the x0 exit soln.obj is sum(resid^2) + h(x0) of the returned (averaged) residual:: '
                                            'result[2] == ite(isnone(h), SUMSQ(result[1]), ADDV(SUMSQ(result[1]), HVAL(RS(x0)))) and result[1] == MEANV(rvec_list, num_samples_run)', 'C03'),
                                           ('no Jacobian at the x0 exit:: isnone(result[3])', 'C11')],
                        'break@while#0': [
                   ('trial point offered or NaN:: not G.pending or G.nanflag', 'C04', 'C08'),
                   ('a run that ends on a NaN evaluation is flagged as an evaluation error:: implies(G.pending, exit_info.flag == EXIT_EVAL_ERROR)', 'C08'),
                   ('run accounting:: nruns_so_far == old(nruns_so_far) + G.restarts - old(G.restarts) + 1', 'C10', 'C18'),
                   ('exit reason set:: not isnone(exit_info)', 'C07', 'C10'),
                   ('exit flag is a run-time flag:: flag_ok(exit_info)', 'C07', 'C10'),
                   ('MAXFUN => nf == maxfun:: implies(exit_info.flag == EXIT_MAXFUN_WARNING, control.nf == control.maxfun)', 'C10'),
               ]},
               ghost_return=[('G.pending', 'False'), ('G.offered', 'G.lastk')],
               ghost_after_assign={'ratio': [('G.better', 'POS(ratio)')]},
               ghost_before={'Controller.initialise_coordinate_directions#1': [('G.fullinit', 'params("growing.ndirs_initial") >= npt - 1')],
                             'Controller.initialise_random_directions#1': [('G.fullinit', 'params("growing.ndirs_initial") >= npt - 1')]},
               ghost_return_at={'return@text:obj0_avg': [('G.ent', 'newent(result[0], result[1], result[2], result[4], result[10])')]},
               ensures=[('returned (x, resid, obj, nsamples, eval number) is one whole entry:: result[0] == EX(G.ent) and result[1] == ER(G.ent) and '
                         'result[2] == EO(G.ent) and result[4] == ENS(G.ent) and result[10] == EEN(G.ent)', 'C03'),
                        ('returned Jacobian comes with its own evaluation numbers:: isnone(result[3]) or (result[3] == EJ(G.entjac) and result[11] == EJN(G.entjac))', 'C11'),
                        'nf returned == calls made:: result[5] == G.calls',
                        'nx returned == points:: result[6] == G.pts',
                        'budget:: G.calls <= maxfun',
                        '0 <= result[6] and result[6] <= result[5]',
                        'calls only grow:: G.calls >= old(G.calls)',
                        'run accounting:: result[7] == old(nruns_so_far) + G.restarts - old(G.restarts) + 1',
                        'not G.pending', 'not G.reeval', 'result[7] >= old(nruns_so_far) + 1', 'G.restarts >= old(G.restarts)', 'G.offered == G.lastk', 'G.rows >= 0',
                        ('exit flag is a run-time flag:: flag_ok(result[8])', 'C07', 'C10'),
                        ('MAXFUN => nf == maxfun:: implies(result[8].flag == EXIT_MAXFUN_WARNING, result[5] == maxfun)', 'C10')])

    # ---------------------------------------------------------------- solve (hard-restart loop)
    D.contract('solve', tags=['C02', 'C04', 'C08', 'C10'],
               params={'maxfun': 'opt:int', 'npt': 'opt:int', 'objfun': 'cb:objfun', 'nsamples': 'opt:cb:nsamples', 'h': 'opt:cb:h',
                       'x0': 'unk'},
               types={},
               requires=['G.calls == 0', 'G.pts == 0', 'not G.pending', 'G.restarts == 0', 'G.offered == G.lastk', 'not G.reeval'],
               ghost_after_assign={'xmin': [('G.best', 'G.ent')], 'jacmin': [('G.bestjac', 'G.entjac')], 'objmin2': [('G.objnew', 'objmin2')]},
               ghost_before={'solve_main#1': [('G.maxfun', 'maxfun'), ('G.ran', 'False')],
                             'solve_main#2': [('G.restarts', 'G.restarts + 1'), ('G.objprev', 'objmin'), ('G.ran', 'True')],
                             'solve_main#3': [('G.restarts', 'G.restarts + 1'), ('G.objprev', 'objmin'), ('G.ran', 'True')]},
               asserts={'before:solve_main#1': [('budget is the caller\'s:: implies(not isnone(old(maxfun)), maxfun == old(maxfun))', 'C02')]},
               loops={'for:i#0': [('columns 0..i-1 of the returned Jacobian have been divided by their scale, once, in order:: '
                                   'not isnone(jacmin) and jacmin == UNSC(EJ(G.bestjac), i_) and n >= 0', 'C11')],
                      'while#0': ['!nodefault:: True', 'nf == G.calls', 'nx == G.pts', '0 <= nx', 'nx <= nf', 'nf <= maxfun',
                          'maxfun == G.maxfun', 'not G.pending', 'not G.reeval', 'nruns == G.restarts + 1', 'last_successful_run >= 0', 'G.offered == G.lastk', 'G.rows >= 0',
                          'last_successful_run <= nruns', 'flag_ok(exit_info)',
                          ('best-so-far tuple is one whole entry:: xmin == EX(G.best) and rmin == ER(G.best) and objmin == EO(G.best) and '
                           'nsamples_min == ENS(G.best) and xmin_eval_num == EEN(G.best)', 'C03'),
                          ('Jacobian kept with its own evaluation numbers:: isnone(jacmin) or (jacmin == EJ(G.bestjac) and jacmin_eval_nums == EJN(G.bestjac))', 'C11'),
                          ('MAXFUN => nf == maxfun:: implies(exit_info.flag == EXIT_MAXFUN_WARNING, nf == maxfun)', 'C10'),
                          ('(C04, C08 ii) after every restarted run the best-so-far objective is the NaN-aware minimum of the previous best and the value the run returned: the run\'s value '
                           'is taken when it is strictly smaller or when the previous best is NaN, and a NaN result never replaces a non-NaN best:: '
                           'implies(G.ran, (objmin == G.objnew or objmin == G.objprev) and implies(LT(G.objnew, G.objprev) or ISNAN(G.objprev), objmin == G.objnew) and '
                           'implies(objmin != G.objprev, not ISNAN(G.objnew) or ISNAN(G.objprev)))', 'C04', 'C08')]},
               modifies=['G.*', 'params[*]'], result='unk',
               msg_asserts={MAXRESTART_MSG: [('that many runs were performed:: nruns >= params("restarts.max_unsuccessful_restarts")', 'C10'),
                                             ('(f) a success flag is attached only to a finite objective:: G.objfinite', 'C10')]},
               ensures=[('soln.x / resid / obj / xmin_eval_num are one whole returned entry:: implies(result.flag != EXIT_INPUT_ERROR, result.x == RS(EX(G.best)) and '
                         'result.resid == ER(G.best) and result.obj == EO(G.best) and result.xmin_eval_num == EEN(G.best))', 'C03'),
                        ('soln.jacobian is the Jacobian of that pair, un-scaled column by column exactly when scaling is on:: '
                         'implies(result.flag != EXIT_INPUT_ERROR and not isnone(result.jacobian), '
                         'result.jacobian == ite(not isnone(scaling_changes), UNSC(EJ(G.bestjac), n), EJ(G.bestjac)))', 'C11'),
                        ('soln.jacmin_eval_nums belong to soln.jacobian:: implies(result.flag != EXIT_INPUT_ERROR and not isnone(result.jacobian), '
                         'result.jacmin_eval_nums == EJN(G.bestjac))', 'C11'),
                        ('soln.nf == calls made:: implies(result.flag != EXIT_INPUT_ERROR, result.nf == G.calls)', 'C02'),
                        ('calls <= maxfun:: implies(result.flag != EXIT_INPUT_ERROR, G.calls <= G.maxfun)', 'C02', 'C08'),
                        ('soln.nx == last point number:: implies(result.flag != EXIT_INPUT_ERROR, result.nx == G.pts)', 'C02'),
                        ('soln.nruns == restarts + 1:: implies(result.flag != EXIT_INPUT_ERROR, result.nruns == G.restarts + 1)', 'C10'),
                        ('input error => nothing evaluated:: implies(result.flag == EXIT_INPUT_ERROR, G.calls == 0 and result.nf == 0)', 'C07'),
                        ('MAXFUN => nf == maxfun:: implies(result.flag == EXIT_MAXFUN_WARNING, result.nf == G.maxfun)', 'C10')])
    D.verify_list = ['eval_least_squares_with_regularisation', 'Controller.evaluate_objective', 'Controller.__init__',
                     'Controller.geometry_step', 'Controller.check_and_fix_geometry', 'Controller.add_new_direction_while_growing',
                     'Controller.initialise_coordinate_directions', 'Controller.initialise_random_directions',
                     'Controller.move_furthest_points', 'Controller.move_furthest_points_momentum', 'Controller.soft_restart',
                     'Controller.choose_point_to_replace', 'Controller.calculate_ratio', 'solve_main', 'solve']
    return D


def extra_obligations(repo, D, pid):
    """syntactic, whole-package obligations of the ledger bundle"""
    import ast, z3
    from pyvc.core import Ob
    out = []
    # C08 (v) exception transparency: no try body (transitively) reaches the user's residual function, and there is no finally / with
    targets = {'objfun', 'eval_least_squares_with_regularisation', 'evaluate_objective'}
    for qual, fi in sorted(repo.funcs.items()):
        if fi.module == 'hessian':
            continue
        k = 0
        for n in ast.walk(fi.node):
            if isinstance(n, ast.Try):
                k += 1
                bad = []
                if n.finalbody:
                    bad.append('finally')
                for c in ast.walk(ast.Module(body=n.body, type_ignores=[])):
                    if isinstance(c, ast.Call):
                        nm = c.func.id if isinstance(c.func, ast.Name) else (c.func.attr if isinstance(c.func, ast.Attribute) else None)
                        if nm in targets:
                            bad.append(nm)
                        else:
                            quals = [nm] if nm in repo.funcs else [cl + '.' + nm for cl in repo.resolve_method(nm or '')]
                            if nm in repo.classes:
                                quals = [nm + '.__init__']
                            for q in quals:
                                if repo.reaches(q, targets):
                                    bad.append(q)
                out.append(Ob('%s/frame[try#%d body does not reach objfun]' % (qual, k), 'frame', qual, ['C08'], [], z3.BoolVal(not bad), n.lineno,
                              'unsat', {'syntactic': True, 'why': ', '.join(bad)}))
            elif isinstance(n, (ast.With, ast.AsyncWith)):
                out.append(Ob('%s/frame[no with-statement]' % qual, 'frame', qual, ['C08'], [], z3.BoolVal(False), n.lineno, 'unsat', {'syntactic': True}))
    # C19 (b): np.random is used only in the listed source functions, which are called only from the listed (guarded) sites
    sources = {'random_orthog_directions_within_bounds', 'random_directions_within_bounds', 'Controller.initialise_coordinate_directions'}
    users, callers_of_gen = set(), set()
    for qual, fi in repo.funcs.items():
        if fi.module == 'hessian':
            continue
        for n in ast.walk(fi.node):
            if isinstance(n, ast.Attribute) and ast.unparse(n).startswith('np.random'):
                users.add(qual)
            if isinstance(n, ast.Call) and isinstance(n.func, ast.Name) and n.func.id in ('random_orthog_directions_within_bounds', 'random_directions_within_bounds'):
                callers_of_gen.add(qual)
        for n in ast.walk(fi.node):
            if isinstance(n, (ast.Import, ast.ImportFrom)) and 'random' in ast.unparse(n):
                users.add(qual + ' (import)')
    extra = sorted(users - sources)
    out.append(Ob('package/frame[np.random is used only in the two direction generators and in the projected coordinate initialisation]', 'frame', 'package', ['C19'], [],
                  z3.BoolVal(not extra), 0, 'unsat', {'syntactic': True, 'why': ', '.join(extra)}))
    allowed = {'Controller.initialise_random_directions', 'Controller.add_new_direction_while_growing', 'Controller.get_new_direction_for_growing',
               'Controller.soft_restart', 'Controller.move_furthest_points_momentum'}
    extra = sorted(callers_of_gen - allowed)
    out.append(Ob('package/frame[the direction generators are called only from the five documented random-option sites]', 'frame', 'package', ['C19'], [],
                  z3.BoolVal(not extra), 0, 'unsat', {'syntactic': True, 'why': ', '.join(extra)}))
    fi = repo.func('Controller.initialise_coordinate_directions')
    ok = fi is not None
    if fi is not None:
        # every np.random use of the coordinate initialisation sits inside the `if self.model.projections:` block (the undocumented rank-deficiency fallback)
        inside = set()
        for n in ast.walk(fi.node):
            if isinstance(n, ast.If) and ast.unparse(n.test) == 'self.model.projections':
                for m in ast.walk(ast.Module(body=n.body, type_ignores=[])):
                    if isinstance(m, ast.Attribute) and ast.unparse(m).startswith('np.random'):
                        inside.add(id(m))
        allr = {id(m) for m in ast.walk(fi.node) if isinstance(m, ast.Attribute) and ast.unparse(m).startswith('np.random')}
        ok = allr <= inside
    out.append(Ob('Controller.initialise_coordinate_directions/frame[np.random only inside the projections branch]', 'frame',
                  'Controller.initialise_coordinate_directions', ['C19'], [], z3.BoolVal(ok), 0, 'unsat', {'syntactic': True}))
    # C02 frame: nf / nx are written, and the evaluation choke point is called, only where the ledger contracts say so
    writers = {'nf': set(), 'nx': set(), 'kopt': set()}
    callers = set()
    swap_callers = set()
    for qual, fi in repo.funcs.items():
        if fi.module == 'hessian':
            continue
        for n in ast.walk(fi.node):
            tg = []
            if isinstance(n, ast.Assign):
                tg = n.targets
            elif isinstance(n, ast.AugAssign):
                tg = [n.target]
            for t in tg:
                for x in (t.elts if isinstance(t, (ast.Tuple, ast.List)) else [t]):
                    if isinstance(x, ast.Attribute) and x.attr in writers:
                        writers[x.attr].add(qual)
            if isinstance(n, ast.Call):
                nm = n.func.id if isinstance(n.func, ast.Name) else (n.func.attr if isinstance(n.func, ast.Attribute) else None)
                if nm == 'eval_least_squares_with_regularisation':
                    callers.add(qual)
                if nm == 'objfun':
                    callers.add('objfun<-' + qual)
                if nm == 'swap_points':
                    swap_callers.add(qual)
    # C04 (ii): the incumbent index moves only inside the Model methods whose effect on it is under contract (bundle model); swap_points is not used
    extra = sorted(writers['kopt'] - {'Model.__init__', 'Model.change_point', 'Model.swap_points', 'Model.add_new_sample', 'Model.add_new_point'})
    out.append(Ob('package/frame[only Model methods under contract write .kopt]', 'frame', 'package', ['C04', 'C17'], [], z3.BoolVal(not extra), 0, 'unsat',
                  {'syntactic': True, 'why': ', '.join(extra)}))
    out.append(Ob('package/frame[Model.swap_points has no caller (the ledger has no contract for it)]', 'frame', 'package', ['C04'], [], z3.BoolVal(not swap_callers), 0, 'unsat',
                  {'syntactic': True, 'why': ', '.join(sorted(swap_callers))}))
    allowed_w = {'Controller.__init__', 'Controller.evaluate_objective', 'OptimResults.__init__'}
    for f in ('nf', 'nx'):
        extra = sorted(writers[f] - allowed_w)
        out.append(Ob('package/frame[only the choke point writes .%s]' % f, 'frame', 'package', ['C02', 'C08'], [], z3.BoolVal(not extra), 0, 'unsat',
                      {'syntactic': True, 'why': ', '.join(extra)}))
    extra = sorted(callers - {'Controller.evaluate_objective', 'solve_main', 'objfun<-eval_least_squares_with_regularisation'})
    out.append(Ob('package/frame[objfun is called only through the evaluation choke point]', 'frame', 'package', ['C02', 'C08'], [], z3.BoolVal(not extra), 0,
                  'unsat', {'syntactic': True, 'why': ', '.join(extra)}))
    # C02 (log): every "Function eval %i at point %i ..." record is formatted with (eval_num, pt_num, ...) in that order - the evaluation numbers and point numbers a user reads
    # in the log are the ledger's
    fi = repo.func('eval_least_squares_with_regularisation')
    k = 0
    if fi is not None:
        for n in ast.walk(fi.node):
            if isinstance(n, ast.BinOp) and isinstance(n.op, ast.Mod) and isinstance(n.left, ast.Constant) and isinstance(n.left.value, str) and 'Function eval' in n.left.value:
                k += 1
                args = [ast.unparse(a) for a in (n.right.elts if isinstance(n.right, ast.Tuple) else [n.right])]
                ok = n.left.value.startswith('Function eval %i at point %i') and args[:2] == ['eval_num', 'pt_num']
                out.append(Ob('eval_least_squares_with_regularisation/frame[log record #%d prints the evaluation number, then the point number]' % k, 'frame',
                              'eval_least_squares_with_regularisation', ['C02'], [], z3.BoolVal(ok), n.lineno, 'unsat', {'syntactic': True, 'why': '%r %% %s' % (n.left.value[:40], args[:3])}))
    out.append(Ob('eval_least_squares_with_regularisation/frame[both log records (short and long x) are present]', 'frame', 'eval_least_squares_with_regularisation', ['C02'], [],
                  z3.BoolVal(k == 2), 0, 'unsat', {'syntactic': True, 'why': '%d records found' % k}))
    # C02: calls that share a point number receive the identical x: inside the two sampling loops neither the point nor the scaling is re-bound
    for qual, names in (('Controller.evaluate_objective', {'x'}), ('solve_main', {'x0', 'scaling_changes'})):
        fi = repo.func(qual)
        ok = fi is not None
        why = ''
        if fi is not None:
            for lp in ast.walk(fi.node):
                if isinstance(lp, ast.For) and any(isinstance(c, ast.Call) and getattr(c.func, 'id', None) == 'eval_least_squares_with_regularisation'
                                                   for c in ast.walk(lp)):
                    assigned = {n.id for n in ast.walk(lp) if isinstance(n, ast.Name) and isinstance(n.ctx, ast.Store)}
                    attrs = {n.attr for n in ast.walk(lp) if isinstance(n, ast.Attribute) and isinstance(n.ctx, ast.Store)}
                    if assigned & names or 'scaling_changes' in attrs:
                        ok, why = False, 're-bound in the sampling loop: %s' % sorted((assigned & names) | (attrs & {'scaling_changes'}))
                    for c in ast.walk(lp):
                        if isinstance(c, ast.Call) and getattr(c.func, 'id', None) == 'eval_least_squares_with_regularisation':
                            a1 = ast.unparse(c.args[1]) if len(c.args) > 1 else ''
                            exp = 'remove_scaling(%s, %s)' % (('x', 'self.scaling_changes') if qual.startswith('Controller') else ('x0', 'scaling_changes'))
                            if a1 != exp:
                                ok, why = False, 'sample call evaluates %s, expected %s' % (a1, exp)
        out.append(Ob('%s/frame[every sample of a point is evaluated at the identical x]' % qual, 'frame', qual, ['C02'], [], z3.BoolVal(ok), 0, 'unsat',
                      {'syntactic': True, 'why': why}))
    return out
