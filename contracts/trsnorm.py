"""Sidecar contracts, domain Lc with scalar facts (bilinear dot products, square roots).  Serves C12, clause "||d|| <= delta" (real arithmetic; the (1+1e-8) slack of the
statement is the rounding allowance):

trsbox, conjugate-gradient phase.  With m the current free set (xbdi == 0):
  (N1)  sum of squares of the free part of d  <=  delsq
  (N2)  sum of squares of the fixed part of d  ==  delta^2 - delsq            (delsq is the trust-region budget left for the free variables)
are invariants of the real loop: a CG step is cut at BLEN, the positive root of ||d_free + t s||^2 == delsq (nonlinear real arithmetic on the real formula for BLEN), the
bound scan only shortens it, and fixing a variable moves its square from the free part to the fixed part and out of delsq.  Hence ||d||^2 <= delta^2 whenever the loop is left."""
from pyvc.domains.lincomb import LinCombDomain

T = ['C12']


def build(repo):
    D = LinCombDomain(repo, scalar_facts=True, expand_shrink=True)
    D.ghost_shapes = {}
    VP = {'xopt': 'lc', 'g': 'lc', 'H': 'mat', 'sl': 'lc', 'su': 'lc', 'd': 'lc', 'gnew': 'lc', 'xbdi': 'xbdi', 'delta': 'real', 'qred': 'real', 'n': 'int', 'nact': 'int',
          'use_fortran': 'bool'}
    D.contract('d_within_bounds', tags=T, params={k: VP[k] for k in ('d', 'xopt', 'sl', 'su', 'xbdi')}, modifies=[], result='lc', ensures=[], assumed=True,
               notes='the final clip (bundle trclip); here the clauses speak about the step handed to it')
    NORM = 'sumsq(d) <= delta * delta'
    D.contract('alt_trust_step', tags=T, params={k: VP[k] for k in ('n', 'xopt', 'H', 'sl', 'su', 'd', 'xbdi', 'nact', 'gnew', 'qred')},
               requires=[], modifies=[], result=('lc', 'lc'), ensures=[], assumed=True, notes='rotations on the trust-region boundary: norm preservation is a separate clause')
    N1 = ('(N1) the free part of the step fits the budget left:: sumsq(d[xbdi == 0]) <= delsq', 'C12')
    N2 = ('(N2) the fixed part of the step has used exactly the rest of the budget:: sumsq(d) - sumsq(d[xbdi == 0]) == delta * delta - delsq', 'C12')
    D.contract('trsbox', tags=T, params={k: VP[k] for k in ('xopt', 'g', 'H', 'sl', 'su', 'delta', 'use_fortran')},
               requires=['the pure-Python path (the Fortran extension is not built here):: not use_fortran', 'delta > 0'],
               modifies=[], result=None, dead_under=['use_fortran'],
               loops={'for:ii#0': [N1, N2], 'for:i#0': [('the bound scan only shortens the step:: stplen <= blen', 'C12'),
                                  ('a coordinate stopped by a bound has a non-zero search component (so it is a free one):: isnone(iact) or s[iact] != 0.0', 'C12')]},
               asserts={'after:blen': [('lemma (BLEN is the positive root: the step of that length ends on the sphere of the free variables):: '
                                        'blen > 0.0 and sumsq(s) * blen * blen + 2.0 * DOT(s[xbdi == 0], d[xbdi == 0]) * blen == delsq - sumsq(d[xbdi == 0])', 'C12')],
                        'after:sdec@1': [('lemma (before the step is taken; the step length actually used is stplen when that is positive, else 0): the free part of the new step fits the budget:: '
                                          'sumsq(d[xbdi == 0]) + 2.0 * (stplen if stplen > 0.0 else 0.0) * DOT(s[xbdi == 0], d[xbdi == 0]) + (stplen if stplen > 0.0 else 0.0) ** 2 * sumsq(s) <= delsq', 'C12')],
                        'before:d_within_bounds#1': [('(C12) the step handed to the final clip after the conjugate-gradient phase has ||d|| <= delta:: ' + NORM, 'C12')],
                        'before:alt_trust_step#1': [('(C12) the step handed to the boundary iteration has ||d|| <= delta:: ' + NORM, 'C12')]},
               ensures=[])
    D.verify_list = ['trsbox']
    return D
