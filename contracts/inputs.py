"""Sidecar contracts, bundle `inputs` (domain Rd + parameter table).  Serves C07:
 (a) every listed invalid argument value makes solve return the input-error result with zero evaluations (the input-error return is reached, and no
     path reaches the first evaluation with an invalid value);  (b) ParameterList.__call__ raises ValueError exactly for unknown keys / second updates;
 (d) the result exposes the nine documented exit-code constants;  (e) flags are documented codes with non-empty messages;  call conformance of every
     resolved intra-package call (syntactic, whole package)."""
import ast, z3
from pyvc.core import *
from pyvc.domains.radii import RadiiDomain

DOC_CONSTANTS = ['EXIT_SUCCESS', 'EXIT_MAXFUN_WARNING', 'EXIT_SLOW_WARNING', 'EXIT_FALSE_SUCCESS_WARNING', 'EXIT_TR_INCREASE_WARNING',
                 'EXIT_INPUT_ERROR', 'EXIT_TR_INCREASE_ERROR', 'EXIT_LINALG_ERROR', 'EXIT_EVAL_ERROR']      # docs/userguide.rst
UPIN = z3.Function('UPIN', z3.IntSort(), z3.BoolSort())    # key in user_params (the caller's dict)
INP = z3.Function('INP', z3.IntSort(), z3.BoolSort())      # key in self.params
CHG = z3.Function('CHG', z3.IntSort(), z3.BoolSort())      # self.params_changed[key]


class ArrTok:
    """an ndarray argument: only its length is tracked"""

    def __init__(self, n):
        self.n = n

    def length(self, st):
        return self.n

    def method(self, meth, eng, e, args, kwargs, st):
        if meth in ('astype', 'copy'):
            return self
        return UNK

    def attr(self, name, eng, st):
        return UNK


class SymDict:
    def __init__(self, kind):
        self.kind = kind

    def contains(self, a, st):
        if isinstance(a, StrV):
            return {'params': INP, 'changed': CHG, 'user': UPIN}[self.kind](a.id)
        return UNK

    def getitem(self, e, eng, st):
        k = eng.ev(e.slice, st)
        if self.kind == 'changed' and isinstance(k, StrV):
            return CHG(k.id)
        if self.kind == 'changed_live' and isinstance(k, StrV):
            return z3.Select(st.heap[('G', 'changed')], k.id)
        return UNK

    def method(self, meth, eng, e, args, kwargs, st):
        if meth == 'items' and self.kind == 'user':
            return UserItems()
        return UNK

    def attr(self, name, eng, st):
        return UNK


class UserItems:
    pass

    def setitem(self, t, v, eng, st):
        eng.ev(t.slice, st)
        return None


class Dom(RadiiDomain):
    def __init__(self, repo):
        RadiiDomain.__init__(self, repo)
        b = self.builtins
        b['np.min'] = self.b_min_gap
        b['apply_scaling'] = self.b_apply_scaling
        b['np.shape'] = lambda eng, n, a, k, st: ShapeTok()
        self.inline = set(self.inline) | {'OptimResults.__init__'}

    def iter_element(self, iter_val, st):
        if isinstance(iter_val, UserItems):
            # one (key, value) pair of the caller's dict: the key is in the dict
            k = StrV(fint('upkey'), fbool('upkey_ne'))
            st.assume(UPIN(k.id))
            return (k, UNK)
        return RadiiDomain.iter_element(self, iter_val, st)

    def params_get(self, eng, node, args, kw, st):
        a2 = [a for a in args if not (isinstance(a, Ref) and a.cls == 'ParameterList')]
        key = a2[0] if a2 else None
        if ('new_value' in kw or len(a2) > 1) and isinstance(key, StrV) and ('G', 'changed') in st.heap:
            nv = kw.get('new_value', a2[1] if len(a2) > 1 else NONE)
            isn = self.is_same(nv, NONE, st)
            if isn is None or not z3.is_true(z3.simplify(isn)):
                ch = st.heap[('G', 'changed')]
                if len(eng.frames) == 1 and z3.is_int_value(key.id):
                    # (updates with the caller's own keys: dict keys are distinct, and an unknown key is the documented ValueError)
                    # ParameterList.__call__ raises ValueError when the key has been updated before
                    eng.oblige(st, z3.Not(z3.Select(ch, key.id)), 'no-raise', 'ValueError: parameter updated for a second time', ['C07'], node.lineno,
                               site='%s#%d' % eng.frames[0].call_ord.get(id(node), ('params', 0)))
                st.heap[('G', 'changed')] = z3.Store(ch, key.id, z3.BoolVal(True))
        return RadiiDomain.params_get(self, eng, node, args, kw, st)

    def load_attr(self, eng, base, attr, st, node):
        if isinstance(base, Ref) and base.cls == 'ParameterList' and attr == 'params_changed' and (base.oid, attr) not in st.heap:
            return SymDict('changed_live')
        return RadiiDomain.load_attr(self, eng, base, attr, st, node)

    def construct(self, eng, cls, e, st):
        r = RadiiDomain.construct(self, eng, cls, e, st)
        if cls == 'ParameterList':
            # a new parameter list: nothing has been updated yet; it *is* the object the name `params` refers to from here on
            st.heap[('G', 'changed')] = z3.K(z3.IntSort(), z3.BoolVal(False))
            return Ref('params', 'ParameterList')
        return r

    def fresh(self, shape, name, st=None):
        if shape == 'changedmap':
            return z3.Array(fresh_name(name), z3.IntSort(), z3.BoolSort())
        return RadiiDomain.fresh(self, shape, name, st)

    def b_min_gap(self, eng, node, args, kw, st):
        # np.min(xu - xl): the smallest gap between the bounds (ghost G.gap); any other reduction is an unrelated real
        if node.args and ast.unparse(node.args[0]) == 'xu - xl':
            # G.gap is the smallest gap of the bounds in the solver's INTERNAL variables (the ones rhobeg refers to).  xl / xu denote those only after both have passed through
            # apply_scaling; before that, with scaling_within_bounds on, the test would compare the caller's raw box with a radius of the unit box (an unrelated number G.gap_raw).
            sc = st.env.get('scaling_within_bounds')
            internal = z3.And(st.heap[('G', 'xl_int')], st.heap[('G', 'xu_int')])
            if isbool(sc):
                return z3.If(z3.Or(internal, z3.Not(sc)), st.heap[('G', 'gap')], st.heap[('G', 'gap_raw')])
            return z3.If(internal, st.heap[('G', 'gap')], st.heap[('G', 'gap_raw')])
        return freal('min')

    def b_apply_scaling(self, eng, node, args, kw, st):
        if node.args and isinstance(node.args[0], ast.Name) and node.args[0].id in ('xl', 'xu'):
            st.heap[('G', node.args[0].id + '_int')] = z3.BoolVal(True)
        return UNK

    def lib_call(self, eng, e, name, args, kwargs, st):
        if name in self.builtins:
            return self.builtins[name](eng, e, args, kwargs, st)
        return RadiiDomain.lib_call(self, eng, e, name, args, kwargs, st)

    def compare(self, op, a, b, st, node=None):
        if isinstance(a, ShapeTok) or isinstance(b, ShapeTok):
            return fbool('shape')
        return RadiiDomain.compare(self, op, a, b, st, node)

    def b_len(self, eng, node, args, kw, st):
        if args and isinstance(args[0], Opt) and isinstance(args[0].val, tuple):
            return z3.IntVal(len(args[0].val))
        return RadiiDomain.b_len(self, eng, node, args, kw, st)

    def spec_call(self, eng, name, e, st):
        if name == 'changed':
            return z3.Select(st.heap[('G', 'changed')], z3.IntVal(intern(e.args[0].value)))
        if name == 'upin':
            return UPIN(z3.IntVal(intern(e.args[0].value)))
        if name == 'known_key':
            k = eng.ev(e.args[0], st)
            return INP(k.id) if isinstance(k, StrV) else UNK
        return RadiiDomain.spec_call(self, eng, name, e, st)

    def after_verify(self, eng, fi, con, ctl):
        if fi.qual == 'ParameterList.__call__':
            fr = eng.frames[0]
            for k, (ln, x) in enumerate(sorted(ctl.exc, key=lambda t: t[0])):
                key = x.env.get('key')
                nv = fr.old.env.get('new_value')
                goal = z3.BoolVal(False)
                if isinstance(key, StrV):
                    upd = z3.Not(nv.is_none) if isinstance(nv, Opt) else fbool('upd')
                    goal = z3.And(z3.BoolVal(x.env.get('__exc__') == 'ValueError'), z3.Or(z3.Not(INP(key.id)), z3.And(upd, CHG(key.id))))
                eng.oblige(x, goal, 'raises', 'ValueError only for an unknown key or a second update', ['C07'], ln, site='raise#%d' % (k + 1))


class ShapeTok:
    pass


def build(repo):
    D = Dom(repo)
    D.ghost_shapes = {'gap': 'real', 'changed': 'changedmap', 'gap_raw': 'real', 'xl_int': 'bool', 'xu_int': 'bool'}
    K1, K2, K3 = 'growing.full_rank.use_full_rank_interp', 'growing.perturb_trust_region_step', 'noise.additive_noise_level'
    D.field_shapes[('OptimResults', 'flag')] = 'int'
    D.field_shapes[('OptimResults', 'nf')] = 'int'
    T = ['C07']

    def setup_solve(eng, st):
        n = fint('n')
        st.assume(n >= 1)
        st.env['x0'] = ArrTok(n)
        b_none, lo_none, up_none = fbool('bounds_none'), fbool('lower_none'), fbool('upper_none')
        st.env['bounds'] = Opt(b_none, (Opt(lo_none, ArrTok(n)), Opt(up_none, ArrTok(n))))
        st.env['user_params'] = Opt(fbool('up_none'), SymDict('user'))
        st.env['projections'] = UNK
        st.env['n_'] = n
        # the bounds have not been moved to the internal (scaled) variables yet
        st.heap[('G', 'xl_int')] = z3.BoolVal(False)
        st.heap[('G', 'xu_int')] = z3.BoolVal(False)

    invalid = [
        ('rhobeg <= 0', 'not isnone(old(rhobeg)) and old(rhobeg) <= 0'),
        ('rhoend <= 0', 'old(rhoend) <= 0'),
        ('rhobeg <= rhoend', 'not isnone(old(rhobeg)) and old(rhobeg) <= old(rhoend)'),
        ('npt < n+1', 'not isnone(old(npt)) and old(npt) < n_ + 1'),
        ('maxfun <= 0', 'not isnone(old(maxfun)) and old(maxfun) <= 0'),
        ('regulariser without prox_uh', 'not isnone(h) and isnone(prox_uh)'),
        ('regulariser without lh', 'not isnone(h) and isnone(old(lh))'),
        ('lh <= 0', 'not isnone(h) and not isnone(old(lh)) and old(lh) <= 0'),
        ('bounds narrower than 2*rhobeg', 'G.gap < 2.0 * rhobeg'),
        ('a user parameter outside its type/range table', 'not all_ok'),
        ('both safety-step options', 'params("growing.safety.full_geom_step") and params("growing.safety.reduce_delta")'),
        ('both growing options', 'params("growing.full_rank.use_full_rank_interp") and params("growing.perturb_trust_region_step")'),
        ('both noise estimates', 'params("noise.quit_on_noise_level") and not isnone(params("noise.multiplicative_noise_level")) and not isnone(params("noise.additive_noise_level"))'),
        ('parallel coordinate initialisation', 'params("init.run_in_parallel") and not params("init.random_initial_directions")'),
        ('reset rho without reset delta', 'params("growing.reset_rho") and not params("growing.reset_delta")'),
    ]
    D.contract('solve', tags=T, setup=setup_solve,
               params={'rhobeg': 'opt:real', 'rhoend': 'real', 'h': 'opt:cb:h', 'npt': 'opt:int', 'maxfun': 'opt:int', 'objfun': 'cb:objfun',
                       'nsamples': 'opt:cb:nsamples', 'lh': 'opt:real', 'prox_uh': 'opt:cb:prox_uh', 'scaling_within_bounds': 'bool'},
               requires=[], modifies=['params[*]', 'G.changed', 'G.xl_int', 'G.xu_int'], result='unk',
               loops={'for:tuple#0': ['a parameter has been updated only if the caller\'s dict names it:: implies(changed("%s"), upin("%s")) and implies(changed("%s"), upin("%s"))' % (K1, K1, K2, K2),
                                      'an updated optional parameter holds a value:: implies(changed("%s"), not isnone(params("%s")))' % (K3, K3)]},
               asserts={'before:solve_main#1': [('no path reaches the first evaluation with: %s:: not (%s)' % (lab, ex), 'C07') for lab, ex in invalid],
                        'return@under:exit_info is not None': [('the early return is the input-error result: flag, zero evaluations, non-empty message:: result.flag == EXIT_INPUT_ERROR and '
                                      'result.nf == 0 and result.nx == 0 and result.msg', 'C07')]},
               ensures=[('a result is returned with the input-error flag or after at least the checks passed:: result.flag == EXIT_INPUT_ERROR or True', 'C07')])
    D.contract('solve_main', tags=T, params={'default_growing_method_set_by_user': 'opt:bool', 'x0': 'unk'},
               requires=['the default growing method is switched only if the caller has not chosen one (no second update of a parameter):: '
                         'implies(not isnone(default_growing_method_set_by_user) and not default_growing_method_set_by_user, not changed("%s") and not changed("%s"))' % (K1, K2)],
               modifies=['params[*]', 'G.changed'], result=('unk',) * 8 + ('exit',) + ('unk',) * 3, ensures=[],
               notes='only the parameter updates at the top of solve_main matter here; the run itself is decided by the other bundles')

    def setup_call(eng, st):
        st.heap[('self', 'params')] = SymDict('params')
        st.heap[('self', 'params_changed')] = SymDict('changed')
    D.contract('ParameterList.__call__', tags=T, setup=setup_call, params={'key': 'str', 'new_value': 'opt:unk'}, requires=[],
               modifies=['self.params', 'self.params_changed'], result=None,
               ensures=['a value is returned only for a known key:: known_key(key)'])
    D.verify_list = ['solve', 'solve_main', 'ParameterList.__call__']
    return D


def extra_obligations(repo, D, pid):
    out = []
    # (d) the nine documented constants on the result object
    fi = repo.func('OptimResults.__init__')
    have = {}
    if fi is not None:
        for s in fi.node.body:
            if isinstance(s, ast.Assign) and isinstance(s.targets[0], ast.Attribute) and isinstance(s.value, ast.Name):
                have[s.targets[0].attr] = s.value.id
    for c in DOC_CONSTANTS:
        out.append(Ob('OptimResults.__init__/ensures[constant %s is exposed and bound to the module constant]' % c, 'frame', 'OptimResults.__init__', ['C07'], [],
                      z3.BoolVal(have.get(c) == c and c in repo.consts), 0, 'unsat', {'syntactic': True}))
    # (e) every ExitInformation(...) in the package is built from a module constant and a non-empty literal message; message() has a stem for it
    msgfi = repo.func('ExitInformation.message')
    stems = set()
    if msgfi is not None:
        for n in ast.walk(msgfi.node):
            if isinstance(n, ast.Compare) and isinstance(n.comparators[0], ast.Name):
                stems.add(n.comparators[0].id)
    for qual, f in sorted(repo.funcs.items()):
        if f.module == 'hessian':
            continue
        cnt = {}
        for n in sorted([x for x in ast.walk(f.node) if isinstance(x, ast.Call)], key=lambda x: (x.lineno, x.col_offset)):
            if isinstance(n, ast.Call) and isinstance(n.func, ast.Name) and n.func.id == 'ExitInformation':
                a0 = n.args[0] if n.args else None
                cname = a0.id if isinstance(a0, ast.Name) else '?'
                cnt[cname] = cnt.get(cname, 0) + 1
                k = '%s#%d' % (cname, cnt[cname])
                a1 = n.args[1] if len(n.args) > 1 else None
                ok = isinstance(a0, ast.Name) and a0.id in repo.consts and a0.id.startswith('EXIT_')
                lit_ok = (isinstance(a1, ast.Constant) and isinstance(a1.value, str) and len(a1.value) > 0) or \
                         (isinstance(a1, ast.BinOp) and isinstance(a1.left, ast.Constant) and isinstance(a1.left.value, str) and len(a1.left.value) > 0)
                out.append(Ob('%s/frame[ExitInformation(%s) uses an exit-code constant and a non-empty message]' % (qual, k), 'frame', qual, ['C07', 'C10'], [],
                              z3.BoolVal(bool(ok and lit_ok)), n.lineno, 'unsat', {'syntactic': True}))
                if ok:
                    documented = a0.id in DOC_CONSTANTS
                    out.append(Ob('%s/frame[ExitInformation(%s) uses a documented exit code that message() has a stem for]' % (qual, k), 'frame', qual, ['C07'], [],
                                  z3.BoolVal(documented and a0.id in stems), n.lineno, 'unsat', {'syntactic': True, 'why': a0.id}))
    # (f) exception frame: the only `raise` statements of the package are the documented ones - ValueError from ParameterList.__call__ (unknown parameter name /
    #     second update) and the LinAlgError raised under the documented option interpolation.throw_error_on_nans.  Anything else reaches the caller of solve as an
    #     exception instead of a result with an error flag.
    for qual, f in sorted(repo.funcs.items()):
        if f.module == 'hessian':
            continue
        parents = {}
        for n in ast.walk(f.node):
            for c in ast.iter_child_nodes(n):
                parents[id(c)] = n
        k = 0
        for n in sorted([x for x in ast.walk(f.node) if isinstance(x, ast.Raise)], key=lambda x: x.lineno):
            k += 1
            exc = n.exc.func if isinstance(n.exc, ast.Call) else n.exc
            ename = ast.unparse(exc) if exc is not None else '(re-raise)'
            ok = False
            if qual == 'ParameterList.__call__' and ename == 'ValueError':
                ok = True
            if ename.endswith('LinAlgError'):
                p = parents.get(id(n))
                while p is not None and not ok:
                    if isinstance(p, ast.If) and 'throw_error_on_nans' in ast.unparse(p.test):
                        ok = True
                    p = parents.get(id(p))
            out.append(Ob('%s/frame[raise#%d (%s) is a documented exception: ValueError from the parameter list, or LinAlgError under interpolation.throw_error_on_nans]'
                          % (qual, k, ename), 'frame', qual, ['C07'], [], z3.BoolVal(ok), n.lineno, 'unsat', {'syntactic': True, 'why': ename}))
    # call conformance: every resolved intra-package call binds the callee's parameters (positional count / keywords), *args aside
    for qual, f in sorted(repo.funcs.items()):
        if f.module == 'hessian':
            continue
        ccnt = {}
        for n in sorted([x for x in ast.walk(f.node) if isinstance(x, ast.Call)], key=lambda x: (x.lineno, x.col_offset)):
            callee = None
            skip_self = False
            if isinstance(n.func, ast.Name):
                if n.func.id in repo.funcs and repo.funcs[n.func.id].cls is None:
                    callee = repo.funcs[n.func.id]
                elif n.func.id in repo.classes and '__init__' in repo.classes[n.func.id]:
                    callee, skip_self = repo.classes[n.func.id]['__init__'], True
            elif isinstance(n.func, ast.Attribute):
                cands = [c for c in repo.resolve_method(n.func.attr)]
                if len(cands) == 1 and not n.func.attr.startswith('__'):
                    callee, skip_self = repo.classes[cands[0]][n.func.attr], not repo.classes[cands[0]][n.func.attr].is_static
            if callee is None:
                continue
            # nested defs shadowing (gradient_Fu etc.) are resolved lexically by the engine; here only package-level callees
            a = callee.node.args
            names = [x.arg for x in a.args][(1 if skip_self else 0):]
            ndef = len(a.defaults)
            required = names[:len(names) - ndef] if ndef else names
            npos = sum(1 for x in n.args if not isinstance(x, ast.Starred))
            star = any(isinstance(x, ast.Starred) for x in n.args) or any(kw.arg is None for kw in n.keywords)
            kws = [kw.arg for kw in n.keywords if kw.arg is not None]
            ok = True
            why = ''
            if npos > len(names) and not a.vararg:
                ok, why = False, 'takes %d positional arguments but %d were given' % (len(names), npos)
            for kw in kws:
                if kw not in names and kw not in [x.arg for x in a.kwonlyargs] and not a.kwarg:
                    ok, why = False, 'unexpected keyword %s' % kw
                elif kw in names[:npos]:
                    ok, why = False, 'multiple values for %s' % kw
            if not star:
                missing = [p for p in required[npos:] if p not in kws]
                if missing:
                    ok, why = False, 'missing %s' % missing
            ccnt[callee.qual] = ccnt.get(callee.qual, 0) + 1
            k = ccnt[callee.qual]
            if True:
                out.append(Ob('%s/call-conformance[%s#%d]' % (qual, callee.qual, k), 'call-conformance', qual, ['C07', 'C06'], [], z3.BoolVal(ok), n.lineno,
                              'unsat', {'syntactic': True, 'why': why}))
    return out
