"""Sidecar contracts, domain Rd (real scalars).  Serves C18 (radius invariants) and C10 (b) ("rho has reached rhoend").

INV_radii(c):  0 < rho <= delta,  rho <= rhobeg,  0 < rhoend,  (rhoend <= rhobeg  =>  rhoend <= rho),  (h is None => delta <= 1e10)
The statement's lower bound is the rescaled rhoend: Controller.rhoend is multiplied by restarts.rhoend_scale at each soft restart and the
local `rhoend` of solve_main is proved equal to it (link invariant); nothing stops a scale > 1 from pushing it above rhobeg (O9), hence
the guard rhoend <= rhobeg on that clause."""
from pyvc.domains.radii import RadiiDomain

RHO_MSG = 'rho has reached rhoend'


def build(repo):
    D = RadiiDomain(repo)
    D.ghost_shapes = {'abstol': 'real', 'reltol': 'real'}
    D.predicate('INV_radii', ['c'],
                '0 < c.rho and c.rho <= c.delta and c.rho <= c.rhobeg and 0 < c.rhoend and implies(c.rhoend <= c.rhobeg, c.rhoend <= c.rho) '
                'and implies(isnone(c.h), c.delta <= 10000000000.0) and 1.5 * c.rhobeg <= 10000000000.0')
    INV_PARTS = [('0 < rho <= delta:: 0 < self.rho and self.rho <= self.delta', 'C18'),
                 ('rho <= rhobeg:: self.rho <= self.rhobeg', 'C18'),
                 ('rescaled rhoend <= rho:: 0 < self.rhoend and implies(self.rhoend <= self.rhobeg, self.rhoend <= self.rho)', 'C18', 'C10'),
                 ('delta <= 1e10 (no regulariser):: implies(isnone(self.h), self.delta <= 10000000000.0)', 'C18'),
                 '1.5 * self.rhobeg <= 10000000000.0']
    T = ['C18']
    D.contract('Controller.__init__', tags=T, params={'rhobeg': 'real', 'rhoend': 'real', 'h': 'opt:cb:h'},
               requires=['0 < rhoend and 0 < rhobeg', 'A-quantifier: the cap delta <= 1e10 needs 1.5*rhobeg <= 1e10:: 1.5 * rhobeg <= 10000000000.0'],
               modifies=['self.*', 'G.abstol', 'G.reltol'],
               ensures=['self.delta == rhobeg and self.rho == rhobeg and self.rhobeg == rhobeg and self.rhoend == rhoend', 'same_h:: isnone(self.h) == isnone(h)',
                        ('(C10 a) the two tolerances of the "objective is sufficiently small" test are the documented parameters, each in its own place: the model is built with '
                         'abs_tol = model.abs_tol and rel_tol = model.rel_tol:: G.abstol == params("model.abs_tol") and G.reltol == params("model.rel_tol")', 'C10')] + INV_PARTS)
    D.field_shapes[('Model', 'abs_tol')] = 'real'
    D.field_shapes[('Model', 'rel_tol')] = 'real'
    D.field_shapes[('Model', 'objbeg')] = 'real'
    D.contract('Model.min_objective_value', tags=['C10'], requires=[], modifies=[], result='real',
               ensures=[('(C10 a) the threshold of the "objective is sufficiently small" test is max(abs_tol, rel_tol * f(x0)):: '
                         'result == max(self.abs_tol, self.rel_tol * self.objbeg)', 'C10')])
    D.contract('Controller.reduce_rho', tags=['C18', 'C10'], params={'current_iter': 'int'},
               requires=['INV_radii(self)', 'rho is above the (rescaled) rhoend:: self.rho > self.rhoend',
                         'params("tr_radius.alpha1") >= 0 and params("tr_radius.alpha1") <= 1 and params("tr_radius.alpha2") >= 0 and params("tr_radius.alpha2") <= 1'],
               modifies=['self.delta', 'self.rho', 'self.last_successful_iter'],
               ensures=[('rho does not increase and stays at or above rhoend:: self.rhoend <= self.rho and self.rho <= old(self.rho)', 'C18', 'C10'),
                        ('rho strictly decreases unless alpha1 == 1:: implies(params("tr_radius.alpha1") < 1, self.rho < old(self.rho))', 'C18')] + INV_PARTS)
    D.contract('Controller.check_and_fix_geometry', tags=T, params={'update_delta': 'bool', 'distsq_thresh': 'real'},
               requires=['INV_radii(self)'],
               modifies=['self.delta', 'self.nf', 'self.nx', 'self.diffs', 'self.model.*'], result=('bool', 'optexit'),
               ensures=[('rho is not touched:: self.rho == old(self.rho)', 'C18')] + INV_PARTS)
    D.contract('Controller.soft_restart', tags=['C18', 'C10'],
               requires=['INV_radii(self)', 'A-params sub-range (O11):: params("restarts.rhoend_scale") > 0'],
               modifies=['self.delta', 'self.rho', 'self.rhoend', 'self.nf', 'self.nx', 'self.diffs', 'self.model.*', 'self.last_iters_step_taken',
                         'self.last_fopts_step_taken', 'self.num_slow_iters', 'self.last_successful_iter', 'self.last_successful_run', 'self.last_run_fopt'],
               result='optexit',
               ensures=[('a restart that goes ahead rescales rhoend by the documented factor (and only then):: '
                         'self.rhoend == ite(isnone(result), params("restarts.rhoend_scale") * old(self.rhoend), old(self.rhoend))', 'C18', 'C10'),
                        ('radii are reset to rhobeg only when the restart goes ahead or a geometry step of it has started:: '
                         'implies(isnone(result), self.rho == self.rhobeg and self.delta == self.rhobeg)', 'C18'),
                        '0 < self.rho and self.rho <= self.delta', 'self.rho <= self.rhobeg', '0 < self.rhoend',
                        'implies(isnone(self.h), self.delta <= 10000000000.0)', '1.5 * self.rhobeg <= 10000000000.0',
                        ('rescaled rhoend <= rho (when it does not exceed rhobeg, O9):: implies(self.rhoend <= self.rhobeg, self.rhoend <= self.rho)', 'C18')])
    D.contract('Model.__init__', tags=T, params={'abs_tol': 'real', 'rel_tol': 'real'}, modifies=['self.*', 'G.abstol', 'G.reltol'],
               ghost_return=[('G.abstol', 'abs_tol'), ('G.reltol', 'rel_tol')], ensures=['G.abstol == abs_tol and G.reltol == rel_tol'], assumed=True,
               notes='frame, and ghost-defining: the tolerances the model is built with (that the constructor stores them in self.abs_tol / self.rel_tol is by inspection of two assignments)')
    D.contract('Controller.calculate_ratio', tags=T, modifies=['self.diffs', 'self.last_successful_iter'], result=('real', 'optexit'), ensures=[], assumed=True,
               notes='returns (ratio, exit_info); no radius is written (frame checked in the ledger bundle)')
    D.contract('solve_main', tags=['C18', 'C10'],
               params={'rhobeg': 'real', 'rhoend': 'real', 'h': 'opt:cb:h', 'npt': 'int', 'nruns_so_far': 'int', 'objfun': 'cb:objfun',
                       'nsamples': 'cb:nsamples', 'maxfun': 'int'},
               requires=['0 < rhoend and 0 < rhobeg', 'A-quantifier: the cap delta <= 1e10 needs 1.5*rhobeg <= 1e10:: 1.5 * rhobeg <= 10000000000.0',
                         'established by the input checks of solve:: implies(params("growing.reset_rho"), params("growing.reset_delta"))',
                         'parameters inside their documented ranges:: params("tr_radius.gamma_dec") >= 0 and params("tr_radius.gamma_dec") <= 1 and params("growing.gamma_dec") >= 0 and '
                         'params("growing.gamma_dec") <= 1 and params("tr_radius.gamma_inc") >= 1 and params("tr_radius.gamma_inc_overline") >= 1 and '
                         'params("tr_radius.alpha1") >= 0 and params("tr_radius.alpha1") <= 1 and params("tr_radius.alpha2") >= 0 and params("tr_radius.alpha2") <= 1 '
                         'and params("restarts.rhoend_scale") >= 0',
                         'A-params sub-range (O11: 0.0 is accepted by the parameter check and makes the rescaled rhoend zero):: params("restarts.rhoend_scale") > 0'],
               modifies=['params[growing.full_rank.use_full_rank_interp]', 'params[growing.perturb_trust_region_step]', 'params[growing.delta_scale_new_dirns]', 'G.abstol', 'G.reltol'],
               result=None,
               ledger_inv=['INV_radii(control)', ('the local rhoend is the controller\'s rescaled rhoend:: rhoend == control.rhoend', 'C18', 'C10'),
                           'control.rhobeg == rhobeg', 'isnone(control.h) == isnone(h)'],
               msg_asserts={RHO_MSG: [('"rho has reached rhoend" => rho == (rescaled) rhoend:: implies(control.rhoend <= control.rhobeg, control.rho == rhoend)', 'C10', 'C18')]},
               ensures=[])
    D.contract('solve', tags=['C18'],
               params={'rhobeg': 'opt:real', 'rhoend': 'real', 'h': 'opt:cb:h', 'npt': 'opt:int', 'maxfun': 'opt:int', 'objfun': 'cb:objfun',
                       'nsamples': 'opt:cb:nsamples', 'lh': 'opt:real', 'scaling_within_bounds': 'bool'},
               requires=[], modifies=['params[*]', 'G.abstol', 'G.reltol'], result='unk',
               loops={'while#0': ['0 < rhoend and 0 < rhobeg', 'implies(params("growing.reset_rho"), params("growing.reset_delta"))',
                                  'parameters stay inside their ranges:: params("tr_radius.gamma_dec") >= 0 and params("tr_radius.gamma_dec") <= 1 and '
                                  'params("growing.gamma_dec") >= 0 and params("growing.gamma_dec") <= 1 and params("tr_radius.gamma_inc") >= 1 and '
                                  'params("tr_radius.gamma_inc_overline") >= 1 and params("tr_radius.alpha1") >= 0 and params("tr_radius.alpha1") <= 1 and '
                                  'params("tr_radius.alpha2") >= 0 and params("tr_radius.alpha2") <= 1 and params("restarts.rhoend_scale") >= 0',
                                  'A-params sub-range (O11):: params("restarts.rhoend_scale") > 0']},
               ensures=[])
    D.verify_list = ['Model.min_objective_value', 'solve', 'Controller.__init__', 'Controller.reduce_rho', 'Controller.check_and_fix_geometry', 'Controller.soft_restart', 'solve_main']
    return D


def extra_obligations(repo, D, pid):
    """C18 "within one run rho never increases (unless the documented reset at the end of the growing phase is enabled)": rho is written only by the three Controller
    methods under contract here (__init__, reduce_rho: proved non-increasing, soft_restart: a restart) and by ONE statement of the main loop, which must sit directly under
    `if params("growing.reset_rho"):` inside the block that runs once when the growing phase ends (`finished_growing = True`).  Syntactic, whole package."""
    import ast, z3
    from pyvc.core import Ob
    out = []
    allowed = {'Controller.__init__', 'Controller.reduce_rho', 'Controller.soft_restart'}
    for qual, f in sorted(repo.funcs.items()):
        if f.module == 'hessian':
            continue
        parents = {}
        for n in ast.walk(f.node):
            for c in ast.iter_child_nodes(n):
                parents[id(c)] = n
        k = 0
        for n in sorted([x for x in ast.walk(f.node) if isinstance(x, (ast.Assign, ast.AugAssign))], key=lambda x: x.lineno):
            tg = n.targets if isinstance(n, ast.Assign) else [n.target]
            tg = [y for t in tg for y in (t.elts if isinstance(t, (ast.Tuple, ast.List)) else [t])]
            if not any(isinstance(t, ast.Attribute) and t.attr == 'rho' for t in tg):
                continue
            k += 1
            if qual in allowed:
                continue
            ok, why = False, 'write to .rho outside the Controller methods under contract'
            p, child = parents.get(id(n)), n
            if isinstance(p, ast.If) and child in p.body and ast.unparse(p.test) in ("params('growing.reset_rho')", 'params("growing.reset_rho")') \
                    and isinstance(n, ast.Assign) and ast.unparse(n.value) == 'rhobeg':
                gp = parents.get(id(p))
                if isinstance(gp, ast.If) and p in gp.body and any(isinstance(s, ast.Assign) and ast.unparse(s) == 'finished_growing = True' for s in gp.body):
                    ok, why = True, ''
                else:
                    why = 'the reset is not inside the end-of-growing block'
            else:
                why = 'the write is not `control.rho = rhobeg` directly under `if params("growing.reset_rho")` (found under: %s)' % (ast.unparse(p.test) if isinstance(p, ast.If) else type(p).__name__)
            out.append(Ob('%s/frame[write #%d to .rho is the documented reset: under growing.reset_rho, once, when the growing phase ends]' % (qual, k), 'frame', qual, ['C18'], [],
                          z3.BoolVal(ok), n.lineno, 'unsat', {'syntactic': True, 'why': why}))
    return out
