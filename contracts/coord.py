"""Sidecar contracts, domain Cd (real scalars and real arrays by element).  Serves C14, first sentence, distance clause:

  with the default coordinate initialisation every point handed to the objective has exactly one coordinate moved away from x0, and after the clip that
  as_absolute_coordinates applies (step clipped to [sl, su] = [xl - x0, xu - x0]) that coordinate lies between 0.01*rhobeg and 2*rhobeg from x0.

The obligation sits at the call sites of Model.as_absolute_coordinates inside Controller.initialise_coordinate_directions (the serial loop and the batched loop);
for the property's range npt <= 2n+1 only the first- and second-step branches run (k <= 2n), which is the guard of the clause.  The loop invariant is
"rows k.. of the scratch array are still zero rows".  Preconditions on the box (x0 already projected, gap >= 2*rhobeg) are stated as assumed clauses:
the first is C01's result, the second the input check of solve (bundle inputs).
The projections branch (random QR directions) is a different initialisation and is not covered here."""
from pyvc.domains.coord import CoordDomain


def build(repo):
    D = CoordDomain(repo)
    D.ghost_shapes = {}
    D.predicate('inband', ['e', 'd'], '(0.01 * d <= e and e <= 2.0 * d) or (-2.0 * d <= e and e <= -0.01 * d)')
    D.predicate('onecoord', ['row', 'dirn', 'c'],
                '0 <= dirn and dirn < ndim() and forall(j, 0, ndim(), j == dirn or row[j] == 0) and '
                'inband(clipstep(row[dirn], c.model.sl[dirn], c.model.su[dirn]), c.delta)')
    SITE = ('(C14 i) the point handed to the objective moves exactly one coordinate of x0, and after the clip to [sl, su] that coordinate is between 0.01*rhobeg '
            'and 2*rhobeg away (first and second coordinate steps, k <= 2n):: implies(k <= 2 * ndim(), onecoord(xpts_added[k], dirn, self))', 'C14')
    ZERO = ('rows not yet visited are zero rows:: forall(r, i_, num_directions + 1, zerorow(xpts_added, r))', 'C14')
    D.contract('Model.as_absolute_coordinates', tags=['C14'], params={'x': 'rvec'}, modifies=[], result='rvec', ensures=[], assumed=True,
               notes='the clip to the box is proved in bundle box (C01); here only what is passed in matters')
    D.contract('Controller.evaluate_objective', tags=['C14'], params={'number_of_samples': 'int'}, modifies=['self.nf', 'self.nx'],
               result=('unk', 'unk', 'int', 'optexit'), ensures=[], assumed=True, notes='ledger effects are proved in bundle ledger; no radius or bound is written')
    D.contract('Controller.initialise_coordinate_directions', tags=['C14'], params={'number_of_samples': 'int', 'num_directions': 'int'},
               requires=['self.delta > 0', 'num_directions >= 1',
                         'A-pre (C01: x0 has been projected into the box, so sl = xl - x0 <= 0 <= su = xu - x0; solve rejects a gap below 2*rhobeg, proved in bundle inputs):: '
                         'forall(j, 0, ndim(), self.model.sl[j] <= 0 and 0 <= self.model.su[j] and self.model.su[j] - self.model.sl[j] >= 2.0 * self.delta)'],
               modifies=['self.nf', 'self.nx', 'self.model.*'], result='optexit',
               loops={'for:k#1': [ZERO], 'for:k#3': [ZERO]},
               asserts={'before:Model.as_absolute_coordinates#2': [SITE], 'before:Model.as_absolute_coordinates#4': [SITE]},
               ensures=[])
    D.verify_list = ['Controller.initialise_coordinate_directions']
    return D
