"""Sidecar contract, domain B (IEEE-754 binary64, elementwise).  Serves C12, clause "the step d satisfies the box exactly":

every return path of trsbox / alt_trust_step hands its step to d_within_bounds (bundle trsbox: the step returned is an output of that function), and
d_within_bounds returns  xnew - xopt  with  sl <= xnew <= su  exactly (clip, then the coordinates recorded as fixed are put ON their bounds).
Rounding is monotone, so  sl - xopt <= d <= su - xopt  holds componentwise in IEEE arithmetic.

Neither z3 nor cvc5 decides the bit-blasted form (two 53-bit subtractions compared: unknown after 150 s), so in this bundle + and - are ABSTRACTED by the IEEE-754 facts
the proof needs (trusted lemmas, instantiated at the ground terms of the function; differentially tested by native/axiom_tests.py, group B):
  (S1) a (-) c and a (+) c are deterministic (same operands, same result);
  (S2) round-to-nearest subtraction is monotone in its first operand:  a <= b  implies  a (-) c <= b (-) c  unless one of the results is NaN;
  (S3) x (+-) y is NaN only if an operand is NaN or both are infinite.
Comparisons, minimum / maximum and the mask stores are exact."""
import z3
from pyvc.core import *
from pyvc.domains.box import F, isnan, finite
from contracts.box import Dom as BoxDom


class Dom(BoxDom):
    def init_state(self, st, fi, con):
        BoxDom.init_state(self, st, fi, con)
        self.subs = []          # (a, c, a (-) c)
        self.cache = {}

    def binop(self, op, a, b, st, node=None):
        if (isfp(a) or isfp(b)) and op in ('+', '-'):
            x, y = self.tofp(a, st), self.tofp(b, st)
            if x is None or y is None:
                return UNK
            key = (op, x.sexpr(), y.sexpr())
            if key in self.cache:                                              # (S1)
                return self.cache[key]
            r = z3.FP(fresh_name('sum' if op == '+' else 'diff'), F)
            self.cache[key] = r
            st.assume(z3.Implies(z3.And(z3.Not(isnan(x)), z3.Not(isnan(y)), z3.Or(finite(x), finite(y))), z3.Not(isnan(r))))      # (S3)
            if op == '-':
                for (x2, y2, r2) in self.subs:
                    if z3.eq(y, y2):                                           # (S2), both directions
                        st.assume(z3.Implies(z3.fpLEQ(x, x2), z3.Or(isnan(r), isnan(r2), z3.fpLEQ(r, r2))))
                        st.assume(z3.Implies(z3.fpLEQ(x2, x), z3.Or(isnan(r), isnan(r2), z3.fpLEQ(r2, r))))
                self.subs.append((x, y, r))
            return r
        return BoxDom.binop(self, op, a, b, st, node)


def build(repo):
    D = Dom(repo)
    D.ghost_shapes = {}
    D.field_shapes = {}
    D.assumptions = [a for a in D.assumptions] + [
        'IEEE-754 facts about + and - used instead of bit-blasting (trusted lemmas, instantiated at ground terms): determinism; round-to-nearest subtraction is monotone in its first '
        'operand unless a result is NaN; a sum / difference is NaN only if an operand is NaN or both are infinite']
    D.contract('d_within_bounds', tags=['C12'], params={'d': 'fp', 'xopt': 'fp', 'sl': 'fp', 'su': 'fp', 'xbdi': 'int'},
               requires=['A-nan (the step is finite: finite model data):: finite(d)',
                         'the box contains the current point (asserted on entry of trsbox: sl <= xopt <= su; the current point is finite):: '
                         'notnan(sl) and notnan(su) and finite(xopt) and sl <= xopt and xopt <= su'],
               modifies=[], result='fp',
               ensures=['(C12) the step returned satisfies the box exactly: sl - xopt <= d <= su - xopt, componentwise, in IEEE arithmetic:: sl - xopt <= result and result <= su - xopt',
                        '(C12) a coordinate recorded as fixed at its lower / upper bound is returned exactly on that bound:: '
                        'implies(xbdi == -1, result == sl - xopt) and implies(xbdi == 1, result == su - xopt)',
                        '(C12) the step is not NaN:: notnan(result)'])
    D.verify_list = ['d_within_bounds']
    return D
