"""Which bundles (domain + contracts) decide which property, plus the per-property notes that go into MANIFEST / evidence."""

SETUP_CMD = "mkdir -p evidence replays && python3-vt -c 'import z3; print(z3.get_version_string())' && /usr/bin/cvc5 --version | head -1 && ./tools/lean_check.sh"
NOTES = ("Contract-based deductive verification with an own VC generator (pyvc); see DESIGN.md (section 10 is the build report). Exit codes of ./check: 0 held, "
         "1 violation (VIOLATION line), 2 undecided, 3 checker error / soundness guard. The quick tier discharges every obligation generated from /repo's current source "
         "(z3, cvc5 for unknowns; the nonlinear-real bundles of C12 with every solver run in a process of its own: z3 with four seeds and cvc5, each on the full and on the sliced hypotheses, DESIGN.md section 10.17); the thorough tier repeats that with a 300 s budget, lets cvc5 re-decide every quantifier-free query, re-compiles the Lean lemma and adds two "
         "bounded cross-checks of the trusted base that are never counted as proof: seeded differential tests of the assumed library facts (native/axiom_tests.py) and run-time "
         "evaluation of the model bundle's contracts on the real code (native/rt_model.py). A refuted obligation is replayed natively (R1 scripts per bundle, the run-time "
         "monitor, two falsification searches); without a failing input the VIOLATION line ends no-failing-input-found. ./check fixes PYTHONHASHSEED so that the generated SMT text is identical from run to run. C12 is a partial claim since DESIGN.md section 10.14 "
         "(linear-combination domain for trsbox / alt_trust_step); the only property not claimed is C05.")

def lean_step(repo, tier, root):
    """lemma L1 (pure mathematics, independent of /repo): accepted by Lean 4 + Mathlib.  setup_cmd compiles it and records the hash of the accepted source;
    the quick tier checks that hash (and compiles if the record is missing), the thorough tier compiles again."""
    import os, subprocess, hashlib, z3
    from pyvc.core import Ob
    here = os.path.dirname(os.path.dirname(os.path.abspath(__file__)))
    src = os.path.join(here, 'lemmas', 'L1.lean')
    okf = os.path.join(here, 'lemmas', '.L1.ok')
    h = hashlib.sha256(open(src, 'rb').read()).hexdigest()
    recorded = open(okf).read().strip() if os.path.exists(okf) else None
    how = 'hash of the source equals the one accepted at set-up'
    if tier == 'thorough' or recorded != h:
        p = subprocess.run([os.path.join(here, 'tools', 'lean_check.sh')], capture_output=True, text=True)
        recorded = open(okf).read().strip() if os.path.exists(okf) else None
        how = 'compiled in this run: ' + p.stdout.strip().split('\n')[-1][:200]
    ob = Ob('lemmas/L1.lean/lean[dykstra_stop_rule, dykstra_stop_rule\' accepted by Lean 4.33 + Mathlib; axioms: propext, Classical.choice, Quot.sound]', 'lean', 'L1',
            ['C15', 'C09'], [], z3.BoolVal(recorded == h), 0, 'unsat', {'syntactic': True, 'why': how})
    return [ob]


NOT_APPLICABLE = {
    'C05': 'convergence of an iterative floating-point algorithm to 1e-6 of the optimum over its whole history: not a postcondition of any '
           'call that a contract can state without assuming the convergence theory; see DESIGN.md section 5',
}

LEDGER_NOTE = ('Assumes: Python int is Z; callbacks do not mutate solver objects or re-enter dfols and nsamples returns an int; NumPy/SciPy calls '
               'do not touch the integer counters; method calls resolve by name over the package classes; floats/arrays are havoc (so the proof '
               'holds for arbitrary residual values). Exceptions raised by library calls are outside the claim. The init.run_in_parallel=True branch of '
               'initialise_random_directions (batched evaluation through a Python list) is excluded by precondition and reported under C03/C04.')

MODEL_NOTE = ('Domain M: per-point data are z3 arrays of symbolic length; objective values are binary64 with NaN, with comparisons modelled exactly '
              '(total order on non-NaN values, every comparison with NaN false) and addition uninterpreted; vectors are opaque with uninterpreted sumsq / '
              'h∘U / matvec and the real vector-space identities (b+s)+(p-s) == b+p, b+0 == b (machine arithmetic treated as mathematical for vector '
              'arithmetic only). A-lib: np.argmin/np.where/np.append/.copy() semantics; arrays modelled by value, with freshness of stored snapshots as '
              'separate syntactic obligations. Callbacks (h) are deterministic and side-effect free.')

BOX_NOTE = ('Domain B: every array is its component at one generic index; + - comparisons minimum maximum abs are the IEEE-754 binary64 operations (z3/cvc5 '
            'FloatingPoint theory, portfolio). Products are abstracted (finite*finite is not NaN) and quotients are abstracted by three IEEE facts (t/t == 1, 0/y is a '
            'zero, x/finite-non-zero is NaN only if x is) — trusted IEEE lemmas, not bit-blasted. A-nan: the floating-point inputs named in the contracts (steps, base '
            'point, x0) are not NaN / are finite: stated, never discharged. Quantifier preconditions on solve: bounds NaN-free, lower <= upper, the box meets '
            '[-1e20, 1e20], and finite non-degenerate bounds under scaling (O2: the code checks the gap only on the scaled box). A-params: check_all_params returns '
            'True only inside the type/range table read from params.py. A-callback: projection callables and objfun do not mutate their arguments.')

PROPS = {
    'C01': {'bundles': ['box'], 'level': 'proof',
            'level_text': 'Exact IEEE-754 binary64, elementwise: the leaves (pbox, the x0 push, the two clips of as_absolute_coordinates/xpt, the clip after un-scaling) '
                          'put their result inside the box for every base point; the scaled box is exactly [0,1]; the transport obligations at the 11 call sites of '
                          'evaluate_objective, in solve_main (x0 block, returns), in the hard-restart loop and at the final un-scaling in solve make every objfun '
                          'argument and soln.x lie inside the caller\'s bounds; with projections the bound box is the last projector (closure applied symbolically).',
            'level_note': BOX_NOTE,
            'not_decided': ['NaN/inf steps (A-nan precondition on the argument of as_absolute_coordinates; numerics of the step solvers)']},
    'C12': {'bundles': ['trsbox', 'trclip', 'trsnorm', 'trsdec'], 'level': 'proof', 'design_ref': 'DESIGN.md section 10.14 (C12)',
            'level_text': 'Partial claim, four of the five clauses of the statement (the norm bound and the model decrease for the conjugate-gradient phase only). (1) "the returned gradient equals g + H d": loop invariants on the real loops of trsbox (gnew == g + H d in the conjugate-gradient '
                          'loop) and alt_trust_step (gnew - H d keeps its entry value through every rotation; hred == H applied to the step restricted to the free variables, across restarts of the boundary '
                          'iteration), for every H, g, box, radius, dimension and iteration count, in real arithmetic, for the step handed to the final clip. (2) "the step satisfies the box exactly": every return path of '
                          'both functions returns an output of d_within_bounds (ghost tag), and d_within_bounds returns sl - xopt <= d <= su - xopt componentwise in IEEE-754 arithmetic, with the coordinates recorded as '
                          'fixed exactly on their bounds. (3) "||d|| <= delta" for the conjugate-gradient phase of trsbox (bundle trsnorm, real arithmetic): with m the free set, sum of squares of the free part of d <= delsq and sum of squares of the fixed part == delta^2 - delsq are invariants of the real loop (a step is cut at BLEN, the positive root of ||d_free + t s||^2 == delsq: nonlinear real arithmetic on the real formula; the bound scan only shortens it; fixing a variable moves its square out of the free part and out of delsq), so the step handed to the final clip or to the boundary iteration has ||d|| <= delta. (4) "does not increase the quadratic model" for the conjugate-gradient phase (bundle trsdec): with Q(d) = g.d + 1/2 d.H d, the invariants Q(d) <= 0 and (unless the method restarts) "the previous direction is orthogonal to the reduced gradient and gredsq is its squared norm" hold on the real loop, so every step changes Q by t*s.gnew + 1/2 t^2 s.H s <= 0 and Q(d) <= Q(0) wherever the loop is left. NOT decided: that the rotations of alt_trust_step preserve the norm and decrease the model, and the Cauchy decrease.',
            'level_note': 'Domain Lc (bundle trsbox): floats are reals; vectors are formal linear combinations of atoms, so linearity of +, -, scaling, H.dot and masking v[xbdi == 0] is built in (they are linear maps on R^n), masking is '
                          'idempotent, vector equality is decided through a generic linear functional; scalars computed from dot products and square roots are unconstrained, so the identities hold for arbitrary step lengths and angles. '
                          'Domain B (bundle trclip): comparisons / minimum / maximum / mask stores exact in binary64; + and - abstracted by three trusted IEEE-754 lemmas (determinism, monotonicity of round-to-nearest subtraction in its '
                          'first operand, NaN only from NaN or inf-inf) because neither solver decides the bit-blasted comparison of two 53-bit subtractions (unknown after 150 s). Preconditions: the pure-Python path (use_fortran False), '
                          'the box contains the finite current point (asserted by trsbox on entry), the step handed to the clip is finite (A-nan). NOT decided: that the final clip leaves the step unchanged in real arithmetic '
                          '(so the gradient identity and the norm bound are about the step before the clip; they differ by rounding only), norm preservation in alt_trust_step, the two decrease clauses. Bundle trsnorm: dot products are bilinear by construction over the atoms, DOT(v, v) >= 0, sqrt(a)^2 == a; trusted facts about index sets: a masked sum loses exactly the i-th term when coordinate i leaves the free set, an element of a masked vector is the element or zero; the search direction is abstracted to one atom once its norm has been taken. Bundle trsdec: H symmetric (asserted by trsbox on entry), gnew == g + H d used as a definition at the loop head (proved in bundle trsbox), the dot products of the abstracted direction with the live vectors are kept as definitional equations.',
            'not_decided': ['||d|| <= delta*(1+1e-8) after the boundary iteration alt_trust_step (norm preservation of the rotations)', 'the quadratic model does not increase during the boundary iteration alt_trust_step', 'at least the Cauchy decrease', 'the final clip is the identity in real arithmetic (the gradient identity is stated for the step before it)']},
    'C13': {'bundles': ['vecs', 'trlin'], 'level': 'proof',
            'level_text': 'Partial claim: in ctrsbox_pgd / ctrsbox_sfista / ctrsbox_linear the trust-region ball is appended LAST to the projection list (closure recognised and tied to '
                          'util.pball\'s verified contract), Dykstra\'s result is an output of the last projector whenever a sweep ran, so every returned step has ||d|| <= Delta in real '
                          'arithmetic (loop invariant on the real loops); ctrsbox_geometry returns one of two such steps; in Controller.trust_region_step the regularised step handed back has '
                          'h(x) - m(d) >= 0 because the zero step is substituted otherwise and m(0) == h(x) (contract of model_value). ball_step (last move of the bound-constrained '
                          'geometry step): alpha >= 0 and, unless ||g|| < 1e-14, ||x0 + alpha*g|| == Delta exactly in real arithmetic (nonlinear obligation on the real body) - a necessary '
                          'piece of the optimality clause. trsbox_geometry / ctrsbox_geometry: the two candidates are the linear problem for g and for -g (on the box shifted to xbase), and the one with the larger '
                          '|c + g.s| is returned; trsbox_linear returns its full step only after its scan has covered every free coordinate (loop invariant; domain Cd with a set-valued list). The convex step solvers are entered only with a finite model gradient and Hessian (call-site obligation).',
            'level_note': 'Domain V: reals, opaque vectors with vector-space / norm axioms, exact projector contract for caller-supplied projections (A-callback). NOT decided: box/ball feasibility to 1e-12 '
                          'and GLOBAL OPTIMALITY to 1e-6 of trsbox_geometry / trsbox_linear (active-set loop, nonlinear invariants over symbolic dimension) and the (1+1e-8) rounding slack. '
                          'A-params sub-range: func_tol.max_iters >= 1 (0 is accepted by the parameter check and leaves a local unbound in ctrsbox_sfista).',
            'not_decided': ['trsbox_linear (active-set loop): feasibility on its other return paths and optimality of each candidate to 1e-6', 'floating-point slack (1+1e-8)']},
    'C14': {'bundles': ['box', 'ledger', 'coord', 'coordoff', 'dirlen'], 'level': 'proof',
            'level_text': 'Partial claim: (1) both random-direction generators clip every returned direction into [lower, upper] exactly (binary64, loop invariant over the final clipping loop '
                          'with a ghost column index: an off-by-one in that loop is refuted); (2) every initial point that is evaluated is produced by as_absolute_coordinates and therefore lies '
                          'inside the bounds exactly, and the first evaluation is the (pushed / projected) x0 (shared with C01); (3) exactly one point per direction is offered to the model with '
                          'all its samples (ledger obligations of the two initialisers); (4) coordinate initialisation (serial and batched, k <= 2n): every point handed to the objective moves exactly '
                          'one coordinate of x0 and, after the clip to the box, lies between 0.01*rhobeg and 2*rhobeg from x0 (real arithmetic, loop invariant over the scratch array of steps); '
                          '(4b) off-diagonal initial points (k > 2n, npt up to (n+1)(n+2)/2; bundle coordoff): every first-step row of the scratch array still holds a step of size exactly rhobeg when an off-diagonal point copies it (an exchange with the second-step row is only possible for a coordinate at neither bound and brings in -rhobeg, never the 2*rhobeg step: loop invariant on the real loop, the guard stepa*stepb < 0 included), so each such point moves at most two coordinates, each by a clipped step in [0.01, 1]*rhobeg; '
                          '(5) both generators return exactly num_pts directions, get_scale is in [0, delta], every direction of random_directions_within_bounds is at most delta long and every '
                          'direction of random_orthog_directions_within_bounds at most delta, except the extra active-constraint directions (2*delta: refuted, known finding D17; the 2*delta envelope is proved).',
            'level_note': BOX_NOTE + ' Clauses (4) and (5) are over the reals (domains Cd / Vd): 0.01*delta, 2.0*delta and vector norms are exact; the library facts about norms (entry of a zero vector, '
                          'v/||v||, Q factor of qr, clipping to a box containing 0) are assumed and listed. Preconditions sl <= 0 <= su, gap >= 2*rhobeg (4) and lower <= 0 <= upper (5) are assumed clauses '
                          '(C01 and the input check of solve). NOT decided: affine independence and the condition number < 1e4 (numerical linear algebra), the projections branch of the coordinate initialiser '
                          '(random QR directions).',
            'not_decided': ['affine independence / condition number', 'projections branch of initialise_coordinate_directions']},
    'C15': {'bundles': ['vecs', 'box'], 'steps': [lean_step], 'level': 'proof',
            'level_text': 'dykstra is verified on its real body in two domains. Real vectors: sweeps <= max_iter; the stop quantity equals the sum of squared moves of the sweep (ghost sequence), '
                          'every sub-iterate lies in its set, hence "stopped by the rule" gives exactly the hypothesis of lemma L1, whose conclusion ||x_p - x_i|| <= sqrt(p*tol) is proved in Lean 4 '
                          '+ Mathlib; a point inside all sets is returned unchanged; the result is an output of the last projector. Binary64: with the box last, the result lies in the box exactly.',
            'level_note': 'Domain V (reals, opaque vectors, exact-projector contract) + domain B (binary64) + Lean lemma L1 (axioms propext, Classical.choice, Quot.sound). Trusted: L0 (the ghost sum reads '
                          'xs[0..k] only; elementary induction) and the 10-line correspondence between the SMT postcondition and the hypothesis of L1 (by inspection). NOT decided: "within 1e-3 of the '
                          'true projection" — a rate statement that the stop rule does not imply. "Unchanged" is exact in real arithmetic; pball rounds c + 1.0*(x - c) in floating point.',
            'not_decided': ['within 1e-3 of the true projection onto the intersection']},
    'C09': {'bundles': ['box', 'vecs'], 'steps': [lean_step], 'level': 'proof',
            'level_text': 'Partial claim: with projections every evaluated point is (a ghost-tagged) output of util.dykstra; solve appends the bound box last, so that '
                          'output lies in the box exactly whenever at least one sweep ran (dykstra.max_iters >= 1 from the parameter table); x0 is replaced by its '
                          'projection before the first evaluation.',
            'level_note': BOX_NOTE + ' The clause "within sqrt(p*tol) of every set when the stop rule fired" is the real-vector contract of dykstra (bundle vecs: stopped by the rule => '
                          'hypothesis of L1) plus Lean lemma L1; the correspondence between the two is by inspection.',
            'not_decided': []},
    'C02': {'bundles': ['ledger'], 'level': 'proof',
            'level_text': 'Every objfun call goes through one contract-verified choke point; a ghost ledger (calls, points, budget) is proved '
                          'equal to nf/nx and bounded by maxfun at every loop head, call site and return of evaluate_objective, eight Controller '
                          'methods, solve_main (x0 block + main loop) and the hard-restart loop of solve, for all inputs, iterations and restart histories '
                          '(loops by invariant, calls by contract, linear integer arithmetic).',
            'level_note': LEDGER_NOTE},
    'C03': {'bundles': ['ledger', 'model'], 'level': 'proof',
            'level_text': 'Two layers. Model (domain M): every mutator keeps whole records (point, residual, objective, sample count, evaluation number) '
                          'together and get_final_results returns one whole record or the whole saved slot, for any state satisfying the class invariant. '
                          'Call sites (domain L with opaque values): at each of the ~30 change_point/add_new_point/add_new_sample/save_point call sites the '
                          'arguments are proved to be the point just evaluated, its first / i-th / mean residual and its point number; the returned tuple is '
                          'followed through solve_main and the hard-restart merge of solve into the OptimResults fields.',
            'level_note': LEDGER_NOTE + ' ' + MODEL_NOTE + ' The equality soln.x == evaluated x is in real arithmetic (as the property says: up to rounding of the '
                          'base-point arithmetic). With projections the main loop stores the pre-projection step, so the absolute point is recomputed by the identical Dykstra call; the two initialisers '
                          'store the projected point minus the base, which is projected again when read back: refuted, known finding D24 (the former assumption N4 was false).',
            'not_decided': ['init.run_in_parallel=True (known finding D6/D23)', 'initial points under projections (known finding D24)']},
    'C04': {'bundles': ['ledger', 'model', 'vecs'], 'level': 'proof',
            'level_text': 'Callers (no floats): a ghost flag "an evaluated point has not been offered to the model yet" is proved false at every loop back-edge, '
                          'break and return of solve_main and of eight Controller methods (except the deliberate NaN exit). Model: change_point / add_new_point / '
                          'add_new_sample / save_point / get_final_results keep the NaN-aware best-so-far relations. (ii) Call-site obligation at every '
                          'change_point / geometry_step: the incumbent record is overwritten only on the ratio > 0 path or after it was offered to the saved slot; every other '
                          'replacement targets a new slot (initialisers, growing) or a slot chosen with skip_kopt (contract of choose_point_to_replace).',
            'level_note': LEDGER_NOTE + ' ' + MODEL_NOTE + ' Numeric assumptions, stated at their call sites and never discharged: A-N1 prime (when check_and_fix_geometry picks the incumbent itself the geometry step re-evaluates '
                          'the incumbent\'s own point: same value for a deterministic objective; a ghost licence, no state is pruned), A-N2 (argsort yields distinct slots with the incumbent first: soft_restart, move_furthest_points[_momentum]), '
                          'N-ratio (ratio > 0 means the trial point improves on the incumbent). The merge objmin2 < objmin across hard restarts is a float comparison outside domain L.',
            'not_decided': ['A-N1 prime, A-N2, N-ratio (numeric)', 'init.run_in_parallel=True (known finding D6/D23)']},
    'C08': {'bundles': ['ledger', 'model', 'vecs'], 'level': 'proof',
            'level_text': 'Partial claim: (i) budget/counter proofs hold for arbitrary returned values (residuals are havoc in domain L); (ii) NaN never displaces a '
                          'finite stored/saved value in Model (exact NaN semantics); (iii) the NaN-at-trial-step exit is flagged EXIT_EVAL_ERROR; (v) no try body '
                          'reaches objfun, so its exceptions unwind unchanged.',
            'level_note': LEDGER_NOTE + ' ' + MODEL_NOTE + ' NOT decided: "terminates without raising" for every fault position (totality of LAPACK/NumPy on non-finite '
                          'data) and "returns a finite x".',
            'not_decided': ['never raises (library totality)', 'returns a finite x']},
    'C11': {'bundles': ['ledger', 'model', 'svdfloor'], 'level': 'proof',
            'level_text': 'Partial claim: the pair (Jacobian, evaluation numbers) is written together by the fit, copied together into the saved slot, returned together '
                          'by get_final_results, kept together through solve_main and the hard-restart merge, and un-scaled column by column exactly once; the '
                          'evaluation-number snapshot is a fresh copy.',
            'level_note': LEDGER_NOTE + ' ' + MODEL_NOTE + ' ASSUMED, not proved: solve_geom_system returns the interpolant / least-squares fit (LAPACK QR and triangular '
                          'solves are opaque), hence "equals A for linear residuals" is a consequence of an assumption.',
            'not_decided': ['the matrix equals the fit (LAPACK)']},
    'C16': {'bundles': ['model', 'precond', 'svdfloor'], 'level': 'proof',
            'level_text': 'Partial claim: (i) base-shift invariance — shift_base leaves every absolute point, the model value at every fixed absolute point, the residual vector '
                          'assembled by build_full_model (hence g and H) and the Jacobian unchanged (real vector arithmetic, linear matvec); (ii) the cached factorisation is never stale: '
                          'a ghost geometry version is bumped by every point-set mutator and factorisation_current implies the cached version is the current one (class invariant), so a '
                          'missing "factorisation_current = False" is a refuted class invariant; (iii) build_full_model returns g = 2 J^T r, H = 2 J^T J; (iv) preconditioning consistency: '
                          'interpolation_matrix returns [1 | directions / s] together with right_scaling = (1, 1/s, ..., 1/s) for the same s, and s == 1 when preconditioning is off, so the '
                          'un-scaled solution solves the unscaled interpolation system under both settings of the option; (v) the full-rank completion (growing phase) applies a floor to the singular values '
                          'that does not exceed the smallest genuine one unless a safety floor binds, so the interpolated data are kept.',
            'level_note': MODEL_NOTE + ' NOT decided: reproduction of the data by the fit, least-squares orthogonality, L_k(y_j) = delta_kj — these are statements about LAPACK QR / triangular '
                          'solves (solve_geom_system), which are opaque here; clause (iv) is in domain Sc (matrices as opaque terms, scalars real); add_new_sample can move kopt without clearing the flag (O5, unreachable from solve).',
            'not_decided': ['data reproduction / least-squares orthogonality / Lagrange identities (LAPACK QR and triangular solves are opaque)']},
    'C17': {'bundles': ['model'], 'level': 'proof',
            'level_text': 'The bookkeeping statement is a class invariant of Model, established by __init__ and preserved by each of the seven mutators from any state '
                          'satisfying it (induction over all operation histories), with full-view postconditions (every other record unchanged) and exact NaN semantics.',
            'level_note': MODEL_NOTE + ' The running mean is stated as wavg(n/(n+1), old mean, new sample) — the identity with the arithmetic mean is real arithmetic.',
            'not_decided': []},
    'C18': {'bundles': ['radii', 'table', 'ledger'], 'level': 'proof',
            'level_text': 'Radii: 0 < rho <= delta, rho <= rhobeg, rescaled rhoend <= rho, delta <= 1e10 are a class invariant of Controller, proved at all radius writes '
                          '(Controller.__init__, reduce_rho, check_and_fix_geometry, soft_restart, and the reset / safety / ratio blocks of solve_main) in real arithmetic, with '
                          'the local rhoend of solve_main proved equal to the controller\'s rescaled one; rho is non-increasing except at restarts and the documented reset. '
                          'Table: DiagnosticInfo keeps 23 documented columns of equal length, one row per save_info_from_control, iters_total[i] == i, update_* need an existing row '
                          '(call order proved on every path of solve_main); recorded nf/nx/nruns are the ledger counters.',
            'level_note': ('Domain Rd: real scalars (machine arithmetic treated as mathematical), sqrt axiomatised, norms non-negative, params inside the range table read from '
                           'params.py (A-params). The cap delta <= 1e10 is claimed for h is None and under the quantifier assumption 1.5*rhobeg <= 1e10; the clause rhoend <= rho is claimed '
                           'while the rescaled rhoend does not exceed rhobeg (O9); restarts.rhoend_scale > 0 is a stated sub-range (O11). Frames of methods without contract are '
                           'syntactic and name-based. ') + LEDGER_NOTE,
            'not_decided': ['delta <= 1e10 with a regulariser (tau has no positive lower bound)', 'recorded best objective never increases (follows from C04, not re-proved here)',
                            'number of interpolation points between 2 and the maximum']},
    'C06': {'bundles': ['passthru', 'box', 'owner', 'ledger', 'vecs'], 'level': 'proof',
            'level_text': 'Narrow claim. (i) Pass-through: at every call of h (17 sites) and of prox_uh (in the nested gradient_Fu) the call has the shape h(x, *argsh) / prox_uh(x, u, *argsprox) '
                          'with exactly the tuples the caller gave to solve (ghost tokens followed through solve -> solve_main -> Controller -> Model / model_value / ctrsbox_sfista, constructor and '
                          'keyword bindings included), and the starred calls conform for tuples of any length. (ii) True box: every projector handed to the regularised subproblem returns the absolute '
                          'incumbent unchanged (binary64). (iii) Coordinate-space typing inside ctrsbox_sfista (scaled vs caller\'s coordinates).',
            'level_note': 'Pass-through is a data-flow proof over opaque tokens (domain L), (ii) is in exact binary64 (domain B), (iii) is a tag discipline. NOT decided: "within 1e-3*(1+F*) of the optimum and '
                          'success" — convergence of an iterative floating-point method; no per-call contract expresses it. ' + BOX_NOTE,
            'not_decided': ['convergence to the regularised optimum', 'success flag']},
    'C07': {'bundles': ['inputs', 'paramcheck', 'strtot'], 'level': 'proof',
            'level_text': 'The prologue of solve is executed symbolically (real scalars, parameter table, symbolic user_params dict): for each of 15 listed kinds of invalid value no path '
                          'reaches the first evaluation, and the early return is the input-error result (flag, nf == 0, non-empty message, constructor call conformance); '
                          'check_float / check_integer / check_bool are verified against their specification for every value incl. NaN and None (binary64 / Z); ParameterList.__call__ '
                          'raises ValueError exactly for an unknown key or a second update, and no literal-key update in solve / solve_main can be a second update; the nine documented '
                          'exit-code constants are on the result; every ExitInformation site uses a documented code with a stem and a non-empty message; all 400+ resolved intra-package '
                          'calls conform to their callee\'s signature (syntactic). Exception frame: the only raise statements of the package are ValueError in ParameterList.__call__ and LinAlgError under interpolation.throw_error_on_nans (syntactic, whole package).',
            'level_note': 'Domain Rd + ParamsMixin: reals for rhobeg/rhoend/lh, Z for npt/maxfun/n; np.min(xu - xl) is a ghost real; A-params: check_all_params returns True only inside '
                          'the range table (its shape and the three check_* functions are verified in the paramcheck bundle). Argument TYPES are as documented (ndarrays, numbers, callables); '
                          'a bool given for an int parameter is accepted by check_integer (bool is an int in Python) and not counted as wrongly typed. A-exc: exceptions raised by NumPy on '
                          'malformed arrays (wrong shapes) are outside the claim. NOT decided: printing (str) totality as its own obligation; "never raises" after the prologue (C08).',
            'not_decided': []},
    'C19': {'bundles': ['owner', 'ledger', 'paramcheck'], 'level': 'proof',
            'level_text': '(a) Ownership: solve is executed with flow- and path-sensitive tags (borrowed / fresh); no in-place write (element, slice or mask store, augmented assignment, '
                          'mutating method) reaches a possibly-borrowed object and every mutable array handed to the rest of the package is fresh; no function of the package writes to a '
                          'projection list it received. (b) Determinism: np.random is used only in three source functions; the two direction generators are called only from five sites, '
                          'and each of those calls is proved to lie under its documented random option (init.random_initial_directions, regression.momentum_extra_steps, '
                          'restarts.increase_npt, growing.perturb_trust_region_step / the growing phase).',
            'level_note': 'Domain O: NumPy allocation/view rules as listed in pyvc/domains/own.py (A-lib); the caller\'s own callables are outside the claim (A-callback). For (b): '
                          'the link "the main loop is in the growing phase only if growing.ndirs_initial < npt-1 (or restarts enlarge the set)" is NOT decided (numeric assumption N5), and '
                          'with projections the rank-deficiency fallback of the coordinate initialisation draws random numbers unconditionally (used only if the projected directions are '
                          'rank deficient): with projections the clause is not decided. ' + LEDGER_NOTE,
            'not_decided': ['projections: rank-deficiency fallback (path-sensitive taint not built)', 'growing-phase link N5 under projections (decided without projections: ledger invariant)']},
    'C20': {'bundles': ['jsonrt', 'strtot'], 'level': 'proof',
            'level_text': 'Field-wise: to_dict writes exactly the 12 fields, each with the documented encoding (contract on the real body); from_dict decodes each key into the '
                          'field of the same name through the real constructor (call conformance, parameter order); 24 round-trip lemmas DEC_f(json(ENC_f(v))) == norm_f(v) over '
                          'the library axioms, for replace_nan on and off; replace_nan_with_none by structural induction on its real body; every non-table value is plain / strict JSON.',
            'level_note': 'Domain J: values are terms over uninterpreted library symbols; the round-trip axioms of tolist / np.array(dtype=) / float / int / str / json / pandas are ASSUMED '
                          '(A-lib) and differentially tested in the thorough tier. "Diagnostic table exactly" is read as: same columns and cell values in order; index labels become strings '
                          '(JSON object keys). str() equality is a consequence of field-wise equality because __str__ reads only those fields (and formats them with %-operators) — not a separate '
                          'obligation. Without NaN replacement a NaN objective travels as the non-strict literal NaN.',
            'not_decided': ['str(original) == str(reloaded) as its own obligation (it follows from field-wise equality; totality of str() IS an obligation, bundle strtot)', 'pandas / json axioms (assumed)']},
    'C10': {'bundles': ['ledger', 'radii', 'model'], 'level': 'proof',
            'level_text': 'One obligation per exit site: MAXFUN flag implies nf == maxfun, the max-restarts message implies that many runs, '
                          'nruns == restarts + 1 via a ghost restart counter checked at every break/continue/return of solve_main and solve.',
            'level_note': LEDGER_NOTE + ' (b) "rho has reached rhoend" => rho == rescaled rhoend is proved in domain Rd (real scalars) at both message sites. (a) "sufficiently small" is a '
                          'composition argued in DESIGN.md from proved pieces (the flagged point is offered to save_point; save_point/get_final_results keep the NaN-aware minimum; no restart '
                          'follows that message), not a single SMT obligation. (f) is refuted at the two max-restarts SUCCESS sites (known finding, native witness); at the other SUCCESS sites it '
                          'rests on numeric assumption N3.',
            'not_decided': ['(a) as one obligation', '(f) at the rho-reached-rhoend / noise-level sites (N3)']},
}
