"""Which bundles (domain + contracts) decide which property, plus the per-property notes that go into MANIFEST / evidence."""

SETUP_CMD = "mkdir -p evidence replays && python3-vt -c 'import z3; print(z3.get_version_string())' && /usr/bin/cvc5 --version | head -1"
NOTES = ("Contract-based deductive verification with an own VC generator (pyvc); see DESIGN.md. Exit codes of ./check: 0 held, "
         "1 violation (VIOLATION line), 2 undecided, 3 checker error / soundness guard.")

NOT_APPLICABLE = {
    'C05': 'convergence of an iterative floating-point algorithm to 1e-6 of the optimum over its whole history: not a postcondition of any '
           'call that a contract can state without assuming the convergence theory; see DESIGN.md section 5',
    'C12': 'truncated CG with active-set restarts and a trigonometric 2-D search in floating point over symbolic dimension: the inductive '
           'invariants are nonlinear and beyond z3/cvc5; only the final clip (proved under C01) is within reach; see DESIGN.md section 5',
}

LEDGER_NOTE = ('Assumes: Python int is Z; callbacks do not mutate solver objects or re-enter dfols and nsamples returns an int; NumPy/SciPy calls '
               'do not touch the integer counters; method calls resolve by name over the package classes; floats/arrays are havoc (so the proof '
               'holds for arbitrary residual values). Exceptions raised by library calls are outside the claim. The init.run_in_parallel=True branch of '
               'initialise_random_directions (batched evaluation through a Python list) is excluded by precondition and reported under C03/C04.')

PROPS = {
    'C02': {'bundles': ['ledger'], 'level': 'proof',
            'level_text': 'Every objfun call goes through one contract-verified choke point; a ghost ledger (calls, points, budget) is proved '
                          'equal to nf/nx and bounded by maxfun at every loop head, call site and return of evaluate_objective, eight Controller '
                          'methods, solve_main (x0 block + main loop) and the hard-restart loop of solve, for all inputs, iterations and restart histories '
                          '(loops by invariant, calls by contract, linear integer arithmetic).',
            'level_note': LEDGER_NOTE},
    'C10': {'bundles': ['ledger'], 'level': 'proof',
            'level_text': 'One obligation per exit site: MAXFUN flag implies nf == maxfun, the max-restarts message implies that many runs, '
                          'nruns == restarts + 1 via a ghost restart counter checked at every break/continue/return of solve_main and solve.',
            'level_note': LEDGER_NOTE + ' Clauses (a) sufficiently small, (b) rho == rhoend and (f) finite objective are decided in the model / radii bundles.',
            'not_decided': []},
}
