"""Sidecar contracts, domain Cd (real scalars and real arrays by element).  Serves C14, first sentence, distance clause for the OFF-DIAGONAL initial points (npt > 2n+1):

  point k > 2n of the coordinate initialisation is the sum of the FIRST-step rows of two coordinates p, q (copied entry by entry), so it is between 0.01*rhobeg and
  2*rhobeg from x0 only if every first-step row (rows 1..n of the scratch array) still holds a step of size exactly rhobeg when it is read.  Rows 1..n are written once
  (+rhobeg, or -rhobeg at an upper bound) and may later be EXCHANGED with the second-step row of the same coordinate; the invariant below says that such an exchange only
  ever brings in a -rhobeg step of a coordinate that is at neither bound (the exchange is guarded by stepa * stepb < 0: the two steps point in opposite directions),
  never the 2*rhobeg step taken next to a bound.  The site obligation then bounds the distance after the clip of as_absolute_coordinates (nonlinear real arithmetic)."""
from pyvc.core import Opt, isnum
from pyvc.domains.coord import CoordDomain


class Dom(CoordDomain):
    def binop(self, op, a, b, st, node=None):
        # arithmetic on a value that is None on OTHER paths (stepa / stepb are None in the branches that do not use them): Python would raise on None; on the paths that
        # reach the operation the value is the number
        if isinstance(a, Opt) and isnum(a.val):
            a = a.val
        if isinstance(b, Opt) and isnum(b.val):
            b = b.val
        return CoordDomain.binop(self, op, a, b, st, node)


def build(repo):
    D = Dom(repo)
    D.ghost_shapes = {}
    D.field_shapes[('Model', 'num_pts')] = 'int'      # read by the function's own asserts: num_directions < npt <= (n+1)(n+2)/2
    D.predicate('inband', ['e', 'd'], '(0.01 * d <= e and e <= d) or (-d <= e and e <= -0.01 * d)')
    D.predicate('firstrow', ['a', 'r', 'c', 'up', 'lo', 'k'],
                '(a[r, r - 1] == -c.delta if up[r - 1] else (a[r, r - 1] == c.delta or (a[r, r - 1] == -c.delta and not lo[r - 1] and r + ndim() < k)))')
    D.predicate('firstzero', ['a', 'r'], 'forall(j, 0, ndim(), j == r - 1 or a[r, j] == 0)')
    ROWS = ('first-step rows: row r (1 <= r <= n, r < k) moves coordinate r-1 only, by +rhobeg (-rhobeg at an upper bound), or by -rhobeg after an exchange with the second-step row of a '
            'coordinate that is at neither bound:: forall(r, 1, min(i_, ndim() + 1), firstrow(xpts_added, r, self, at_upper_boundary, at_lower_boundary, i_))', 'C14')
    ROWZ = ('first-step rows move one coordinate only:: forall(r, 1, min(i_, ndim() + 1), firstzero(xpts_added, r))', 'C14')
    HINT = ('instance of the invariant above at the row a second step may exchange with (row k - n):: implies(i_ > ndim() and i_ <= 2 * ndim(), '
            'firstrow(xpts_added, i_ - ndim(), self, at_upper_boundary, at_lower_boundary, i_))', 'C14')
    ZERO = ('rows not yet visited are zero rows:: forall(r, i_, num_directions + 1, zerorow(xpts_added, r))', 'C14')
    SITE = ('(C14 i) an off-diagonal point (k > 2n) moves at most two coordinates of x0, each by a first step that the clip to [sl, su] leaves between 0.01*rhobeg and rhobeg, so the point is '
            'between 0.01*rhobeg and 2*rhobeg from x0:: implies(k > 2 * ndim(), 1 <= p and p <= ndim() and 1 <= q and q <= ndim() and '
            'forall(j, 0, ndim(), j == p - 1 or j == q - 1 or xpts_added[k, j] == 0) and '
            'inband(clipstep(xpts_added[k, p - 1], self.model.sl[p - 1], self.model.su[p - 1]), self.delta) and '
            'inband(clipstep(xpts_added[k, q - 1], self.model.sl[q - 1], self.model.su[q - 1]), self.delta))', 'C14')
    D.contract('Model.as_absolute_coordinates', tags=['C14'], params={'x': 'rvec'}, modifies=[], result='rvec', ensures=[], assumed=True,
               notes='the clip to the box is proved in bundle box (C01); here only what is passed in matters')
    D.contract('Controller.evaluate_objective', tags=['C14'], params={'number_of_samples': 'int'}, modifies=['self.nf', 'self.nx'],
               result=('unk', 'unk', 'int', 'optexit'), ensures=[], assumed=True, notes='ledger effects are proved in bundle ledger; no radius or bound is written')
    D.contract('Controller.initialise_coordinate_directions', tags=['C14'], params={'number_of_samples': 'int', 'num_directions': 'int'},
               requires=['self.delta > 0', 'num_directions >= 1',
                         'A-pre (C01: x0 has been projected into the box, so sl = xl - x0 <= 0 <= su = xu - x0; solve rejects a gap below 2*rhobeg, proved in bundle inputs):: '
                         'forall(j, 0, ndim(), self.model.sl[j] <= 0 and 0 <= self.model.su[j] and self.model.su[j] - self.model.sl[j] >= 2.0 * self.delta)'],
               modifies=['self.nf', 'self.nx', 'self.model.*'], result='optexit',
               loops={'for:k#3': [ZERO, ROWZ, ROWS, HINT]},
               asserts={'before:Model.as_absolute_coordinates#4': [SITE]},
               ensures=[])
    D.verify_list = ['Controller.initialise_coordinate_directions']
    return D
