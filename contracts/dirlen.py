"""Sidecar contracts, domain Vd (real vectors as columns).  Serves C14, second sentence: the random-direction generators return the requested NUMBER of
directions, each NO LONGER than the requested length (the in-bounds part is proved in binary64 in bundle box).

get_scale:            0 <= result <= delta                                   (loop invariant over the entries; needs lower <= 0 <= upper)
random_directions_within_bounds:        num_pts rows, every row has ||row|| <= delta
random_orthog_directions_within_bounds: num_pts rows; ||row|| <= delta for every row EXCEPT the "extra directions for active constraints" (rows n+ninactive .. 2n-1
                                        with with_neg_dirns), which the code builds with length 2*delta: for those the property's clause is refuted (known finding D17)
                                        and the weaker envelope ||row|| <= 2*delta is proved instead.
The invariant of every filling loop is the same: columns from the current write position on are still zero vectors, and every column obeys its envelope."""
from pyvc.domains.dirs import DirDomain

PRE = ('A-pre (callers pass lower = sl - xopt <= 0 <= su - xopt = upper exactly, xopt being a point of the box: C01/C17; the function\'s own asserts allow a slack of 1e-15, '
       'under which a negative scale is possible):: BOX0(lower, upper)')


def build(repo):
    D = DirDomain(repo)
    D.ghost_shapes = {}
    T = ['C14']
    D.contract('get_scale', tags=T, params={'dirn': 'V', 'delta': 'real', 'lower': 'V', 'upper': 'V'},
               requires=['delta > 0', PRE], modifies=[], result='real',
               loops={'for:j#0': ['0 <= scale and scale <= delta']},
               ensures=['the scale never exceeds the requested length and is never negative:: 0 <= result and result <= delta'])
    # ---------------------------------------------------------------- fully random directions
    ENV1 = 'forall(c, 0, num_pts, norm(col(results, c)) <= delta)'
    D.contract('random_directions_within_bounds', tags=T, params={'num_pts': 'int', 'delta': 'real', 'lower': 'V', 'upper': 'V'},
               requires=[PRE], modifies=[], result='rowsT',
               loops={'for:i#0': ['ncols(results) == num_pts', 'every column obeys the length envelope:: ' + ENV1],
                      'for:j#0': ['norm(dirn) > 0'],
                      'for:i#1': ['ncols(results) == num_pts', 'every column obeys the length envelope:: ' + ENV1]},
               ensures=['(C14 count) exactly the requested number of directions is returned:: nrows(result) == num_pts',
                        '(C14 length) no returned direction is longer than the requested length (real arithmetic):: forall(c, 0, num_pts, norm(row(result, c)) <= delta)'])
    # ---------------------------------------------------------------- orthogonal star first
    # envelope of column c: 2*delta for the extra active-constraint directions, delta everywhere else
    BND = 'ite(with_neg_dirns and ndim() + ninactive <= c and c < 2 * ndim(), 2.0 * delta, delta)'
    ENV = 'every column obeys its length envelope (2*delta for the extra active-constraint directions, delta otherwise):: forall(c, 0, ncols(results), norm(col(results, c)) <= %s)' % BND
    SHAPE = 'ncols(results) == max(2 * ndim() if with_neg_dirns else ndim(), num_pts) and nactive >= 0 and ninactive >= 0 and nactive + ninactive == ndim() and n == ndim() and delta > 0 and num_pts > 0'

    def zero_from(pos):
        return 'columns from the write position on are still zero:: forall(c, %s, ncols(results), col(results, c) == zerov)' % pos
    QN = 'the embedded Q factor has columns of length 1 (whenever there is an inactive variable):: implies(ninactive > 0, forall(c, 0, ninactive, norm(col(Q, c)) == 1))'
    D.contract('random_orthog_directions_within_bounds', tags=T,
               params={'num_pts': 'int', 'delta': 'real', 'lower': 'V', 'upper': 'V', 'with_neg_dirns': 'bool'},
               requires=[PRE], modifies=[], result='rowsT',
               loops={'for:i#0': [SHAPE, ENV, zero_from('i_'), QN],
                      'for:i#1': [SHAPE, ENV, zero_from('ninactive + i_')],
                      'for:i#2': [SHAPE, ENV, zero_from('ndim() + i_'), 'with_neg_dirns', QN],
                      'for:i#3': [SHAPE, ENV, zero_from('ndim() + ninactive + i_'), 'with_neg_dirns'],
                      'for:i#4': [SHAPE, ENV, zero_from('(2 * ndim() if with_neg_dirns else ndim()) + i_')],
                      'for:j#0': ['norm(dirn) > 0'],
                      'for:i#5': [SHAPE, ENV]},
               ensures=['(C14 count) exactly the requested number of directions is returned:: nrows(result) == num_pts',
                        '(C14 length) no returned direction is longer than the requested length (real arithmetic):: forall(c, 0, num_pts, norm(row(result, c)) <= delta)',
                        '(C14 length, weaker envelope that the code does keep) the extra active-constraint directions are at most 2*delta long, every other direction at most delta:: '
                        'forall(c, 0, num_pts, norm(row(result, c)) <= 2.0 * delta)'])
    D.verify_list = ['get_scale', 'random_directions_within_bounds', 'random_orthog_directions_within_bounds']
    return D
