"""Sidecar contracts, domain Lc with scalar facts and a symmetric H.  Serves C12, clause "the step does not increase the quadratic model" for the conjugate-gradient phase of trsbox.

With Q(d) = g.d + 1/2 d.H d (so Q(0) = 0) the invariants of the real loop are
  (Q)   Q(d) <= 0
  (O)   beta == 0  or  ( s_free . gnew_free == 0  and  gredsq == ||gnew_free||^2 )          (the previous search direction is orthogonal to the new reduced gradient)
so that the new direction s = beta*s - gnew_free has s.gnew = -gredsq, a step t <= gredsq / (s.H s) (or any t when s.H s <= 0) changes Q by t*s.gnew + 1/2 t^2 s.H s <= 0, and an exact
step (t == gredsq / s.H s: not cut by the ball or a bound) makes s orthogonal to the next gradient.  gnew == g + H d is used as a DEFINITION at the loop head: it is an invariant proved in
bundle trsbox.  H is symmetric (trsbox asserts np.allclose(H, H.T))."""
from pyvc.domains.lincomb import LinCombDomain

T = ['C12']


def build(repo):
    D = LinCombDomain(repo, scalar_facts=True, h_symmetric=True, abstract_at_sumsq=True, transfer_dots=True,
                      loop_defs={('trsbox', 'for:ii#0'): [('gnew', 'g + H.dot(d)')]})
    D.assumptions += ['A-lin (proved in bundle trsbox): gnew == g + H d at the head of the conjugate-gradient loop, used here as a definition',
                      'A-pre: H is symmetric (asserted on entry of trsbox), so x.(H y) == (H x).y']
    D.ghost_shapes = {}
    VP = {'xopt': 'lc', 'g': 'lc', 'H': 'mat', 'sl': 'lc', 'su': 'lc', 'd': 'lc', 'gnew': 'lc', 'xbdi': 'xbdi', 'delta': 'real', 'qred': 'real', 'n': 'int', 'nact': 'int',
          'use_fortran': 'bool'}
    D.contract('d_within_bounds', tags=T, params={k: VP[k] for k in ('d', 'xopt', 'sl', 'su', 'xbdi')}, modifies=[], result='lc', ensures=[], assumed=True,
               notes='the final clip (bundle trclip); here the clauses speak about the step handed to it')
    D.contract('alt_trust_step', tags=T, params={k: VP[k] for k in ('n', 'xopt', 'H', 'sl', 'su', 'd', 'xbdi', 'nact', 'gnew', 'qred')},
               requires=[], modifies=[], result=('lc', 'lc'), ensures=[], assumed=True, notes='boundary iteration: its decrease is a separate (not decided) clause')
    QV = 'DOT(g, d) + 0.5 * DOT(d, H.dot(d))'
    IQ = ('(Q) the quadratic model at the current step is not above its value at the zero step:: ' + QV + ' <= 0', 'C12')
    IO = ('(O) unless the method restarts (beta == 0) the previous direction is orthogonal to the reduced gradient and gredsq is its squared norm:: '
          'beta == 0.0 or (DOT(s[xbdi == 0], gnew[xbdi == 0]) == 0 and gredsq == sumsq(gnew[xbdi == 0]))', 'C12')
    D.contract('trsbox', tags=T, params={k: VP[k] for k in ('xopt', 'g', 'H', 'sl', 'su', 'delta', 'use_fortran')},
               requires=['the pure-Python path (the Fortran extension is not built here):: not use_fortran', 'delta > 0'],
               modifies=[], result=None, dead_under=['use_fortran'],
               loops={'for:ii#0': [IQ, IO], 'for:i#0': [('the bound scan only shortens the step:: stplen <= blen and (shs <= 0.0 or stplen <= gredsq / shs)', 'C12'),
                                  ('a step that no bound has cut is the full conjugate-gradient step or the step to the ball:: not isnone(iact) or stplen == (blen if shs <= 0.0 else min(blen, gredsq / shs))', 'C12')]},
               asserts={'after:qred': [('lemma (right after the step has been taken): the quadratic model at the new step is not above its value at the zero step:: ' + QV + ' <= 0', 'C12')],
                        'after:delsq': [('lemma (after a variable has been fixed at its bound): the quadratic model at the current step is not above its value at the zero step:: ' + QV + ' <= 0', 'C12')],
                        'break@for:ii#0': [('(C12) wherever the conjugate-gradient loop is left, the step does not increase the quadratic model: Q(d) <= Q(0) (the return statements follow the loop directly; '
                                            'leaving by exhaustion is covered by invariant (Q)):: ' + QV + ' <= 0', 'C12')]},
               ensures=[])
    D.verify_list = ['trsbox']
    return D
