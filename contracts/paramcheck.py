"""Sidecar contracts, bundle `paramcheck` (domain B: exact binary64 for float parameters, Z for integer ones).  Serves C07: the type/range predicates behind
"out-of-range or wrongly typed user parameters yield the input-error flag" — check_float / check_integer / check_bool are verified against their
specification for every value including NaN and None; ParamsMixin.params_check_all (the derived contract of check_all_params used by the other bundles)
rests on exactly these facts."""
import ast, z3
from pyvc.core import *
from pyvc.domains.box import BoxDomain, F, isnan

ISFLOAT = z3.Function('ISFLOAT', z3.IntSort(), z3.BoolSort())   # type tags of the checked value (identified by a token)
ISINT = z3.Function('ISINT', z3.IntSort(), z3.BoolSort())
ISBOOL = z3.Function('ISBOOL', z3.IntSort(), z3.BoolSort())


class Dom(BoxDomain):
    portfolio = True

    def __init__(self, repo):
        BoxDomain.__init__(self, repo)
        self.builtins['isinstance'] = self.b_isinstance

    def b_isinstance(self, eng, node, args, kw, st):
        ty = node.args[1].id if len(node.args) > 1 and isinstance(node.args[1], ast.Name) else None
        tok = st.env.get('tok_')
        if ty == 'float':
            return ISFLOAT(tok)
        if ty == 'int':
            return ISINT(tok)
        if ty == 'bool':
            return ISBOOL(tok)
        return UNK

    def spec_call(self, eng, name, e, st):
        if name == 'isnan_':
            v = eng.ev(e.args[0], st)
            v = v.val if isinstance(v, Opt) else v
            return isnan(v) if isfp(v) else UNK
        if name in ('isfloat', 'isint', 'isbooltype'):
            return {'isfloat': ISFLOAT, 'isint': ISINT, 'isbooltype': ISBOOL}[name](st.env['tok_'])
        return BoxDomain.spec_call(self, eng, name, e, st)


def build(repo):
    D = Dom(repo)
    T = ['C07']

    def setup(eng, st):
        st.env['tok_'] = fint('tok')
    D.contract('check_float', tags=T, setup=setup, params={'val': 'opt:fp', 'lower': 'opt:fp', 'upper': 'opt:fp', 'allow_nonetype': 'bool'},
               requires=['A-type: a non-None value that is a float is the tracked binary64 value (other types are rejected by the isinstance test):: True',
                         'range bounds are numbers:: implies(not isnone(lower), not isnan_(lower)) and implies(not isnone(upper), not isnan_(upper))'],
               ensures=['accepted exactly when: None and None allowed, or a float inside [lower, upper] (a NaN is never inside):: '
                        'result == ite(isnone(val), allow_nonetype, isfloat() and (isnone(lower) or val >= lower) and (isnone(upper) or val <= upper))'], result='bool')
    D.contract('check_integer', tags=T, setup=setup, params={'val': 'opt:int', 'lower': 'opt:int', 'upper': 'opt:int', 'allow_nonetype': 'bool'},
               requires=[],
               ensures=['accepted exactly when: None and None allowed, or an int inside [lower, upper]:: '
                        'result == ite(isnone(val), allow_nonetype, isint() and (isnone(lower) or val >= lower) and (isnone(upper) or val <= upper))'], result='bool')
    D.contract('check_bool', tags=T, setup=setup, params={'val': 'opt:unk', 'allow_nonetype': 'bool'}, requires=[],
               ensures=['accepted exactly when: None and None allowed, or a bool:: result == ite(isnone(old(val)), allow_nonetype, isbooltype())'], result='bool')
    D.verify_list = ['check_float', 'check_integer', 'check_bool']
    return D


def extra_obligations(repo, D, pid):
    """check_param dispatches on the type string of param_type; check_all_params collects every key that fails (syntactic shape)"""
    out = []
    fi = repo.func('ParameterList.check_param')
    ok = False
    if fi is not None:
        src = ast.unparse(fi.node)
        ok = ("check_integer(value, lower=lower, upper=upper, allow_nonetype=nonetype_ok)" in src and
              "check_float(value, lower=lower, upper=upper, allow_nonetype=nonetype_ok)" in src and "check_bool(value, allow_nonetype=nonetype_ok)" in src and
              "self.param_type(key, npt)" in src)
    out.append(Ob('ParameterList.check_param/frame[dispatches to check_integer / check_float / check_bool with the bounds of param_type]', 'frame',
                  'ParameterList.check_param', ['C07'], [], z3.BoolVal(ok), 0, 'unsat', {'syntactic': True}))
    fi = repo.func('ParameterList.check_all_params')
    ok = False
    if fi is not None:
        src = ast.unparse(fi.node)
        ok = ("for key in self.params:" in src and "if not self.check_param(key, self.params[key], npt):" in src and "bad_keys.append(key)" in src and
              "return (len(bad_keys) == 0, bad_keys)" in src)
    out.append(Ob('ParameterList.check_all_params/frame[every key is checked; all_ok iff no key fails]', 'frame', 'ParameterList.check_all_params', ['C07'], [],
                  z3.BoolVal(ok), 0, 'unsat', {'syntactic': True, 'why': 'A-params rests on this shape'}))
    # every parameter set in ParameterList.__init__ has a row in param_type (otherwise check_param asserts)
    missing = sorted(set(repo.param_defaults) - set(repo.param_types))
    out.append(Ob('ParameterList.param_type/frame[every default parameter has a type/range row]', 'frame', 'ParameterList.param_type', ['C07'], [],
                  z3.BoolVal(not missing), 0, 'unsat', {'syntactic': True, 'why': str(missing)}))
    # the type/range table itself is pinned (contracts/param_table.json): the ranges ARE the documented domain of C07, so a row that changes in params.py is a violation
    # ("out-of-range ... user parameters yield a result with the input-error flag"), not a new specification
    import json, os, itertools

    def same_expr(a, b):
        """two expressions of the table denote the same value: identical text, or equal values over a grid of (n, npt, maxfun, objfun_has_noise) (so a harmless rewrite of an
        expression is not reported); an expression that cannot be evaluated (refers to self.params) falls back to text"""
        if a == b:
            return True
        if a is None or b is None:
            return False
        try:
            for n, extra, maxfun, noise in itertools.product((1, 2, 3, 5, 10), (1, 2, 3, 5, 20, 100), (1, 10, 1000), (False, True)):
                env = {'n': n, 'npt': n + extra, 'maxfun': maxfun, 'objfun_has_noise': noise, 'None': None, 'True': True, 'False': False, 'min': min, 'max': max, 'int': int, 'float': float}
                va, vb = eval(a, {'__builtins__': {}}, env), eval(b, {'__builtins__': {}}, env)
                if va != vb or type(va) is not type(vb):
                    return False
            return True
        except Exception:
            return False
    pinned = json.load(open(os.path.join(os.path.dirname(os.path.abspath(__file__)), 'param_table.json')))['table']
    for key in sorted(set(pinned) | set(repo.param_types)):
        cur = repo.param_types.get(key)
        cur_row = [cur[0], cur[1], ast.unparse(cur[2]) if cur[2] is not None else None, ast.unparse(cur[3]) if cur[3] is not None else None] if cur else None
        out.append(Ob('ParameterList.param_type/frame[row of %s is the documented one: type, None allowed, lower, upper]' % key, 'frame', 'ParameterList.param_type', ['C07'], [],
                      z3.BoolVal(cur_row is not None and pinned.get(key) is not None and cur_row[:2] == pinned[key][:2] and same_expr(cur_row[2], pinned[key][2]) and same_expr(cur_row[3], pinned[key][3])), 0, 'unsat', {'syntactic': True, 'why': 'now %s, documented %s' % (cur_row, pinned.get(key)), 'param_key': key,
                                                                            'documented': pinned.get(key), 'current': cur_row}))
    doc_defaults = json.load(open(os.path.join(os.path.dirname(os.path.abspath(__file__)), 'param_table.json'))).get('defaults', {})
    RANDOM_KEYS = ('init.random_initial_directions', 'init.run_in_parallel', 'init.random_directions_make_orthogonal', 'regression.momentum_extra_steps', 'restarts.increase_npt',
                   'growing.perturb_trust_region_step', 'growing.ndirs_initial', 'growing.num_new_dirns_each_iter', 'growing.full_rank.use_full_rank_interp')
    for key in sorted(set(doc_defaults) | set(repo.param_defaults)):
        cur = ast.unparse(repo.param_defaults[key]) if key in repo.param_defaults else None
        tags = ['C07'] + (['C19'] if key in RANDOM_KEYS else [])
        out.append(Ob('ParameterList.__init__/frame[default of %s is the documented one]' % key, 'frame', 'ParameterList.__init__', tags, [],
                      z3.BoolVal(same_expr(cur, doc_defaults.get(key))), 0, 'unsat', {'syntactic': True, 'why': 'now %s, documented %s' % (cur, doc_defaults.get(key)),
                                                                            'default_key': key, 'documented_default': doc_defaults.get(key), 'current_default': cur}))
    return out
