"""Sidecar contracts, domain Lc (real vectors as linear combinations of atoms).  Serves C12, clause "the returned gradient equals g + H d":

trsbox (truncated conjugate gradients with an active set) and alt_trust_step (Powell's two-dimensional rotations on the trust-region boundary) keep the
gradient of the quadratic model up to date incrementally (gnew += stplen * H s;  gnew += (cth - 1) * hred + sth * H s, with hred == H restricted-d).
Loop invariants on the REAL loops:  gnew == g + H d  (trsbox),  gnew - H d == its value at entry and  hred == H (d restricted to the free variables)  (alt_trust_step).
Every return path of both functions passes the step through d_within_bounds; the ghost G.dpre is the step handed to that final clip, and the
postcondition is  returned gradient == g + H * G.dpre.  That the final clip does not move the step (real arithmetic) is a separate, elementwise clause."""
from pyvc.domains.lincomb import LinCombDomain

T = ['C12']


def build(repo):
    D = LinCombDomain(repo, scalar_facts=False)
    D.ghost_shapes = {'dpre': 'lc'}
    VP = {'xopt': 'lc', 'g': 'lc', 'H': 'mat', 'sl': 'lc', 'su': 'lc', 'd': 'lc', 'gnew': 'lc', 'xbdi': 'xbdi', 'delta': 'real', 'qred': 'real', 'n': 'int', 'nact': 'int',
          'use_fortran': 'bool'}
    D.contract('d_within_bounds', tags=T, params={k: VP[k] for k in ('d', 'xopt', 'sl', 'su', 'xbdi')}, modifies=[], result='lc', ensures=['A-def (ghost: definition of ISCLIP):: isclip(result)'], assumed=True,
               notes='the final clip: its result lies in the box exactly (bundle box, binary64); in this domain it is opaque, the clauses speak about the step handed to it')
    CLIP = ('(C12) the step returned is an output of the final clip d_within_bounds (which puts it inside the box exactly: bundle trclip):: isclip(result[0])', 'C12')
    GRAD = ('(C12) the gradient returned is g + H d for the step d handed to the final clip:: veq(result[1], g + H.dot(G.dpre))', 'C12')
    D.contract('trsbox', tags=T, params={k: VP[k] for k in ('xopt', 'g', 'H', 'sl', 'su', 'delta', 'use_fortran')},
               requires=['the pure-Python path (the Fortran extension is not built here):: not use_fortran', 'delta > 0'],
               modifies=['G.dpre'], result=None, dead_under=['use_fortran'],
               ghost_before={'d_within_bounds#1': [('G.dpre', 'd')]},
               loops={'for:ii#0': [('conjugate-gradient loop: gnew == g + H d:: veq(gnew, g + H.dot(d))', 'C12')]},
               ensures=[GRAD, CLIP])
    KEEP = 'veq(gnew - H.dot(d), old(gnew) - H.dot(old(d)))'
    D.contract('alt_trust_step', tags=T, params={k: VP[k] for k in ('n', 'xopt', 'H', 'sl', 'su', 'd', 'xbdi', 'nact', 'gnew', 'qred')},
               requires=['n >= 1'], modifies=['G.dpre'], result=('lc', 'lc'),
               ghost_before={'d_within_bounds#1': [('G.dpre', 'd')], 'd_within_bounds#2': [('G.dpre', 'd')]},
               loops={'for:ii#0': [('gnew - H d keeps its value at entry:: ' + KEEP, 'C12')],
                      'for:jj#0': [('gnew - H d keeps its value at entry:: ' + KEEP, 'C12'),
                                   ('hred is H applied to the step restricted to the free variables:: veq(hred, H.dot(free(d, xbdi)))', 'C12')]},
               ensures=[('(C12) the rotations keep gnew - H d: returned gradient - H * (step handed to the final clip) == gnew - H d at entry:: '
                         'veq(result[1] - H.dot(G.dpre), old(gnew) - H.dot(old(d)))', 'C12'), CLIP])
    D.verify_list = ['trsbox', 'alt_trust_step']
    return D
