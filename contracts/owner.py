"""Sidecar contracts, domain O (ownership).  Serves C19 (a): solve never modifies the caller's x0, bound arrays, user_params dictionary or projection list."""
import z3
from pyvc.core import *
from pyvc.domains.own import OwnDomain, Own


def build(repo):
    D = OwnDomain(repo)

    def setup(eng, st):
        B = z3.BoolVal(True)
        st.env['x0'] = Own('array', B)
        st.env['bounds'] = Opt(fbool('bounds_none'), Own('tuple', B))        # its elements are the caller's arrays
        st.env['user_params'] = Opt(fbool('up_none'), Own('dict', B))
        st.env['projections'] = Own('list', B)                               # also covers the mutable default projections=[]
        for nm in ('argsf', 'argsh', 'argsprox'):
            st.env[nm] = Own('tuple', B)
        for nm in ('objfun', 'h', 'prox_uh', 'nsamples'):
            st.env[nm] = Own('callable', B)
    D.contract('solve', tags=['C19'], setup=setup, requires=[], modifies=[], result=None, ensures=[])
    D.verify_list = ['solve']
    return D


def extra_obligations(repo, D, pid):
    """package-wide: a projection list received from outside is never written in place (solve itself works on its own list(...) copy: checked flow-sensitively above)"""
    import ast
    from pyvc.src import MUTATORS
    out = []
    for qual, fi in sorted(repo.funcs.items()):
        if fi.module == 'hessian' or qual == 'solve':
            continue
        params = {a.arg for a in fi.node.args.args}
        alias = set()
        if 'projections' in params:
            alias.add('projections')
        # flow-insensitive aliasing: X = projections / X = self.projections / X = self.model.projections  (X = list(projections) is a copy)
        changed = True
        while changed:
            changed = False
            for n in ast.walk(fi.node):
                if isinstance(n, ast.Assign) and len(n.targets) == 1 and isinstance(n.targets[0], ast.Name):
                    v = n.value
                    src = ast.unparse(v)
                    if (isinstance(v, ast.Name) and v.id in alias) or src.endswith('.projections'):
                        if n.targets[0].id not in alias:
                            alias.add(n.targets[0].id)
                            changed = True
        bad = []
        for n in ast.walk(fi.node):
            if isinstance(n, ast.Call) and isinstance(n.func, ast.Attribute) and n.func.attr in MUTATORS:
                tgt = ast.unparse(n.func.value)
                if tgt in alias or tgt.endswith('.projections'):
                    bad.append('%s.%s at line %d' % (tgt, n.func.attr, n.lineno))
            tg = []
            if isinstance(n, ast.Assign):
                tg = n.targets
            elif isinstance(n, ast.AugAssign):
                tg = [n.target]
            for t in tg:
                if isinstance(t, ast.Subscript):
                    base = ast.unparse(t.value)
                    if base in alias or base.endswith('.projections'):
                        bad.append('store into %s at line %d' % (base, n.lineno))
                elif isinstance(n, ast.AugAssign) and (ast.unparse(t) in alias or ast.unparse(t).endswith('.projections')):
                    bad.append('augmented assignment to %s at line %d' % (ast.unparse(t), n.lineno))
        if alias or bad or 'projections' in ast.unparse(fi.node):
            out.append(Ob('%s/ownership[a projection list received from outside is never written in place]' % qual, 'ownership', qual, ['C19', 'C06'], [],
                          z3.BoolVal(not bad), fi.span[0], 'unsat', {'syntactic': True, 'why': '; '.join(bad)}))
    return out
