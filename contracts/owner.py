"""Sidecar contracts, domain O (ownership).  Serves C19 (a): solve never modifies the caller's x0, bound arrays, user_params dictionary or projection list."""
import z3
from pyvc.core import *
from pyvc.domains.own import OwnDomain, Own


def build(repo):
    D = OwnDomain(repo)

    def setup(eng, st):
        B = z3.BoolVal(True)
        st.env['x0'] = Own('array', B)
        st.env['bounds'] = Opt(fbool('bounds_none'), Own('tuple', B))        # its elements are the caller's arrays
        st.env['user_params'] = Opt(fbool('up_none'), Own('dict', B))
        st.env['projections'] = Own('list', B)                               # also covers the mutable default projections=[]
        for nm in ('argsf', 'argsh', 'argsprox'):
            st.env[nm] = Own('tuple', B)
        for nm in ('objfun', 'h', 'prox_uh', 'nsamples'):
            st.env[nm] = Own('callable', B)
    D.contract('solve', tags=['C19'], setup=setup, requires=[], modifies=[], result=None, ensures=[])
    D.verify_list = ['solve']
    return D


def extra_obligations(repo, D, pid):
    """package-wide: a projection list received from outside is never written in place (solve itself works on its own list(...) copy: checked flow-sensitively above)"""
    import ast
    from pyvc.src import MUTATORS
    out = []
    for qual, fi in sorted(repo.funcs.items()):
        if fi.module == 'hessian' or qual == 'solve':
            continue
        params = {a.arg for a in fi.node.args.args}
        alias = set()
        if 'projections' in params:
            alias.add('projections')
        # flow-insensitive aliasing: X = projections / X = self.projections / X = self.model.projections  (X = list(projections) is a copy)
        changed = True
        while changed:
            changed = False
            for n in ast.walk(fi.node):
                if isinstance(n, ast.Assign) and len(n.targets) == 1 and isinstance(n.targets[0], ast.Name):
                    v = n.value
                    src = ast.unparse(v)
                    if (isinstance(v, ast.Name) and v.id in alias) or src.endswith('.projections'):
                        if n.targets[0].id not in alias:
                            alias.add(n.targets[0].id)
                            changed = True
        bad = []
        for n in ast.walk(fi.node):
            if isinstance(n, ast.Call) and isinstance(n.func, ast.Attribute) and n.func.attr in MUTATORS:
                tgt = ast.unparse(n.func.value)
                if tgt in alias or tgt.endswith('.projections'):
                    bad.append('%s.%s at line %d' % (tgt, n.func.attr, n.lineno))
            tg = []
            if isinstance(n, ast.Assign):
                tg = n.targets
            elif isinstance(n, ast.AugAssign):
                tg = [n.target]
            for t in tg:
                if isinstance(t, ast.Subscript):
                    base = ast.unparse(t.value)
                    if base in alias or base.endswith('.projections'):
                        bad.append('store into %s at line %d' % (base, n.lineno))
                elif isinstance(n, ast.AugAssign) and (ast.unparse(t) in alias or ast.unparse(t).endswith('.projections')):
                    bad.append('augmented assignment to %s at line %d' % (ast.unparse(t), n.lineno))
        if alias or bad or 'projections' in ast.unparse(fi.node):
            out.append(Ob('%s/ownership[a projection list received from outside is never written in place]' % qual, 'ownership', qual, ['C19', 'C06'], [],
                          z3.BoolVal(not bad), fi.span[0], 'unsat', {'syntactic': True, 'why': '; '.join(bad)}))
    out += shared_state_obligations(repo)
    return out


def shared_state_obligations(repo):
    """(C19) the result of solve depends only on its arguments: no state survives from one call of solve to the next.  Syntactic, package-wide:
       (a) no class body binds a mutable object (list / dict / set display or comprehension, or the result of a call) at class level - such an attribute is shared by all instances,
           hence by successive solves; (b) no function has a mutable default argument (list / dict / set display, or a call) other than a parameter that is never written in
           place (checked for `projections` above); (c) no `global` / `nonlocal`-to-module statement, and no module-level name bound to a mutable display is mutated by a function."""
    import ast, z3
    from pyvc.core import Ob
    MUT = (ast.List, ast.Dict, ast.Set, ast.ListComp, ast.DictComp, ast.SetComp, ast.Call)
    out = []
    for mod, tree in sorted(repo.trees.items()):
        if mod.startswith('tests') or '/tests/' in mod:
            continue
        for node in tree.body:
            if isinstance(node, ast.ClassDef):
                bad = []
                for s_ in node.body:
                    tg, val = [], None
                    if isinstance(s_, ast.Assign):
                        tg, val = s_.targets, s_.value
                    elif isinstance(s_, ast.AnnAssign) and s_.value is not None:
                        tg, val = [s_.target], s_.value
                    if val is not None and isinstance(val, MUT):
                        bad.append('%s = %s at line %d' % (ast.unparse(tg[0]), ast.unparse(val)[:40], s_.lineno))
                out.append(Ob('%s/ownership[(C19) no mutable class-level attribute: nothing is shared between the objects of successive solves]' % node.name, 'ownership', node.name,
                              ['C19'], [], z3.BoolVal(not bad), node.lineno, 'unsat', {'syntactic': True, 'why': '; '.join(bad)}))
        globs = [n.lineno for n in ast.walk(tree) if isinstance(n, ast.Global)]
        modmut = {t.id for n in tree.body if isinstance(n, ast.Assign) and isinstance(n.value, (ast.List, ast.Dict, ast.Set)) for t in n.targets if isinstance(t, ast.Name) and t.id != '__all__'}
        written = []
        for n in ast.walk(tree):
            if isinstance(n, (ast.FunctionDef, ast.Lambda)):
                for m in ast.walk(n):
                    if isinstance(m, ast.Call) and isinstance(m.func, ast.Attribute) and isinstance(m.func.value, ast.Name) and m.func.value.id in modmut \
                            and m.func.attr in ('append', 'extend', 'insert', 'pop', 'remove', 'clear', 'update', 'setdefault', 'add', 'sort', 'reverse'):
                        written.append('%s.%s at line %d' % (m.func.value.id, m.func.attr, m.lineno))
                    if isinstance(m, (ast.Assign, ast.AugAssign)):
                        for t in (m.targets if isinstance(m, ast.Assign) else [m.target]):
                            if isinstance(t, ast.Subscript) and isinstance(t.value, ast.Name) and t.value.id in modmut:
                                written.append('store into module-level %s at line %d' % (t.value.id, m.lineno))
        out.append(Ob('%s/ownership[(C19) no module-level state is written by a function (no global statement, no mutation of a module-level container)]' % mod, 'ownership', mod, ['C19'], [],
                      z3.BoolVal(not globs and not written), 1, 'unsat', {'syntactic': True, 'why': '; '.join(['global at line %d' % g for g in globs] + written)}))
    for qual, fi in sorted(repo.funcs.items()):
        a = fi.node.args
        names = [x.arg for x in a.args]
        bad = []
        for nm, dv in list(zip(names[len(names) - len(a.defaults):], a.defaults)) + [(k.arg, d) for k, d in zip(a.kwonlyargs, a.kw_defaults) if d is not None]:
            if isinstance(dv, MUT) and nm != 'projections':
                bad.append('%s=%s' % (nm, ast.unparse(dv)[:30]))
        if a.defaults or a.kw_defaults:
            out.append(Ob('%s/ownership[(C19) no mutable default argument (other than the never-written projections list)]' % qual, 'ownership', qual, ['C19'], [],
                          z3.BoolVal(not bad), fi.span[0], 'unsat', {'syntactic': True, 'why': '; '.join(bad)}))
    return out
