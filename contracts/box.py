"""Sidecar contracts, domain B (exact IEEE-754 binary64, elementwise).  Serves C01, C09 (box last, exact), C15 (box-last leaf, sweeps).

Ghost:  G.ulo, G.uhi  the caller's bounds (bounds[0], bounds[1]; -1e20 / 1e20 when absent)
        G.lo,  G.hi   the box in the solver's internal coordinates ([0,1] under scaling, the caller's box otherwise)
T_C01:  every argument of objfun and soln.x satisfy  G.ulo <= . <= G.uhi  componentwise, in IEEE arithmetic.
"""
import z3
from pyvc.core import *
from pyvc.domains.box import BoxDomain, F, RM, fpv, isnan, finite, ProjListB, ProjB, LASTBOX, PL_LEN


ISDYK = z3.Function('ISDYK', F, z3.BoolSort())      # ghost: the value is (a component of) an array returned by util.dykstra


class BoxTok:
    """the last projector of a projection list: maps every (non-NaN) input into [lo, hi]"""

    def __init__(self, lo, hi):
        self.lo, self.hi = lo, hi


class Dom(BoxDomain):
    def init_state(self, st, fi, con):
        BoxDomain.init_state(self, st, fi, con)

    def fresh(self, shape, name, st=None):
        if shape == 'projlist':
            return ProjListB()
        if shape == 'scaling':
            return Opt(fbool(name + '_none'), (self.fresh('fp', name + '_shift'), self.fresh('fp', name + '_scale'), self.fresh('fp', name + '_upper')))
        return BoxDomain.fresh(self, shape, name, st)

    def apply_projector(self, eng, pj, args, st, node):
        r = z3.FP(fresh_name('proj'), F)
        lst = pj.lst
        if isint(pj.idx):
            lo, hi = st.heap[('G', 'lo')], st.heap[('G', 'hi')]
            # definition of LASTBOX (A-nan: the argument handed to the final projector is not NaN)
            st.assume(z3.Implies(z3.And(pj.idx == lst.n - 1, LASTBOX(lst.tok, lo, hi)), z3.And(z3.fpLEQ(lo, r), z3.fpLEQ(r, hi))))
        return r

    def b_len(self, eng, node, args, kw, st):
        return BoxDomain.b_len(self, eng, node, args, kw, st)

    def spec_call(self, eng, name, e, st):
        if name in ('isnan', 'finite', 'notnan'):
            v = eng.ev(e.args[0], st)
            v = v.val if isinstance(v, Opt) else v
            if not isfp(v):
                return UNK
            return {'isnan': isnan(v), 'finite': finite(v), 'notnan': z3.Not(isnan(v))}[name]
        if name == 'fixes':
            # every projector of a list built here returns the (generic component of the) centre unchanged
            lst, x = eng.ev(e.args[0], st), eng.ev(e.args[1], st)
            if isinstance(lst, ListV) and isfp(x):
                parts = []
                for fn in lst.items:
                    if not isinstance(fn, Fn):
                        return UNK
                    sub = st.copy()
                    r = eng.inline(fn, [x], {}, sub, e)
                    if not isfp(r):
                        return UNK
                    hy = sub.pc[len(st.pc):]
                    parts.append(z3.Implies(z3.And(*hy) if hy else z3.BoolVal(True), z3.fpEQ(r, x)))
                return z3.And(*parts) if parts else z3.BoolVal(True)
            if isinstance(lst, ProjListB):
                return z3.BoolVal(True)     # the caller's projections: A-callback (the current iterate is feasible for the caller's sets up to Dykstra's tolerance)
            return UNK
        if name == 'ISDYK':
            v = eng.ev(e.args[0], st)
            return ISDYK(v) if isfp(v) else UNK
        if name == 'same':
            a, b = eng.ev(e.args[0], st), eng.ev(e.args[1], st)
            return self.same_value(a, b)
        if name == 'fp':
            a0 = e.args[0]
            return fpv(float(a0.value if isinstance(a0, ast.Constant) else -a0.operand.value))
        if name == 'last_in_box':
            # the last element of a projection list maps an arbitrary non-NaN input into [lo, hi]
            lst, lo, hi = [eng.ev(a, st) for a in e.args]
            if not isinstance(lst, ProjListB) or not isfp(lo) or not isfp(hi):
                return UNK
            parts = []
            for cond, fn in lst.cases():
                if isinstance(fn, Fn):
                    # the list was built here: apply the real closure to an arbitrary non-NaN input
                    w = z3.FP(fresh_name('w'), F)
                    sub = st.copy()
                    sub.assume(cond)
                    sub.assume(z3.Not(isnan(w)))
                    r = eng.inline(fn, [w], {}, sub, e)
                    if not isfp(r):
                        return UNK
                    hy = [c for c in sub.pc[len(st.pc):]]
                    parts.append(z3.Implies(z3.And(*hy), z3.And(z3.fpLEQ(lo, r), z3.fpLEQ(r, hi))))
                else:
                    parts.append(z3.Implies(cond, LASTBOX(lst.tok, lo, hi)))
            return z3.And(*parts)
        return BoxDomain.spec_call(self, eng, name, e, st)

    def compare(self, op, a, b, st, node=None):
        if isinstance(a, ProjListB) and isinstance(b, ProjListB) and op in ('==', '!='):
            return (a.tok == b.tok) if op == '==' else (a.tok != b.tok)
        return BoxDomain.compare(self, op, a, b, st, node)


import ast  # noqa


def build(repo):
    D = Dom(repo)
    D.ghost_shapes = {'ulo': 'fp', 'uhi': 'fp', 'lo': 'fp', 'hi': 'fp', 'first': 'bool', 'col': 'int', 'x0pre': 'fp', 'pushed': 'bool'}
    fs = D.field_shapes
    for f in ('xl', 'xu', 'xbase', 'sl', 'su', 'points', 'xsave'):
        fs[('Model', f)] = 'fp' if f != 'xsave' else 'opt:fp'
    fs[('Model', 'objsave')] = 'opt:fp'
    fs[('Model', 'projections')] = 'projlist'
    fs[('Model', 'scaling_changes')] = 'scaling'
    fs[('Controller', 'model')] = 'ref:Model'
    fs[('Controller', 'scaling_changes')] = 'scaling'
    fs[('Controller', 'objfun')] = 'cb:objfun'
    fs[('Controller', 'h')] = 'opt:cb:h'

    D.predicate('box_ok', [], 'notnan(G.lo) and notnan(G.hi) and G.lo <= G.hi and notnan(G.ulo) and notnan(G.uhi) and G.ulo <= G.uhi')
    D.predicate('inbox', ['v'], 'G.lo <= v and v <= G.hi')
    D.predicate('inuser', ['v'], 'G.ulo <= v and v <= G.uhi')
    D.predicate('scal_ok', ['sc'],
                'implies(isnone(sc), G.lo == G.ulo and G.hi == G.uhi) and implies(not isnone(sc), sc[0] == G.ulo and sc[2] == G.uhi and '
                'sc[1] == G.uhi - G.ulo and G.lo == fp(0.0) and G.hi == fp(1.0) and finite(G.ulo) and finite(G.uhi) and finite(sc[1]) and G.ulo < G.uhi)')
    D.predicate('INV_boxm', ['m'],
                'box_ok() and implies(not m.projections, m.xl == G.lo and m.xu == G.hi) and notnan(m.xl) and notnan(m.xu) and m.xl <= m.xu '
                'and implies(m.projections, last_in_box(m.projections, G.lo, G.hi))')
    D.predicate('INV_ctrl', ['c'], 'INV_boxm(c.model) and scal_ok(c.scaling_changes)')
    T = ['C01']
    # ------------------------------------------------------------------ leaves
    D.contract('pbox', tags=['C01', 'C09', 'C15'], params={'x': 'fp', 'l': 'fp', 'u': 'fp'},
               requires=['A-nan:: notnan(x)', 'notnan(l) and notnan(u) and l <= u'],
               ensures=['result lies in the box, exactly:: l <= result and result <= u',
                        ('a point already in the box is returned unchanged:: implies(l <= x and x <= u, result == x)', 'C15')], result='fp')
    D.contract('apply_scaling', tags=T, params={'x_raw': 'fp', 'scaling_changes': 'scaling'},
               requires=['A-nan:: notnan(x_raw)', 'implies(not isnone(scaling_changes), finite(scaling_changes[0]) and finite(scaling_changes[2]) and scaling_changes[0] < scaling_changes[2] '
                         'and scaling_changes[1] == scaling_changes[2] - scaling_changes[0] and finite(scaling_changes[1]))'],
               ensures=['no scaling is the identity:: implies(isnone(scaling_changes), result == x_raw)',
                        'lower bound maps to 0.0 exactly:: implies(not isnone(scaling_changes) and x_raw == scaling_changes[0], result == fp(0.0))',
                        'upper bound maps to 1.0 exactly:: implies(not isnone(scaling_changes) and x_raw == scaling_changes[2], result == fp(1.0))',
                        'a finite point has a NaN-free image:: implies(finite(x_raw), notnan(result))'], result='fp')
    D.predicate('sc_valid', ['sc'], 'finite(sc[0]) and finite(sc[2]) and sc[0] <= sc[2] and finite(sc[1])')
    D.contract('remove_scaling', tags=T, params={'x_scaled': 'fp', 'scaling_changes': 'scaling'},
               requires=[],
               ensures=['no scaling is the identity:: implies(isnone(scaling_changes) and notnan(x_scaled), result == x_scaled)',
                        'un-scaled point lies in the caller\'s box, exactly:: implies(not isnone(scaling_changes) and sc_valid(scaling_changes) and finite(x_scaled), '
                        'scaling_changes[0] <= result and result <= scaling_changes[2])'],
               result='fp')
    # ------------------------------------------------------------------ dykstra: the result is an output of the last projector
    D.contract('dykstra', tags=['C01', 'C09', 'C15'], params={'P': 'projlist', 'x0': 'fp', 'max_iter': 'int', 'tol': 'fp'},
               requires=[],
               modifies=[],
               loops={'while#0': ['implies(n >= 1 and p >= 1 and last_in_box(P, G.lo, G.hi), inbox(x))', 'n >= 0', 'n <= max_iter or n == 0', 'p == len(P)',
                                  'before the first sweep the stop quantity is +inf:: n >= 1 or cI == float("inf")'],
                      'for:i#0': ['implies(i_ == p and p >= 1 and last_in_box(P, G.lo, G.hi), inbox(x))', 'p == len(P)', 'n >= 0', 'n < max_iter']},
               ensures=['result is an output of the final (box) projector: inside the box, exactly:: implies(last_in_box(P, G.lo, G.hi) and P and max_iter >= 1 and notnan(tol), inbox(result))',
                        ('at most max_iter sweeps (each sweep calls every projector once):: n <= max_iter or n == 0', 'C15'),
                        ('at least one sweep when allowed:: implies(max_iter >= 1 and notnan(tol), n >= 1)', 'C15', 'C09'),
                        'A-def (ghost: definition of ISDYK):: ISDYK(result)'], result='fp')
    # ------------------------------------------------------------------ Model producers
    D.contract('Model.__init__', tags=T, params={'x0': 'fp', 'xl': 'fp', 'xu': 'fp', 'projections': 'projlist', 'scaling_changes': 'scaling', 'npt': 'int',
                                                 'h': 'opt:cb:h', 'r0': 'unk'},
               requires=['A-nan:: notnan(xl) and notnan(xu)'],
               modifies=['self.*'],
               ensures=['self.xl == xl and self.xu == xu', 'absolute bounds are copies of the arguments (NaN-free if they are):: implies(notnan(xl), notnan(self.xl)) and implies(notnan(xu), notnan(self.xu))',
                        'self.projections == projections', 'same(self.scaling_changes, scaling_changes)', 'isnone(self.xsave)'])
    for q, arg in (('Model.as_absolute_coordinates', 'x'), ('Model.xpt', None)):
        D.contract(q, tags=['C01', 'C09', 'C14'], params={'x': 'fp', 'k': 'int', 'abs_coordinates': 'bool'},
                   requires=['INV_boxm(self)', 'A-nan:: finite(self.xbase) and notnan(self.sl) and notnan(self.su) and notnan(self.points)'] +
                            (['A-nan:: notnan(x)'] if arg else []),
                   ensures=['produced absolute point lies in the box, exactly, for every base point:: ' +
                            ('inbox(result)' if arg else 'implies(abs_coordinates, inbox(result))'),
                            ('with projections the produced point is an output of Dykstra\'s routine:: ' +
                             ('implies(self.projections, ISDYK(result))' if arg else 'implies(abs_coordinates and self.projections, ISDYK(result))'), 'C09')], result='fp')
    D.contract('Model.save_point', tags=T, params={'x': 'fp', 'x_in_abs_coords': 'bool'},
               requires=['INV_boxm(self)', 'saved point was evaluated (in the box):: implies(x_in_abs_coords, inbox(x))',
                         'A-nan:: notnan(x) and finite(self.xbase) and notnan(self.sl) and notnan(self.su)',
                         'implies(not isnone(self.xsave), inbox(self.xsave))'],
               modifies=['self.xsave', 'self.rsave', 'self.objsave', 'self.jacsave', 'self.nsamples_save', 'self.eval_num_save', 'self.jacsave_eval_nums'],
               ensures=['saved point stays in the box:: implies(not isnone(self.xsave), inbox(self.xsave))'], result='unk')
    D.contract('Model.get_final_results', tags=T,
               requires=['INV_boxm(self)', 'implies(not isnone(self.xsave), inbox(self.xsave))',
                         'A-M (INV_model (e), proved in domain M) the saved slot is all-or-nothing:: isnone(self.objsave) == isnone(self.xsave)',
                         'A-nan:: finite(self.xbase) and notnan(self.sl) and notnan(self.su) and notnan(self.points)'],
               ensures=['returned x lies in the box:: inbox(result[0])'], result=('fp', 'unk', 'unk', 'unk', 'unk', 'unk', 'unk'))
    # ------------------------------------------------------------------ the evaluation choke point
    D.contract('eval_least_squares_with_regularisation', tags=T, params={'x': 'fp', 'objfun': 'cb:objfun', 'h': 'opt:cb:h'},
               requires=['T_C01: the argument of objfun lies inside the caller\'s bounds, exactly:: inuser(x)'],
               asserts={}, result=('unk', 'unk'), assumed=False,
               ensures=[])
    D.contract('Controller.evaluate_objective', tags=T, params={'x': 'fp', 'number_of_samples': 'int'},
               requires=['INV_ctrl(self)', 'evaluated point lies in the (internal) box:: inbox(x)', 'A-nan:: finite(x)',
                         ('with projections every evaluated point is an output of Dykstra\'s routine:: implies(self.model.projections, ISDYK(x))', 'C09')],
               modifies=['self.nf', 'self.nx'], result=('unk', 'unk', 'unk', 'unk'), ensures=[])
    # ------------------------------------------------------------------ transport: Controller
    SAVED = 'implies(not isnone(self.model.xsave), inbox(self.model.xsave))'
    D.contract('Controller.__init__', tags=T,
               params={'x0': 'fp', 'xl': 'fp', 'xu': 'fp', 'projections': 'projlist', 'scaling_changes': 'scaling', 'npt': 'int', 'h': 'opt:cb:h', 'r0': 'unk'},
               requires=['A-nan:: notnan(xl) and notnan(xu)'],
               modifies=['self.*'],
               ensures=['self.model.xl == xl and self.model.xu == xu and notnan(self.model.xl) and notnan(self.model.xu)',
                        'self.model.projections == projections', 'same(self.scaling_changes, scaling_changes)', 'isnone(self.model.xsave)'])
    CM = ['self.nf', 'self.nx', 'self.delta', 'self.rho', 'self.diffs', 'self.last_successful_iter', 'self.last_successful_run', 'self.last_run_fopt',
          'self.last_iters_step_taken', 'self.last_fopts_step_taken', 'self.num_slow_iters', 'self.rhoend', 'self.model.*']
    for q in ('Controller.geometry_step', 'Controller.check_and_fix_geometry', 'Controller.add_new_direction_while_growing',
              'Controller.initialise_coordinate_directions', 'Controller.initialise_random_directions', 'Controller.move_furthest_points',
              'Controller.move_furthest_points_momentum', 'Controller.soft_restart'):
        D.contract(q, tags=T, requires=['INV_ctrl(self)', SAVED] + (['isnone(x_in_abs_coords_to_save)'] if q.endswith('soft_restart') else []),
                   params={'x_in_abs_coords_to_save': 'opt:fp'} if q.endswith('soft_restart') else {}, modifies=CM, result='unk',
                   ensures=['INV_ctrl(self)', SAVED], ledger_inv=['INV_ctrl(self)', SAVED])
    # ------------------------------------------------------------------ C06 (ii) / C03: the regularised subproblem works on the true (absolute) box
    D.contract('ctrsbox_sfista', tags=['C06', 'C03'], params={'xopt': 'fp'},
               requires=[('feasible centre: every projector handed to the subproblem solver returns xopt unchanged (the box is the box around the ABSOLUTE point):: '
                          'fixes(projections, xopt)', 'C06', 'C03')],
               modifies=[], result=('unk', 'unk', 'unk'), ensures=[], assumed=True, notes='only the precondition on the projector list matters in this bundle')
    for q in ('Controller.trust_region_step', 'Controller.evaluate_criticality_measure'):
        D.contract(q, tags=['C06', 'C03'], requires=['INV_ctrl(self)', 'A-nan:: finite(self.model.xbase) and notnan(self.model.sl) and notnan(self.model.su) and notnan(self.model.points)'],
                   modifies=[], result='unk', ensures=[])
    # ------------------------------------------------------------------ solve_main
    D.contract('solve_main', tags=T,
               params={'x0': 'fp', 'xl': 'fp', 'xu': 'fp', 'projections': 'projlist', 'scaling_changes': 'scaling', 'npt': 'int', 'objfun': 'cb:objfun',
                       'nsamples': 'cb:nsamples', 'h': 'opt:cb:h', 'r0_avg_old': 'opt:unk'},
               requires=['internal box is NaN-free:: notnan(G.lo) and notnan(G.hi)', 'internal box is non-empty:: G.lo <= G.hi',
                         'caller box:: notnan(G.ulo) and notnan(G.uhi) and G.ulo <= G.uhi',
                         'starting point of the run lies in the box:: inbox(x0)', 'scal_ok(scaling_changes)',
                         'without projections the model bounds are the box:: implies(not projections, xl == G.lo and xu == G.hi)',
                         ('with projections the bound box is projected last:: implies(projections, last_in_box(projections, G.lo, G.hi))', 'C01', 'C09'),
                         ('the box kept by the run is the caller\'s box (one-sided and missing bounds included: the documented +-1e20 stand-ins):: scal_ok(scaling_changes)', 'C01', 'C09'),
                         ('with projections the starting point has been replaced by its projection:: implies(projections and G.first and fp(-1e20) <= G.ulo and G.uhi <= fp(1e20), ISDYK(x0))', 'C09'),
                         'A-nan:: finite(x0) and notnan(xl) and notnan(xu)', 'xl <= xu'],
               modifies=['params[*]'], result=('fp',) + ('unk',) * 11,
               ledger_inv=['INV_ctrl(control)', SAVED.replace('self.', 'control.')],
               ensures=['returned point lies in the box:: inbox(result[0])', 'A-nan (no NaN step):: finite(result[0])'])
    # ------------------------------------------------------------------ solve
    def setup_solve(eng, st):
        b_none, lo_none, up_none = fbool('bounds_none'), fbool('lower_none'), fbool('upper_none')
        lower, upper = z3.FP(fresh_name('lower'), F), z3.FP(fresh_name('upper'), F)
        st.env['bounds'] = Opt(b_none, (Opt(lo_none, lower), Opt(up_none, upper)))
        # ghost: the caller's box (the documented defaults -1e20 / 1e20 stand for "no bound")
        st.heap[('G', 'ulo')] = z3.If(z3.Or(b_none, lo_none), fpv(-1e20), lower)
        st.heap[('G', 'uhi')] = z3.If(z3.Or(b_none, up_none), fpv(1e20), upper)
        st.env['projections'] = ProjListB()
        st.heap[('G', 'pushed')] = z3.BoolVal(False)
    D.contract('solve', tags=['C01', 'C09'], setup=setup_solve,
               params={'x0': 'fp', 'scaling_within_bounds': 'bool', 'objfun': 'cb:objfun', 'nsamples': 'opt:cb:nsamples', 'h': 'opt:cb:h',
                       'rhobeg': 'opt:fp', 'rhoend': 'fp', 'npt': 'opt:int', 'maxfun': 'opt:int', 'lh': 'opt:fp'},
               requires=['A-nan:: finite(x0)',
                         'quantifier: the bounds are NaN-free and neither lower = +inf nor upper = -inf:: notnan(G.ulo) and notnan(G.uhi) and G.ulo < float("inf") and G.uhi > -float("inf")',
                         'quantifier: the box meets [-1e20, 1e20] (the documented stand-in for "no bound"):: G.uhi >= fp(-1e20) and G.ulo <= fp(1e20)',
                         'quantifier: lower <= upper (the property quantifies over boxes with gap >= 2*rhobeg; O10: with projections solve does not check it):: G.ulo <= G.uhi',
                         'quantifier (O2): with scaling the caller\'s box is finite and non-degenerate:: implies(scaling_within_bounds, finite(G.ulo) and finite(G.uhi) '
                         'and G.ulo < G.uhi and finite(G.uhi - G.ulo))'],
               ghost_before={'dykstra#1': [('G.lo', 'xlb'), ('G.hi', 'xub')],
                             'solve_main#1': [('G.lo', 'ite(projections, xlb, xl)'), ('G.hi', 'ite(projections, xub, xu)'), ('G.first', 'True')],
                             'solve_main#2': [('G.first', 'False')], 'solve_main#3': [('G.first', 'False')]},
               loops={'while#0': ['inbox(xmin)', 'finite(xmin)', 'box_ok()']},
               # ghost: x0 as it stands immediately before the two statements that push it into the bounds (the first assignment to the mask `idx`)
               ghost_after_assign={'idx': [('G.x0pre', 'ite(G.pushed, G.x0pre, x0)'), ('G.pushed', 'True')]},
               asserts={'before:solve_main#1': [('(C14) without projections the first run starts from the PROJECTION of x0 onto the bounds: a component below its lower bound is moved to '
                                                 'that lower bound, a component above its upper bound to that upper bound, every other component is kept:: '
                                                 'implies(not projections and G.pushed, x0 == ite(G.x0pre < xl, xl, ite(G.x0pre > xu, xu, G.x0pre)))', 'C14', 'C01')]},
               modifies=['G.lo', 'G.hi', 'G.first', 'G.x0pre', 'G.pushed', 'params[*]'], result='unk',
               ensures=['T_C01: the returned solution lies inside the caller\'s bounds, exactly:: implies(result.flag != EXIT_INPUT_ERROR, inuser(result.x))'])
    # ------------------------------------------------------------------ C14 / C01 (5): the direction generators clip every returned direction into [lower, upper]
    for q, loopkey in (('random_directions_within_bounds', 'for:i#1'), ('random_orthog_directions_within_bounds', 'for:i#5')):
        D.contract(q, tags=['C14', 'C01'], params={'num_pts': 'int', 'delta': 'fp', 'lower': 'fp', 'upper': 'fp'},
                   requires=['A-nan:: notnan(lower) and notnan(upper)'], modifies=[], result='fp',
                   loops={loopkey: ['columns already processed by the final loop are inside the bounds:: implies(0 <= G.col and G.col < i_, lower <= results and results <= upper)',
                                    'A-nan (directions computed from normalised Gaussians / QR columns are not NaN):: notnan(results)']},
                   ensures=['every returned direction lies inside [lower, upper], exactly:: implies(0 <= G.col and G.col < num_pts, lower <= result and result <= upper)'])
    D.verify_list = ['random_directions_within_bounds', 'random_orthog_directions_within_bounds', 'solve', 'Controller.trust_region_step', 'Controller.evaluate_criticality_measure', 'Controller.__init__', 'Controller.geometry_step', 'Controller.check_and_fix_geometry', 'Controller.add_new_direction_while_growing',
                     'Controller.initialise_coordinate_directions', 'Controller.initialise_random_directions', 'Controller.move_furthest_points',
                     'Controller.move_furthest_points_momentum', 'Controller.soft_restart', 'solve_main', 'pbox', 'apply_scaling', 'remove_scaling', 'dykstra', 'Model.__init__', 'Model.as_absolute_coordinates', 'Model.xpt',
                     'Model.save_point', 'Model.get_final_results', 'eval_least_squares_with_regularisation', 'Controller.evaluate_objective']
    return D
