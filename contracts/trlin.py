"""Sidecar contract, domain Cd (real arrays by element) with a set-valued list.  Serves C13, clause "the bound-constrained geometry step lies inside the box":

trsbox_linear returns from inside its active-set loop as soon as the full step to the ball hits no box side.  The contract states what that return relies on: the scan over
the box sides has looked at EVERY coordinate that is still free, so the point returned is strictly inside its bounds in each of them (loop invariant of the scan:
all free coordinates below the scan index are strictly inside, and no side has been flagged).  The other return paths and the optimality of the result stay undecided."""
import ast, z3
from pyvc.core import *
from pyvc.domains.coord import CoordDomain, RA, N_, IS, BS


class SetV:
    """a Python list used as a set of indices (cons_dirns): membership array Int -> Bool"""

    def __init__(self, arr=None):
        self.arr = arr if arr is not None else z3.Const(fresh_name('set'), z3.ArraySort(IS, BS))

    def merge(self, c, o):
        return SetV(z3.If(c, self.arr, o.arr)) if isinstance(o, SetV) else UNK

    def fresh_like(self, name, st):
        return SetV()


class Dom(CoordDomain):
    def __init__(self, repo):
        CoordDomain.__init__(self, repo)
        self.field_shapes = dict(self.field_shapes)
        self.assumptions += ['A-lib: a list of indices is used as a set (append adds one member, += adds members, `j in lst` is membership); g.size is the dimension n']

    def name_shape(self, name):
        return {'a': 'rvec', 'b': 'rvec', 'x': 'rvec', 'xnew': 'rvec', 'dirn': 'rvec', 'idx_hit': 'opt:int'}.get(name) or CoordDomain.name_shape(self, name)

    def on_assign_name(self, name, v, st):
        if is_unk(v) and name in ('a', 'b', 'x', 'xnew', 'dirn'):
            return self.fresh('rvec', name, st)
        if name == 'cons_dirns' and isinstance(v, ListV) and not v.items:
            return SetV(z3.K(IS, z3.BoolVal(False)))
        return CoordDomain.on_assign_name(self, name, v, st)

    def contains(self, a, b, st):
        if isinstance(b, SetV) and isint(a):
            return z3.Select(b.arr, a)
        return CoordDomain.contains(self, a, b, st)

    def augassign(self, op, cur, inc, st, node):
        if isinstance(cur, SetV):
            sup = SetV()
            j = z3.Int('j_sup')
            st.assume(z3.ForAll([j], z3.Implies(z3.Select(cur.arr, j), z3.Select(sup.arr, j))))      # += adds members
            return sup
        return CoordDomain.augassign(self, op, cur, inc, st, node)

    def call_method(self, eng, recv, meth, e, st):
        if isinstance(recv, SetV) and meth == 'append' and isinstance(e.func.value, ast.Name):
            args, _ = eng.eval_args(e, st)
            v = args[0].val if isinstance(args[0], Opt) else args[0]
            st.env[e.func.value.id] = SetV(z3.Store(recv.arr, v, z3.BoolVal(True))) if isint(v) else SetV()
            return NONE
        return CoordDomain.call_method(self, eng, recv, meth, e, st)

    def load_attr(self, eng, base, attr, st, node):
        if attr == 'size':
            return N_
        return CoordDomain.load_attr(self, eng, base, attr, st, node)

    def spec_call(self, eng, name, e, st):
        if name == 'member':
            s_, j = eng.ev(e.args[0], st), eng.ev(e.args[1], st)
            return z3.Select(s_.arr, j) if isinstance(s_, SetV) and isint(j) else UNK
        return CoordDomain.spec_call(self, eng, name, e, st)


def build(repo):
    D = Dom(repo)
    D.ghost_shapes = {}
    D.contract('ball_step', tags=['C13'], modifies=[], result='real', ensures=[], assumed=True, notes='under contract in bundle vecs')
    D.contract('trsbox_linear', tags=['C13'], params={'g': 'rvec', 'a_in': 'rvec', 'b_in': 'rvec', 'Delta': 'real', 'use_fortran': 'bool'},
               requires=['the pure-Python path (the Fortran extension is not built here):: not use_fortran'], modifies=[], result='rvec',
               loops={'for:i#0': [], 'for:j#0': [('scan invariant: no side flagged so far, and every free coordinate below the scan index is strictly inside its bounds:: '
                                                  'not on_box_bdry and forall(q, 0, i_, member(cons_dirns, q) or (a[q] < xnew[q] and xnew[q] < b[q]))', 'C13')]},
               asserts={'return@text:return xnew': [('(C13) the full step is returned only when it is strictly inside the box in EVERY coordinate that is still free (the scan covers all of them):: '
                                      'forall(q, 0, ndim(), member(cons_dirns, q) or (a[q] < result[q] and result[q] < b[q]))', 'C13')]},
               dead_under=['use_fortran'], ensures=[])
    D.verify_list = ['trsbox_linear']
    return D
