"""Sidecar contracts, domain Lc with scalar facts.  Serves C12, clause "||d|| <= delta" for the boundary iteration alt_trust_step:

every pass of the inner loop ROTATES the free part of d in the plane spanned by d_free and a unit-free direction s that is orthogonal to it and has the same length:
    s = (dredg * d_free - dredsq * gnew_free) / sqrt(gredsq * dredsq - dredg^2),     d_free' = cth * d_free + sth * s,     cth = (1 - t^2)/(1 + t^2),  sth = 2t/(1 + t^2)
With the invariants  dredsq == ||d_free||^2,  dredg == d_free . gnew_free,  gredsq == ||gnew_free||^2  (dredg and gredsq are recomputed by the code, dredsq is NOT: it stays valid because
the rotation preserves the length) one gets  s . d_free == 0,  ||s||^2 == ||d_free||^2  and  cth^2 + sth^2 == 1,  hence  ||d_free'||^2 == ||d_free||^2: a rotation never changes the length of the free part of the step, and it does not touch the fixed part.
What is claimed here are exactly these facts (the three lemmas and the three scalar invariants, nonlinear real arithmetic on the real formulas).  The bookkeeping of the TOTAL length
||d||^2 across the joins of the two nested loops (merged polynomial states) stayed `unknown` in both solvers and is not claimed: "||d|| <= delta after the boundary iteration" remains a
not-decided clause of C12."""
from pyvc.domains.lincomb import LinCombDomain

T = ['C12']


def build(repo):
    D = LinCombDomain(repo, scalar_facts=True, abstract_at_sumsq=False, norm_split=False)
    D.ghost_shapes = {}
    VP = {'xopt': 'lc', 'H': 'mat', 'sl': 'lc', 'su': 'lc', 'd': 'lc', 'gnew': 'lc', 'xbdi': 'xbdi', 'qred': 'real', 'n': 'int', 'nact': 'int'}
    D.contract('d_within_bounds', tags=T, params={k: VP[k] for k in ('d', 'xopt', 'sl', 'su', 'xbdi')}, modifies=[], result='lc', ensures=[], assumed=True,
               notes='the final clip (bundle trclip); here the clauses speak about the step handed to it')
    KEEP = ('the rotations keep the length of the step:: sumsq(d) == sumsq(old(d))', 'C12')
    SC = [('dredsq is the squared length of the free part of d (it is computed once per restart and NOT updated by the rotations):: dredsq == sumsq(d[xbdi == 0])', 'C12'),
          ('dredg is the product of the free parts of d and gnew:: dredg == DOT(d[xbdi == 0], gnew[xbdi == 0])', 'C12'),
          ('gredsq is the squared length of the free part of gnew:: gredsq == sumsq(gnew[xbdi == 0])', 'C12')]
    D.contract('alt_trust_step', tags=T, params={k: VP[k] for k in ('n', 'xopt', 'H', 'sl', 'su', 'd', 'xbdi', 'nact', 'gnew', 'qred')},
               requires=['n >= 1'], modifies=[], result=None,
               loops={'for:jj#0': SC},
               asserts={'after:sredg': [('lemma: the new direction is orthogonal to the free part of the step:: DOT(s[xbdi == 0], d[xbdi == 0]) == 0', 'C12'),
                                        ('lemma: the new direction has the length of the free part of the step:: sumsq(s[xbdi == 0]) == dredsq', 'C12')],
                        'after:sdec': [('lemma: (cth, sth) is a point of the unit circle (rational parametrisation by the tangent of the half angle):: cth * cth + sth * sth == 1', 'C12')]},
               ensures=[])
    D.verify_list = ['alt_trust_step']
    return D
