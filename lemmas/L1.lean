import Mathlib.Analysis.Normed.Group.Basic
import Mathlib.Algebra.Order.Chebyshev
import Mathlib.Analysis.SpecialFunctions.Sqrt

open Finset

/-- Stop rule of Dykstra's sweep: if the squared moves of one sweep sum to less than `tol`,
the final iterate is within `sqrt (p * tol)` of every intermediate iterate. -/
theorem dykstra_stop_rule {E : Type*} [SeminormedAddCommGroup E]
    (p : ℕ) (x : ℕ → E) (tol : ℝ)
    (h : ∑ j ∈ range p, ‖x (j + 1) - x j‖ ^ 2 < tol) (i : ℕ) (hi : i ≤ p) :
    ‖x p - x i‖ ≤ Real.sqrt (p * tol) := by
  have h1 : ‖x p - x i‖ ≤ ∑ j ∈ Ico i p, ‖x (j + 1) - x j‖ := by
    rw [← Finset.sum_Ico_sub x hi]
    exact norm_sum_le _ _
  have h2 : ∑ j ∈ Ico i p, ‖x (j + 1) - x j‖ ≤ ∑ j ∈ range p, ‖x (j + 1) - x j‖ := by
    apply Finset.sum_le_sum_of_subset_of_nonneg
    · intro j hj
      simp only [mem_Ico, mem_range] at hj ⊢
      omega
    · intro j _ _
      exact norm_nonneg _
  have h3 : (∑ j ∈ range p, ‖x (j + 1) - x j‖) ^ 2
      ≤ (p : ℝ) * ∑ j ∈ range p, ‖x (j + 1) - x j‖ ^ 2 := by
    have := sq_sum_le_card_mul_sum_sq (s := range p) (f := fun j => ‖x (j + 1) - x j‖)
    simpa using this
  have h4 : (∑ j ∈ range p, ‖x (j + 1) - x j‖) ^ 2 ≤ (p : ℝ) * tol := by
    refine h3.trans ?_
    exact mul_le_mul_of_nonneg_left h.le (Nat.cast_nonneg p)
  exact (h1.trans h2).trans (Real.le_sqrt_of_sq_le h4)
#print axioms dykstra_stop_rule

/-- The same with the orientation used by the code (`prev_x - x`), as the SMT side states it:
`SUMSQ(xs, p) = ∑ j < p, ‖xs j - xs (j+1)‖²`. -/
theorem dykstra_stop_rule' {E : Type*} [SeminormedAddCommGroup E]
    (p : ℕ) (x : ℕ → E) (tol : ℝ)
    (h : ∑ j ∈ range p, ‖x j - x (j + 1)‖ ^ 2 < tol) (i : ℕ) (hi : i ≤ p) :
    ‖x p - x i‖ ≤ Real.sqrt (p * tol) := by
  apply dykstra_stop_rule p x tol _ i hi
  simpa only [norm_sub_rev] using h
#print axioms dykstra_stop_rule'
