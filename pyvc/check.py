"""check driver:  python3-vt -m pyvc.check <Cxx> [--tier quick|thorough] [--root /repo] [--replay file]

exit 0  every claimed obligation discharged (listed known findings are printed as KNOWN-FINDING lines)
exit 1  a claimed obligation is refuted and not a listed finding  -> VIOLATION property=<id> replay=<path>
exit 2  undecided (solver unknown on unchanged source, unsupported syntax, missing function ...)
exit 3  the checker crashed or a soundness guard tripped (zero obligations, failed cover)
"""
import sys, os, json, time, importlib, hashlib, re, subprocess, traceback

VERIF = os.path.dirname(os.path.dirname(os.path.abspath(__file__)))
sys.path.insert(0, VERIF)

from pyvc.src import Repo          # noqa
from pyvc.core import Engine       # noqa
from pyvc import solve as S        # noqa


def sanitize(name):
    return re.sub(r'[^A-Za-z0-9_.#-]+', '_', name)[:150]


def load_known():
    p = os.path.join(VERIF, 'known_findings.json')
    if not os.path.exists(p):
        return []
    return json.load(open(p))


def load_baseline():
    p = os.path.join(VERIF, 'baseline_obligations.json')
    if not os.path.exists(p):
        return {}
    return json.load(open(p))


def run_witness(w, root):
    """re-run the stored native witness of a known finding; returns True when the defect still shows"""
    if not w:
        return None
    script = os.path.join(VERIF, w['script'])
    env = dict(os.environ, PYTHONPATH=root, OMP_NUM_THREADS='1', OPENBLAS_NUM_THREADS='1')
    try:
        p = subprocess.run(['/venv/bin/python', script] + w.get('args', []), capture_output=True, text=True, timeout=w.get('timeout', 300), env=env,
                           cwd=VERIF)
    except subprocess.TimeoutExpired:
        return None
    # convention: witness scripts exit 1 when the defect is observed, 0 when it is not
    return p.returncode == 1, (p.stdout + p.stderr)[-2000:]


def main(argv):
    t0 = time.time()
    pid = argv[0]
    tier = os.environ.get('VERIF_TIER', 'quick')
    root = '/repo'
    i = 1
    while i < len(argv):
        if argv[i] == '--tier':
            tier = argv[i + 1]; i += 2
        elif argv[i] == '--root':
            root = argv[i + 1]; i += 2
        elif argv[i] == '--replay':
            return replay(pid, argv[i + 1], root)
        else:
            i += 1
    seed = int(os.environ.get('VERIF_SEED', '0'))
    from contracts import props
    cfg = props.PROPS[pid]
    timeout_ms = 150000 if tier == 'quick' else 400000      # one binary64 call-site obligation of bundle box needs ~35 s alone: 150 s keeps its verdict stable under load
    repo = Repo(root)
    all_obls, engines, extra = [], [], []
    functions = {}
    unsupported = []
    assumptions, dropped = [], set()
    assumed_contracts = []
    for bname in cfg['bundles']:
        mod = importlib.import_module('contracts.' + bname)
        D = mod.build(repo)
        eng = Engine(repo, D)
        for q in D.verify_list:
            con = D.contracts[q]
            if con.assumed:
                continue
            try:
                eng.verify(q)
            except Exception:
                print('CHECKER-ERROR while generating VCs for %s' % q)
                traceback.print_exc()
                return finish(pid, tier, seed, t0, cfg, [], {}, [], 3, note='generator crashed on ' + q)
        for q, con in D.contracts.items():
            if con.assumed:
                assumed_contracts.append('%s [%s]: %s' % (q, bname, con.notes or 'assumed'))
        for ob in eng.obls:
            ob.bundle = bname
            ob.base_name = ob.name
            if len(cfg['bundles']) > 1:
                ob.name = '%s [%s]' % (ob.name, bname)
            ob.logic = getattr(D, 'smt_logic', 'ALL')
            ob.portfolio = getattr(D, 'portfolio', False)
            ob.hermetic = getattr(D, 'hermetic', False)
            ob.slice_prefixes = getattr(D, 'slice_prefixes', ())
        all_obls += eng.obls
        functions.update({'%s [%s]' % (q, bname): v for q, v in eng.functions_run.items()})
        unsupported += [(bname,) + u for u in eng.unsupported]
        assumptions += [a for a in D.assumptions if a not in assumptions]
        # every clause labelled A-... is assumed where it stands, never discharged: list each one
        for q, con in D.contracts.items():
            groups = [con.requires, con.ensures] + list(con.loops.values()) + list(con.asserts.values())
            for c in (c for g in groups for c in g):
                if c.label.startswith('A-'):
                    a = 'assumed clause in %s [%s]: %s' % (q, bname, c.label)
                    if a not in assumptions:
                        assumptions.append(a)
        dropped |= eng.dropped
        if hasattr(mod, 'extra_obligations'):
            xs = mod.extra_obligations(repo, D, pid)
            for ob in xs:
                ob.bundle = bname
            all_obls += xs
    for step in cfg.get('steps', []):
        r = step(repo, tier, root)
        for ob in r:
            ob.bundle = 'step'
        all_obls += r
    S.discharge(all_obls, timeout_ms, second=(tier == 'thorough'))
    if tier == 'thorough':
        from pyvc import replay as R
        cfg = dict(cfg, thorough_native=R.thorough_native(cfg['bundles'], root))
    claimed = [o for o in all_obls if pid in o.tags]
    deps = [o for o in all_obls if pid not in o.tags]
    return decide(pid, tier, seed, t0, cfg, claimed, deps, functions, unsupported, assumptions, dropped, assumed_contracts, root, repo)


def ok(ob):
    st = ob.result['status']
    return st == ('unsat' if ob.expect == 'unsat' else 'sat')


def decide(pid, tier, seed, t0, cfg, claimed, deps, functions, unsupported, assumptions, dropped, assumed_contracts, root, repo):
    known = [k for k in load_known() if k.get('property') == pid and k.get('status') == 'open']
    baseline = load_baseline()
    lines, violations, undecided, guard = [], [], [], []
    findings_matched = []
    if not claimed:
        guard.append('zero obligations generated for %s' % pid)
    proofs = [o for o in claimed if o.kind != 'cover']
    covers = [o for o in claimed if o.kind == 'cover']
    n_dis = 0
    refuted_names = set()
    stale_refuted = []
    for ob in proofs:
        st = ob.result['status']
        if st == 'unsat':
            n_dis += 1
            continue
        if ob.meta.get('missing_function'):
            undecided.append((ob, 'function under contract is missing or renamed'))
            continue
        if ob.meta.get('stale_contract'):
            # the contract no longer matches the function's structure: a refutation is trusted only if it replays on the real code (native replay / falsification search
            # with the executable form of the property); otherwise nothing is concluded
            why = ('the sidecar contract of %s names %s, which the function no longer has (restructured source): contract out of date'
                   % (ob.func, ', '.join(ob.meta['stale_contract'][:4])))
            if st == 'sat' and not ob.meta.get('untracked'):
                stale_refuted.append((ob, why))
            else:
                undecided.append((ob, why + ', nothing is concluded'))
            continue
        if ob.meta.get('untracked'):
            # the clause mentions a value the engine could not track on this path (e.g. a renamed local, an unsupported construct): never a violation by itself.  If the obligation was
            # discharged on the baseline tree and the source of its function has changed since, the native replay / falsification search is asked for a failing input (as for a stale contract):
            # a violation is reported only with one
            why = 'clause could not be evaluated on the tracked state (untracked value / renamed local)'
            b = baseline.get(ob.name)
            fh = functions_hash(functions, ob.func)
            if b and b.get('status') == 'unsat' and b.get('hash') and fh and b['hash'] != fh:
                stale_refuted.append((ob, why + '; discharged on the baseline tree, source of %s changed' % ob.func))
            else:
                undecided.append((ob, why))
            continue
        if st == 'sat':
            refuted_names.add(ob.name)
            continue
        # unknown / error: baseline rule
        b = baseline.get(ob.name)
        fh = functions_hash(functions, ob.func)
        if b and b.get('status') == 'unsat' and b.get('hash') and fh and b['hash'] != fh:
            ob.result['baseline_rule'] = 'discharged on the baseline tree, source of %s changed, now %s (%s)' % (ob.func, st, ob.result.get('reason', ''))
            refuted_names.add(ob.name)
        else:
            undecided.append((ob, 'solver answered %s (%s)' % (st, ob.result.get('reason', ''))))
    refuted = [o for o in proofs if o.name in refuted_names]
    if stale_refuted:
        from pyvc import replay as R
        os.makedirs(os.path.join(VERIF, 'replays', pid), exist_ok=True)
        found = False
        for ob, why in stale_refuted[:6]:
            rep = R.make_replay(pid, ob, root, repo, tier)
            if rep.get('native', {}).get('reproduced'):
                ob.result['stale_but_replayed'] = why
                refuted.append(ob)
                found = True
            else:
                undecided.append((ob, why + '; the refutation does not replay on the real code, nothing is concluded'))
        for ob, why in stale_refuted[6:]:
            undecided.append((ob, why + ('; not replayed separately' if found else ', nothing is concluded')))
    if os.environ.get('PYVC_BASELINE_OUT'):
        # maintainer command tools/gen_baseline.py: dump name -> (verdict, hash of the function's source); never set by a registered check
        os.makedirs(os.environ['PYVC_BASELINE_OUT'], exist_ok=True)
        json.dump({o.name: {'status': o.result['status'], 'hash': functions_hash(functions, o.func)} for o in proofs},
                  open(os.path.join(os.environ['PYVC_BASELINE_OUT'], pid + '.json'), 'w'), indent=0)
    # known findings
    kf_used = {}
    for ob in refuted:
        k = next((k for k in known if k['obligation'] in (ob.name, getattr(ob, 'base_name', ob.name))), None)
        if k is None:
            violations.append(ob)
            continue
        key = k['id']
        if key not in kf_used:
            w = run_witness(k.get('witness'), root)
            kf_used[key] = (k, w)
        k, w = kf_used[key]
        if w is None or w[0] is None:
            undecided.append((ob, 'witness of known finding %s could not be run' % key))
        elif w[0]:
            findings_matched.append({'finding': key, 'obligation': ob.name, 'witness_still_fails': True})
        else:
            # obligation still refuted but the stored witness no longer fails: a different violation
            violations.append(ob)
    for key, (k, w) in kf_used.items():
        if w and w[0]:
            lines.append('KNOWN-FINDING: property=%s %s [%s]' % (pid, k['what'], key))
    for ob in claimed:
        if (ob.result or {}).get('disagreement'):
            guard.append('two solver runs gave different definite answers on %s: %s' % (ob.name, ob.result['disagreement']))
    for ob in covers:
        if not ok(ob):
            guard.append('cover failed (vacuity guard): %s -> %s' % (ob.name, ob.result['status']))
    relevant_unsup = [u for u in unsupported]
    if relevant_unsup:
        undecided_unsup = ['unsupported syntax in %s line %s: %s [%s]' % (u[1], u[2], u[3], u[0]) for u in relevant_unsup]
    else:
        undecided_unsup = []
    dep_failed = [o.name for o in deps if o.kind != 'cover' and o.result['status'] != 'unsat']
    # replay files + VIOLATION lines
    os.makedirs(os.path.join(VERIF, 'replays', pid), exist_ok=True)
    from pyvc import replay as R
    for ob in violations:
        path = os.path.join(VERIF, 'replays', pid, sanitize(ob.name) + '.json')
        rep = R.make_replay(pid, ob, root, repo, tier)
        json.dump(rep, open(path, 'w'), indent=1, default=str)
        if rep.get('native', {}).get('reproduced') is False and rep['native'].get('replayable'):
            b = baseline.get(ob.name)
            if not (b and b.get('status') == 'unsat'):
                # not an obligation that was discharged on the baseline tree: without a failing input this is not reported as a violation
                undecided.append((ob, 'refuted, but the counter-model does not reproduce natively and the obligation is not in the baseline of discharged obligations'))
                continue
            # discharged on the baseline tree, refuted now: reported, with the solver's counter-model in the replay file, even though the native search found no failing input
            rep['native']['note'] = 'obligation was discharged on the baseline tree (baseline_obligations.json) and is refuted on this tree; the native search did not find a concrete failing input'
            json.dump(rep, open(path, 'w'), indent=1, default=str)
        tail = '' if rep.get('native', {}).get('reproduced') else ' no-failing-input-found'
        lines.append('VIOLATION property=%s replay=%s obligation=%s%s' % (pid, path, ob.name.replace(' ', '_'), tail))
    code = 0
    if any(l.startswith('VIOLATION') for l in lines):
        code = 1
    elif guard:
        code = 3
    elif undecided or undecided_unsup:
        code = 2
    for l in lines:
        print(l)
    for ob, why in undecided:
        print('UNDECIDED property=%s obligation=%s: %s' % (pid, ob.name, why))
    for u in undecided_unsup:
        print('UNDECIDED property=%s %s' % (pid, u))
    for g in guard:
        print('GUARD property=%s %s' % (pid, g))
    if dep_failed:
        print('NOTE property=%s: %d obligation(s) of other properties in the same bundles are not discharged (they are decided by their own checks): %s'
              % (pid, len(dep_failed), ', '.join(dep_failed[:5])))
    n_claimed = len(proofs) - len(findings_matched)
    samples = []
    for ob in proofs[:1] + proofs[len(proofs) // 2:len(proofs) // 2 + 1] + proofs[-1:]:
        try:
            samples.append({'obligation': ob.name, 'result': ob.result['status'], 'smtlib': S.to_smt2(ob)[:3000]})
        except Exception:
            pass
    by_backend = {}
    for ob in proofs:
        by_backend[ob.result['backend']] = by_backend.get(ob.result['backend'], 0) + 1
    ev = {
        'property_id': pid, 'tier': tier, 'seed': seed, 'level': cfg.get('level', 'proof'),
        'coverage': {
            'obligations': n_claimed,
            'discharged': n_dis,
            'checker_cmd': './check %s --tier %s' % (pid, tier),
            'trusted_base': cfg.get('trusted_base', []) + ['z3 5.1.0 (python3-vt), cvc5 1.0.3 for z3 unknowns', 'CPython ast module',
                                                          'pyvc VC generator (/verif/pyvc)'],
            'covers': {'total': len(covers), 'sat': sum(ok(o) for o in covers)},
            'known_findings': findings_matched,
            'refuted': [o.name for o in violations],
            'undecided': [o.name for o, _ in undecided],
            'functions_under_contract': functions,
            'assumed_contracts': assumed_contracts,
            'dropped_constructs': sorted(dropped) + ['docstrings/comments', 'from __future__ imports'],
            'unsupported_syntax': undecided_unsup,
            'obligations_by_backend': by_backend,
            'solver_time_s': round(sum(o.result['time'] for o in claimed), 3),
            'slowest': sorted([(round(o.result['time'], 3), o.name) for o in proofs], reverse=True)[:5],
            'dependency_obligations': {'total': len(deps), 'not_discharged': dep_failed},
            'per_obligation': [{'name': o.name, 'kind': o.kind, 'result': o.result['status'], 'backend': o.result['backend'],
                                'time_s': round(o.result['time'], 3), 'bundle': getattr(o, 'bundle', '')} for o in claimed],
            'samples': samples,
            'not_decided_clauses': cfg.get('not_decided', []),
        },
        'assumptions': assumptions + cfg.get('assumptions', []),
        'wall_s': round(time.time() - t0, 2),
        'violations': sum(1 for l in lines if l.startswith('VIOLATION')),
    }
    if tier == 'thorough' and cfg.get('thorough_native'):
        tn = cfg['thorough_native']
        for k in ('assumption_tests', 'runtime_contracts'):
            if k in tn:
                ev['coverage'][k] = tn[k]
        rc = tn.get('runtime_contracts') or {}
        if rc.get('violation') and not violations and not findings_matched:
            # the prover discharged every obligation but a clause fails at run time on the real code: unsound engine or wrong library model
            tn['guard'].append('run-time contract violation although every obligation was discharged: %s / %s' % (rc['violation'].get('method'), rc['violation'].get('clause')))
        for g in tn.get('guard', []):
            print('GUARD property=%s %s' % (pid, g))
            code = max(code, 3) if code != 1 else 1
    if tier == 'thorough':
        agree = [o for o in claimed if o.result.get('second')]
        ev['coverage']['second_solver'] = {'checked': len(agree), 'disagree': [o.name for o in agree if o.result['second']['status'] in ('sat', 'unsat')
                                                                               and o.result['second']['status'] != o.result['status']]}
        if ev['coverage']['second_solver']['disagree']:
            print('GUARD property=%s solvers disagree on %s' % (pid, ev['coverage']['second_solver']['disagree']))
            code = max(code, 3) if code != 1 else 1
    # the evidence directory describes /repo itself; a run on a scratch tree (--root, seeded-change validation) writes next to the replays (git-ignored)
    evdir = os.path.join(VERIF, 'evidence') if os.path.realpath(root) == os.path.realpath('/repo') else os.path.join(VERIF, 'replays', 'scratch-evidence')
    ev['coverage']['tree'] = os.path.realpath(root)
    os.makedirs(evdir, exist_ok=True)
    json.dump(ev, open(os.path.join(evdir, pid + '.json'), 'w'), indent=1, default=str)
    print('%s: %d obligations claimed, %d discharged, %d known-finding, %d refuted, %d undecided, %d/%d covers sat; %.1fs [%s]'
          % (pid, n_claimed, n_dis, len(findings_matched), len(violations), len(undecided), sum(ok(o) for o in covers), len(covers),
             time.time() - t0, tier))
    return code


def functions_hash(functions, qual):
    for k, v in functions.items():
        if k.split(' ')[0] == qual:
            return v['hash']
    return None


def finish(pid, tier, seed, t0, cfg, *a, **k):
    return 3


def replay(pid, path, root):
    from pyvc import replay as R
    return R.replay_file(pid, path, root)


if __name__ == '__main__':
    try:
        code = main(sys.argv[1:])
    except SystemExit:
        raise
    except Exception:
        traceback.print_exc()
        print('CHECKER-ERROR (exit 3): the checker itself crashed; this is not a verdict about the property')
        code = 3
    sys.exit(code)
