"""Domain Rd — real scalars (trust-region radii).  Floats are mathematical reals ("machine arithmetic treated as mathematical":
the radius invariants are order facts between a handful of scalars; NaN/inf do not exist here).  sqrt is axiomatised
(s >= 0 and s*s == arg), norms are non-negative reals, everything array-valued is havoc."""
import ast, z3
from ..core import *
from ..domain import Domain, ParamsMixin, IntHavoc


class RadiiDomain(ParamsMixin, Domain):
    name = 'Rd'
    float_mode = 'real'
    smt_logic = None
    inline = {'ExitInformation.__init__', 'ExitInformation.message', 'ExitInformation.able_to_do_restart', 'Controller.n', 'Controller.m',
              'Controller.npt'}

    def __init__(self, repo):
        Domain.__init__(self, repo)
        fs = self.field_shapes
        for f in ('delta', 'rho', 'rhobeg', 'rhoend'):
            fs[('Controller', f)] = 'real'
        fs[('Controller', 'h')] = 'opt:cb:h'
        fs[('Controller', 'model')] = 'ref:Model'
        self.assumptions += [
            'A-real: radii arithmetic is over the reals (the property is a set of order relations between scalars; rounding of products such as '
            '0.1*delta is not modelled)', 'sqrt(a) is a real s >= 0 with s*s == a; norms are non-negative reals',
            'A-params: check_all_params returns True only inside the type/range table read from params.py on this run',
            'A-resolve / syntactic frames: methods without a contract may write only the attributes their (transitive, name-based) frame lists']
        b = self.builtins
        b['sqrt'] = self.b_sqrt
        b['np.sqrt'] = self.b_sqrt
        b['LA.norm'] = self.b_norm
        b['np.linalg.norm'] = self.b_norm
        b['ParameterList.__call__'] = self.params_get
        b['ParameterList.check_all_params'] = self.params_check_all

    def init_state(self, st, fi, con):
        Domain.init_state(self, st, fi, con)
        self.params_init(st)

    def default_param(self, fi, nm, st):
        if nm == 'self' and fi.cls:
            return Ref('self', fi.cls)
        if nm == 'params':
            return Ref('params', 'ParameterList')
        if nm in ('objfun', 'nsamples', 'h', 'prox_uh'):
            return Callback(nm)
        return UNK

    def global_name(self, eng, name, st):
        if name == 'params':
            return Ref('params', 'ParameterList')
        return Domain.global_name(self, eng, name, st)

    def name_shape(self, name):
        return {'exit_info': 'optexit', 'ratio': 'real', 'dnorm': 'real', 'tau': 'real', 'finished_growing': 'bool', 'nruns_so_far': 'int',
                'current_iter': 'int', 'distsq': 'real', 'dist': 'real'}.get(name)

    def on_assign_name(self, name, v, st):
        if is_unk(v) and not isinstance(v, IntHavoc):
            shp = self.name_shape(name)
            if shp in ('real', 'int', 'bool', 'optexit'):
                return self.fresh(shp, name, st)
        return v

    def b_sqrt(self, eng, node, args, kw, st):
        a = args[0] if args else UNK
        s = freal('sqrt')
        st.assume(s >= 0)
        if isnum(a):
            st.assume(s * s == to_real(a))
        return s

    def b_norm(self, eng, node, args, kw, st):
        r = freal('norm')
        st.assume(r >= 0)
        return r

    def lib_call(self, eng, e, name, args, kwargs, st):
        if name in self.builtins:
            return self.builtins[name](eng, e, args, kwargs, st)
        if name in ('np.max', 'np.min'):
            return freal('red')
        return UNK

    def default_loop_invariant(self, eng, loop, st, frame):
        con = frame.contract
        if con is None or len(eng.frames) != 1 or not con.ledger_inv:
            return []
        w = set()
        for s_ in loop.body:
            w |= self.repo.direct_writes(s_)
            for n in ast.walk(s_):
                if isinstance(n, ast.Call):
                    w |= self.call_frame(eng, n)
        if not (w & {'delta', 'rho', 'rhoend'}):
            return []
        return con.ledger_inv

    def construct(self, eng, cls, e, st):
        r = Domain.construct(self, eng, cls, e, st)
        if cls == 'ExitInformation' and isinstance(r, Rec) and len(eng.frames) == 1:
            con = eng.frames[0].contract
            msg = r.fields.get('msg')
            if con is not None and isinstance(msg, StrV) and z3.is_int_value(msg.id):
                text = INTERN_REV[msg.id.as_long()]
                for lit, cls_ in con.msg_asserts.items():
                    if lit in text:
                        for c in cls_:
                            v = eng.eval_clause(c, st, eng.frames[0].old)
                            eng.oblige(st, v, 'assert', c.label, c.tags, e.lineno, site='msg "%s"' % lit[:40])
        return r
