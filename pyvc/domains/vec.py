"""Domain V — real vectors.  Scalars are mathematical reals, vectors are opaque values with uninterpreted  +, -, scaling, norm and a fixed, listed set
of vector-space / norm axioms; a projector P[i] is an uninterpreted map PROJ(list, i, w) with its contract (output in C_i; a member of C_i is a
fixed point).  "Machine arithmetic treated as mathematical" — the properties decided here say "up to rounding" themselves."""
import ast, z3
from ..core import *
from ..domain import Domain, ParamsMixin
from .model import V, I, vadd_f, vsub_f, ZEROV, Arr

R = z3.RealSort()
norm_f = z3.Function('norm', V, R)
vscale_r = z3.Function('vscaler', R, V, V)
PLv = z3.DeclareSort('PList')
PLEN = z3.Function('PLEN', PLv, I)
PROJ = z3.Function('PROJ', PLv, I, V, V)               # P[i](w)
INC = z3.Function('INC', PLv, I, V, z3.BoolSort())     # w in C_i (the set the i-th element of P projects onto)
APPEND = z3.Function('APPEND', PLv, V, R, PLv)         # list(P) + [ball(c, r)]
RSV = z3.Function('RSV', V, V)                         # remove_scaling(v, scaling_changes)
HUf = z3.Function('HU', V, R)                          # h(v, *argsh)   (A-callback: deterministic)
DOT = z3.Function('DOT', V, V, R)
MATV = z3.Function('MATV', V, V, V)                    # H.dot(s)
FINV = z3.Function('ALLFINITE', V, z3.BoolSort())          # np.all(np.isfinite(v)): every entry of v is finite
NONANV = z3.Function('NONAN', V, z3.BoolSort())           # not np.any(np.isnan(v))
TRLIN = z3.Function('TRLIN', V, V, V, R, V)                 # trsbox_linear(g, a, b, Delta): a deterministic function of its arguments
MVF = z3.Function('MVF', V, V, V, V, R)                # util.model_value(g, H, s, xopt, h, ...) as a function of its vector arguments


def vec_axioms():
    a, b, c = z3.Consts('a_ b_ c_', V)
    t = z3.Real('t_')
    return [
        z3.ForAll([a, b, c], vsub_f(c, vsub_f(a, vsub_f(b, c))) == vsub_f(b, a)),      # c - (a - (b - c)) == b - a
        z3.ForAll([a, b], vsub_f(vadd_f(a, b), a) == b),
        z3.ForAll([a, b], vadd_f(a, vsub_f(b, a)) == b),
        z3.ForAll([a], vsub_f(a, ZEROV) == a),
        z3.ForAll([a], vsub_f(a, a) == ZEROV),
        z3.ForAll([a], vadd_f(a, ZEROV) == a),
        z3.ForAll([a], norm_f(a) >= 0),
        norm_f(ZEROV) == 0,
        z3.ForAll([t, a], norm_f(vscale_r(t, a)) == z3.If(t >= 0, t, -t) * norm_f(a)),
        z3.ForAll([a], vscale_r(z3.RealVal(1), a) == a),
        z3.ForAll([a], DOT(ZEROV, a) == 0),
    ]


class PListV:
    def __init__(self, tok=None):
        self.tok = tok if tok is not None else z3.Const(fresh_name('P'), PLv)

    def merge(self, c, o):
        return PListV(z3.If(c, self.tok, o.tok))

    def fresh_like(self, name, st):
        return self

    def length(self, st):
        st.assume(PLEN(self.tok) >= 0)
        return PLEN(self.tok)


class ProjRef:
    def __init__(self, lst, idx):
        self.lst, self.idx = lst, idx


class BallFn:
    """closure  lambda w: pball(w, c, r)"""

    def __init__(self, c, r):
        self.c, self.r = c, r


class VecDomain(ParamsMixin, Domain):
    name = 'V'
    float_mode = 'real'
    smt_logic = None
    inline = {'sumsq_'}
    spec_names = ('zerov',)       # names the contract language resolves itself (not locals of the code)

    def __init__(self, repo):
        Domain.__init__(self, repo)
        self.assumptions += ['A-real: floats are reals in this domain (the clauses decided here are stated up to rounding)',
                             'vectors are opaque; +, -, scaling and the norm obey the listed vector-space / norm axioms (pyvc/domains/vec.py)',
                             'L0 (trusted lemma, elementary induction): the ghost sum SUMSQ(xs, k) reads xs[0..k] only',
                             'A-callback: P[i](w) is a deterministic function of (i, w) that returns a point of C_i and returns members of C_i unchanged (exact projector)']
        b = self.builtins
        b['np.linalg.norm'] = self.b_norm
        b['LA.norm'] = self.b_norm
        b['np.zeros'] = self.b_zeros
        b['np.max'] = lambda eng, n, a, k, st: self._minmax(a, st, True)
        b['np.maximum'] = lambda eng, n, a, k, st: self._minmax(a, st, True) if len(a) == 2 and all(isz(x) and isnum(x) for x in a) else UNK
        b['float'] = self.b_float_v
        b['list'] = self.b_list_v
        b['np.isfinite'] = lambda eng, n, a, k, st: ElemTest('finite', a[0]) if a and self.isv(a[0]) else UNK
        b['np.isnan'] = lambda eng, n, a, k, st: ElemTest('nan', a[0]) if a and self.isv(a[0]) else UNK
        b['np.all'] = lambda eng, n, a, k, st: FINV(a[0].v) if a and isinstance(a[0], ElemTest) and a[0].kind == 'finite' else UNK
        b['np.any'] = lambda eng, n, a, k, st: z3.Not(NONANV(a[0].v)) if a and isinstance(a[0], ElemTest) and a[0].kind == 'nan' else UNK
        b['ParameterList.__call__'] = self.params_get
        b['remove_scaling'] = lambda eng, n, a, k, st: RSV(a[0]) if self.isv(a[0]) else UNK
        b['np.dot'] = lambda eng, n, a, k, st: DOT(a[0], a[1]) if len(a) >= 2 and self.isv(a[0]) and self.isv(a[1]) else UNK
        b['sqrt'] = self.b_sqrt
        b['np.sqrt'] = self.b_sqrt

    def default_param(self, fi, nm, st):
        if nm == 'self' and fi.cls:
            return Ref('self', fi.cls)
        if nm == 'params':
            return Ref('params', 'ParameterList')
        return UNK

    def init_state(self, st, fi, con):
        Domain.init_state(self, st, fi, con)
        self.params_init(st)
        for ax in vec_axioms():
            st.assume(ax)
        fv = z3.Const('fv_', V)
        st.assume(z3.ForAll([fv], z3.Implies(FINV(fv), NONANV(fv))))
        st.assume(FINV(ZEROV))
        lst, w = z3.Const('l_', PLv), z3.Const('w_', V)
        i = z3.Int('i_')
        st.assume(z3.ForAll([lst, i, w], INC(lst, i, PROJ(lst, i, w))))
        st.assume(z3.ForAll([lst, i, w], z3.Implies(INC(lst, i, w), PROJ(lst, i, w) == w)))

    def fresh(self, shape, name, st=None):
        if shape == 'V':
            return z3.Const(fresh_name(name), V)
        if shape == 'plist':
            return PListV()
        if shape == 'arr:V':
            return Arr(z3.Array(fresh_name(name), I, V), fint(name + '_len'))
        return Domain.fresh(self, shape, name, st)

    def global_name(self, eng, name, st):
        if name == 'zerov':
            return ZEROV
        return Domain.global_name(self, eng, name, st)

    def coerce(self, v, sort, st):
        return v if isz(v) and v.sort() == sort else None

    def isv(self, v):
        return isz(v) and v.sort() == V

    def b_norm(self, eng, node, args, kw, st):
        v = args[0] if args else UNK
        if self.isv(v):
            return norm_f(v)
        r = freal('norm')
        st.assume(r >= 0)
        return r

    def b_sqrt(self, eng, node, args, kw, st):
        a = args[0] if args else UNK
        s = freal('sqrt')
        st.assume(s >= 0)
        if isnum(a):
            st.assume(s * s == to_real(a))
        return s

    def b_zeros(self, eng, node, args, kw, st):
        a = args[0] if args else UNK
        if isinstance(a, tuple) and len(a) == 2 and isint(a[0]):
            return Arr(z3.K(I, ZEROV), a[0])
        return ZEROV

    def b_float_v(self, eng, node, args, kw, st):
        v = args[0] if args else UNK
        if isinstance(v, StrV) and z3.is_int_value(v.id) and INTERN_REV[v.id.as_long()].strip().lower() in ('inf', '+inf'):
            return InfOr(z3.BoolVal(True), z3.RealVal(0))
        if isint(v):
            return z3.ToReal(v)
        return v if isreal(v) else UNK

    def binop(self, op, a, b, st, node=None):
        if self.isv(a) and self.isv(b):
            if op == '+':
                return vadd_f(a, b)
            if op == '-':
                return vsub_f(a, b)
            return UNK
        if isnum(a) and self.isv(b) and op == '*':
            return vscale_r(to_real(a), b)
        if self.isv(a) and isnum(b) and op == '*':
            return vscale_r(to_real(b), a)
        if self.isv(a) or self.isv(b):
            return z3.Const(fresh_name('v'), V)
        if isinstance(a, InfOr) or isinstance(b, InfOr):
            x, y = as_infor(a), as_infor(b)
            if x is None or y is None or op not in ('+',):
                return UNK
            return InfOr(z3.Or(x.isinf, y.isinf), x.val + y.val)
        return Domain.binop(self, op, a, b, st, node)

    def augassign(self, op, cur, inc, st, node):
        return self.binop(op, cur, inc, st, node)

    def unop(self, op, v, st):
        if op == '-' and self.isv(v):
            return vscale_r(z3.RealVal(-1), v)
        return Domain.unop(self, op, v, st)

    def compare(self, op, a, b, st, node=None):
        if isinstance(a, InfOr) or isinstance(b, InfOr):
            x, y = as_infor(a), as_infor(b)
            if x is None or y is None:
                return UNK
            fin = z3.And(z3.Not(x.isinf), z3.Not(y.isinf))
            if op == '>=':
                return z3.Or(x.isinf, z3.And(fin, x.val >= y.val))
            if op == '>':
                return z3.Or(z3.And(x.isinf, z3.Not(y.isinf)), z3.And(fin, x.val > y.val))
            if op == '<=':
                return z3.Or(y.isinf, z3.And(fin, x.val <= y.val))
            if op == '<':
                return z3.Or(z3.And(y.isinf, z3.Not(x.isinf)), z3.And(fin, x.val < y.val))
            return UNK
        if self.isv(a) and self.isv(b) and op in ('==', '!='):
            return (a == b) if op == '==' else (a != b)
        if isinstance(a, PListV) and isinstance(b, PListV) and op in ('==', '!='):
            return (a.tok == b.tok) if op == '==' else (a.tok != b.tok)
        return Domain.compare(self, op, a, b, st, node)

    def merge_inf(self):
        pass

    def truth(self, v, st):
        if isinstance(v, PListV):
            return PLEN(v.tok) > 0
        return Domain.truth(self, v, st)

    def load_subscript(self, eng, e, st):
        base = eng.ev(e.value, st)
        if isinstance(base, PListV):
            return ProjRef(base, eng.ev(e.slice, st))
        return Domain.load_subscript(self, eng, e, st)

    def call_value(self, eng, fv, e, st, name):
        if isinstance(fv, ProjRef):
            args, _ = eng.eval_args(e, st)
            w = args[0] if args and self.isv(args[0]) else z3.Const(fresh_name('w'), V)
            if isint(fv.idx):
                return PROJ(fv.lst.tok, fv.idx, w)
            return z3.Const(fresh_name('proj'), V)
        return Domain.call_value(self, eng, fv, e, st, name)

    def call_method(self, eng, recv, meth, e, st):
        r0 = recv.val if isinstance(recv, Opt) else recv
        if self.isv(r0) and meth in ('copy', 'reshape', 'astype'):
            eng.eval_args(e, st)
            return r0
        if self.isv(r0) and meth == 'dot':
            args, _ = eng.eval_args(e, st)
            return MATV(r0, args[0]) if args and self.isv(args[0]) else z3.Const(fresh_name('v'), V)
        if isinstance(r0, Arr) and meth == 'copy':
            return r0
        if isinstance(r0, PListV) and meth == 'append':
            args, _ = eng.eval_args(e, st)
            new = PListV()
            n = PLEN(r0.tok)
            st.assume(z3.And(n >= 0, PLEN(new.tok) == n + 1))
            j, w = z3.Int('j_'), z3.Const('w_', V)
            # the earlier elements are the same projectors onto the same sets
            st.assume(z3.ForAll([j, w], z3.Implies(z3.And(0 <= j, j < n), z3.And(PROJ(new.tok, j, w) == PROJ(r0.tok, j, w), INC(new.tok, j, w) == INC(r0.tok, j, w)))))
            fn = args[0] if args else None
            ball = self.ball_closure(eng, fn, st)
            if ball is not None:
                c, r = ball
                # ghost: the set of the appended element is the ball B(c, r) — justified by util.pball's contract (output in the ball; members are fixed points)
                st.assume(z3.ForAll([w], INC(new.tok, n, w) == (norm_f(vsub_f(w, c)) <= r)))
            if isinstance(e.func.value, ast.Name):
                st.env[e.func.value.id] = new
            return NONE
        return Domain.call_method(self, eng, recv, meth, e, st)

    def ball_closure(self, eng, fn, st):
        """lambda w: pball(w, c, r)  ->  (c, r)"""
        if not isinstance(fn, Fn) or not isinstance(fn.node, ast.Lambda):
            return None
        lam = fn.node
        b = lam.body
        if len(lam.args.args) == 1 and isinstance(b, ast.Call) and isinstance(b.func, ast.Name) and b.func.id == 'pball' and len(b.args) == 3 \
                and isinstance(b.args[0], ast.Name) and b.args[0].id == lam.args.args[0].arg:
            sub = st.copy()
            sub.env = dict(fn.env)
            c, r = eng.ev(b.args[1], sub), eng.ev(b.args[2], sub)
            if self.isv(c) and isnum(r):
                return c, to_real(r)
        return None

    def b_list_v(self, eng, n, a, k, st):
        if a and isinstance(a[0], PListV):
            return PListV(a[0].tok)
        return Domain.b_list(self, eng, n, a, k, st)

    def load_attr(self, eng, base, attr, st, node):
        if self.isv(base) and attr in ('shape', 'size'):
            return UNK
        return Domain.load_attr(self, eng, base, attr, st, node)

    def callback(self, eng, cb, e, args, kwargs, st):
        if cb.name == 'h' and args and self.isv(args[0]):
            return HUf(args[0])
        return Domain.callback(self, eng, cb, e, args, kwargs, st)

    def lib_call(self, eng, e, name, args, kwargs, st):
        if name in self.builtins:
            return self.builtins[name](eng, e, args, kwargs, st)
        return UNK

    def spec_call(self, eng, name, e, st):
        fs = {'TRLIN': TRLIN, 'vscaler': lambda t, v: vscale_r(to_real(t), v), 'DOT': DOT, 'ALLFINITE': FINV, 'MVF': MVF, 'HU': HUf, 'RSV': RSV, 'norm': norm_f, 'vsub': vsub_f, 'vadd': vadd_f, 'PROJ': lambda l, i, w: PROJ(l.tok if isinstance(l, PListV) else l, i, w),
              'INC': lambda l, i, w: INC(l.tok if isinstance(l, PListV) else l, i, w)}
        if name in fs:
            args = [eng.ev(a, st) for a in e.args]
            if any(is_unk(a) or a is NONE or isinstance(a, (Opt, tuple)) for a in args):
                return UNK
            try:
                return fs[name](*args)
            except z3.Z3Exception:
                return UNK
        if name == 'select':
            arr, i = eng.ev(e.args[0], st), eng.ev(e.args[1], st)
            if isinstance(arr, Arr):
                arr = arr.arr
            if not isz(arr) or not isint(i):
                return UNK
            return z3.Select(arr, i)
        if name == 'store':
            arr, i, v = [eng.ev(a, st) for a in e.args]
            if not isint(i) or not isz(v) or is_unk(arr):
                return UNK
            if isinstance(arr, Arr):
                return Arr(z3.Store(arr.arr, i, v), arr.len)
            return z3.Store(arr, i, v)
        if name == 'sq':
            v = eng.ev(e.args[0], st)
            return v * v
        if name == 'isinf':
            v = as_infor(eng.ev(e.args[0], st))
            return v.isinf if v is not None else UNK
        if name == 'rval':
            v = as_infor(eng.ev(e.args[0], st))
            return v.val if v is not None else UNK
        return Domain.spec_call(self, eng, name, e, st)


class ElemTest:
    """np.isfinite(v) / np.isnan(v): an elementwise test awaiting its reduction"""

    def __init__(self, kind, v):
        self.kind, self.v = kind, v


class InfOr:
    """a float that is either +inf or a real number (float('inf') sentinels that are only compared)"""

    def __init__(self, isinf, val):
        self.isinf, self.val = isinf, val

    def merge(self, c, o):
        return InfOr(z3.If(c, self.isinf, o.isinf), z3.If(c, self.val, o.val))

    def fresh_like(self, name, st):
        return InfOr(fbool(name + '_isinf'), freal(name))


def as_infor(v):
    if isinstance(v, InfOr):
        return v
    if isnum(v):
        return InfOr(z3.BoolVal(False), to_real(v))
    return None
