"""Domain M — model bookkeeping.

Per-interpolation-point data are z3 arrays with a symbolic length (points, fval_v : Int -> V; objval : Int -> Float64;
nsamples, eval_num : Int -> Int).  Objective values are IEEE-754 binary64 *with NaN*; vectors / matrices are opaque
values of an uninterpreted sort V with uninterpreted  sumsq, h∘U (the regulariser applied to the un-scaled point),
vector addition/subtraction/clip (real-vector-space axioms, instantiated where used) — "machine arithmetic treated as
mathematical" applies to the *vector* arithmetic only, never to the scalar comparisons that select the incumbent.
"""
import ast, z3
from ..core import *
from ..domain import Domain, LIB_ROOTS

# binary64 scalars of this domain: an uninterpreted sort with  isnan : F -> Bool  and an order embedding  rv : F -> Real
# of the non-NaN values (+-inf included; -0 and +0 have the same image).  Comparisons are defined exactly as IEEE-754 defines
# them (any comparison with a NaN is false); addition is an uninterpreted function.  Every quantifier-free fact about
# (<, <=, ==, isnan) that holds in this structure holds for the doubles, and a counter-model needs only finitely many values,
# which exist among the doubles.  This keeps the obligations in UF + linear real arithmetic + arrays (stable, milliseconds).
F = z3.DeclareSort('F64')
isnan_f = z3.Function('isnan', F, z3.BoolSort())
rv_f = z3.Function('rv', F, z3.RealSort())
fadd_f = z3.Function('fadd', F, F, F)
V = z3.DeclareSort('V')


def f_lt(a, b):
    return z3.And(z3.Not(isnan_f(a)), z3.Not(isnan_f(b)), rv_f(a) < rv_f(b))


def f_le(a, b):
    return z3.And(z3.Not(isnan_f(a)), z3.Not(isnan_f(b)), rv_f(a) <= rv_f(b))


def f_eq(a, b):
    return z3.And(z3.Not(isnan_f(a)), z3.Not(isnan_f(b)), rv_f(a) == rv_f(b))


def is_f(v):
    return isz(v) and v.sort() == F

I = z3.IntSort()

sumsq_f = z3.Function('sumsq', V, F)
hU_f = z3.Function('hU', V, F)                 # h(remove_scaling(x, scaling_changes), *argsh)
vadd_f = z3.Function('vadd', V, V, V)
vsub_f = z3.Function('vsub', V, V, V)
vmin_f = z3.Function('vmin', V, V, V)
vmax_f = z3.Function('vmax', V, V, V)
wavg_f = z3.Function('wavg', z3.RealSort(), V, V, V)   # t*a + (1-t)*b
mulJ_f = z3.Function('matvec', V, V, V)        # np.dot(J, v)
dyk_f = z3.Function('dykstra', V, V, V)        # dykstra(projections, x)
transp_f = z3.Function('transp', V, V)         # J.T
vscale_f = z3.Function('vscale', z3.RealSort(), V, V)   # c * v for a literal c
copy_id = lambda v: v


ZEROV, ONEV, INFV = z3.Consts('zerov onev infv', V)
FZERO, FONE, FINF = z3.Consts('f0 f1 finf', F)


def unopt(v):
    return v.val if isinstance(v, Opt) else v



class Arr:
    """NumPy array indexed by interpolation point: z3 array + symbolic length (rows)"""

    def __init__(self, arr, length):
        self.arr, self.len = arr, length

    def merge(self, c, other):
        return Arr(z3.If(c, self.arr, other.arr), z3.If(c, self.len, other.len))

    def fresh_like(self, name, st):
        return Arr(z3.Const(fresh_name(name), self.arr.sort()), fint(name + '_len'))

    def length(self, st):
        return self.len

    def _index(self, e, eng, st):
        sl = e.slice
        if isinstance(sl, ast.Tuple):
            first = sl.elts[0]
            rest = sl.elts[1:]
            if not all(isinstance(r, ast.Slice) and r.lower is None and r.upper is None for r in rest):
                return None, None
            sl = first
        if isinstance(sl, ast.List):
            return 'rows', [eng.ev(x, st) for x in sl.elts]
        if isinstance(sl, ast.Slice):
            if sl.lower is None and sl.step is None and sl.upper is not None:
                return 'prefix', eng.ev(sl.upper, st)
            return None, None
        return 'one', eng.ev(sl, st)

    def getitem(self, e, eng, st):
        kind, idx = self._index(e, eng, st)
        if kind == 'one' and isint(idx):
            return z3.Select(self.arr, idx)
        if kind == 'rows':
            return Rows(self, idx)
        if kind == 'prefix' and isint(idx):
            return Prefix(self, idx)
        # any other read (fancy index by an untracked array, general slices) is a havoc value: sound for reads
        return UNK

    def setitem(self, t, v, eng, st):
        kind, idx = self._index(t, eng, st)
        if kind == 'one' and isint(idx):
            v = eng.dom.coerce(v, self.arr.range(), st)
            if v is None:
                eng.unsup(t, 'stored value untracked')
                return Arr(z3.Const(fresh_name('havoc'), self.arr.sort()), self.len)
            return Arr(z3.Store(self.arr, idx, v), self.len)
        if kind == 'rows' and isinstance(v, Rows):
            # a[[i, j]] = b[[j, i]] : the right-hand side is a copy (evaluated before the stores)
            vals = [z3.Select(v.base.arr, s) for s in v.idx]
            a = self.arr
            for tgt, val in zip(idx, vals):
                a = z3.Store(a, tgt, val)
            return Arr(a, self.len)
        eng.unsup(t, 'array store form')
        return Arr(z3.Const(fresh_name('havoc'), self.arr.sort()), self.len)

    def method(self, meth, eng, e, args, kwargs, st):
        if meth == 'copy':
            return self
        eng.unsup(e, 'array method ' + meth)
        return UNK

    def attr(self, name, eng, st):
        return UNK


class Rows:
    def __init__(self, base, idx):
        self.base, self.idx = base, idx


class NanMask:
    def __init__(self, p):
        self.p = p


class Prefix:
    """a[:n]"""

    def __init__(self, base, n):
        self.base, self.n = base, n


class ModelDomain(Domain):
    name = 'M'
    float_mode = 'havoc'
    inline = {'Model.npt', 'Model.n', 'Model.m', 'Model.objopt', 'Model.ropt', 'Model.xopt', 'Model.xpt', 'Model.as_absolute_coordinates',
              'sumsq_', 'remove_scaling_'}

    def __init__(self, repo):
        Domain.__init__(self, repo)
        fs = self.field_shapes
        for f, shp in {'points': 'arr:V', 'fval_v': 'arr:V', 'objval': 'arr:F', 'nsamples': 'arr:I', 'eval_num': 'arr:I',
                       'kopt': 'int', 'npt_so_far': 'int', 'num_pts': 'int', 'xbase': 'V', 'sl': 'V', 'su': 'V', 'xl': 'V', 'xu': 'V',
                       'h': 'opt:cb:h', 'argsh': 'unk', 'scaling_changes': 'unk', 'projections': 'projlist',
                       'factorisation_current': 'bool', 'model_jac': 'V', 'model_const': 'V', 'model_jac_eval_nums': 'opt:arrI',
                       'objsave': 'opt:fp', 'xsave': 'opt:V', 'rsave': 'opt:V', 'nsamples_save': 'opt:int', 'eval_num_save': 'opt:int',
                       'jacsave': 'opt:V', 'jacsave_eval_nums': 'opt:arrI', 'objbeg': 'fp', 'abs_tol': 'fp', 'rel_tol': 'fp',
                       'dim': 'int', 'resid_dim': 'int'}.items():
            fs[('Model', f)] = shp
        self.ghost_shapes = {'geom': 'int', 'fact_ver': 'int', 'kmin_ok': 'bool'}
        self.assumptions += [
            'A-fp: objective values are binary64 with NaN: comparisons are modelled exactly (total order on non-NaN values incl. +-inf, every comparison with NaN false); binary64 addition is an uninterpreted function',
            'A-real (vectors only): vector addition/subtraction/clipping obey the real vector-space identities; sumsq, h∘U, matvec are '
            'uninterpreted functions (only congruence is used)',
            'A-alias: ndarrays are modelled by value; freshness of stored snapshots is a separate syntactic obligation (kind fresh)',
            'A-lib: np.argmin returns the first NaN if any, else the first minimum; np.append appends one row; .copy()/.reshape() preserve the value',
            'A-callback: h is a deterministic function of its arguments']
        b = self.builtins
        b['sumsq'] = self.b_sumsq
        b['remove_scaling'] = lambda eng, n, a, k, st: UScaled(a[0]) if isz(a[0]) and a[0].sort() == V else UNK
        b['np.minimum'] = lambda eng, n, a, k, st: self.vop(vmin_f, a)
        b['np.maximum'] = lambda eng, n, a, k, st: self.vop(vmax_f, a)
        b['np.append'] = self.b_append
        b['np.argmin'] = self.b_argmin
        b['np.isnan'] = self.b_isnan
        b['np.where'] = self.b_where
        b['np.dot'] = lambda eng, n, a, k, st: mulJ_f(a[0], a[1]) if all(isz(x) and x.sort() == V for x in a[:2]) else UNK
        b['dykstra'] = lambda eng, n, a, k, st: dyk_f(self.projtok(a[0]), a[1]) if isz(a[1]) and a[1].sort() == V else UNK
        b['float'] = self.b_float_m
        b['np.zeros'] = lambda eng, n, a, k, st: self.b_alloc(a, k, 'zero')
        b['np.ones'] = lambda eng, n, a, k, st: self.b_alloc(a, k, 'one')

    def b_isnan(self, eng, n, a, k, st):
        v = unopt(a[0])
        if is_f(v):
            return isnan_f(v)
        if isinstance(v, Prefix) and v.base.arr.sort().range() == F:
            return NanMask(v)
        return UNK

    def b_where(self, eng, n, a, k, st):
        # np.where(np.isnan(v), np.inf, v) on a prefix view: elementwise replacement of NaN by +inf
        if len(a) == 3 and isinstance(a[0], NanMask) and a[1] is INF_TOKEN and isinstance(a[2], Prefix) \
                and z3.eq(a[0].p.base.arr, a[2].base.arr) and z3.eq(a[0].p.n, a[2].n):
            j = z3.Int(fresh_name('w'))
            src = a[2].base.arr
            arr = z3.Lambda([j], z3.If(isnan_f(z3.Select(src, j)), FINF, z3.Select(src, j)))
            return Prefix(Arr(arr, a[2].base.len), a[2].n)
        eng.unsup(n, 'np.where form')
        return UNK

    def b_alloc(self, a, k, what):
        shp = a[0] if a else None
        if isinstance(shp, tuple) and len(shp) == 2 and isint(shp[0]):
            return Arr(z3.K(I, ZEROV if what == 'zero' else ONEV), shp[0])
        if isinstance(shp, tuple) and len(shp) == 1 and isint(shp[0]):
            if 'dtype' in k:
                return Arr(z3.K(I, z3.IntVal(0 if what == 'zero' else 1)), shp[0])
            return Arr(z3.K(I, FZERO if what == 'zero' else FONE), shp[0])
        return UNK

    def init_state(self, st, fi, con):
        Domain.init_state(self, st, fi, con)
        b, s_, p_ = z3.Consts('b_ s_ p_', V)
        # real vector-space identity used by base shifts: (b + s) + (p - s) == b + p
        st.assume(z3.ForAll([b, s_, p_], vadd_f(vadd_f(b, s_), vsub_f(p_, s_)) == vadd_f(b, p_)))
        st.assume(z3.ForAll([b], vadd_f(b, ZEROV) == b))
        # linearity of the matrix-vector product and translation invariance of the elementwise clip (real vector arithmetic)
        st.assume(z3.ForAll([b, s_, p_], mulJ_f(b, vsub_f(s_, p_)) == vsub_f(mulJ_f(b, s_), mulJ_f(b, p_))))
        l_, u_ = z3.Consts('l_ u_', V)
        st.assume(z3.ForAll([l_, u_, p_, s_], vmin_f(vmax_f(vsub_f(l_, s_), vsub_f(p_, s_)), vsub_f(u_, s_)) == vsub_f(vmin_f(vmax_f(l_, p_), u_), s_)))
        st.assume(z3.And(z3.Not(isnan_f(FINF)), z3.Not(isnan_f(FZERO)), z3.Not(isnan_f(FONE))))
        xf = z3.Const('xf_', F)
        st.assume(z3.ForAll([xf], rv_f(xf) <= rv_f(FINF)))      # +inf is the largest non-NaN value (rv of a NaN is irrelevant)

    def call(self, eng, e, st):
        name = dotted(e.func)
        if getattr(eng, 'in_spec', 0) and name in getattr(self, 'spec_builtins', {}):
            args = [eng.ev(a, st) for a in e.args]
            if any(is_unk(a) for a in args):
                return UNK
            if name not in ('same_opt', 'val') and any(a is NONE for a in args):
                return UNK
            try:
                return self.spec_builtins[name](*args)
            except (z3.Z3Exception, AttributeError, TypeError):
                return UNK          # an argument of a shape the specification function is not defined on (changed code): the clause is untracked, not a checker error
        if getattr(eng, 'in_spec', 0) and name == 'wavg':
            n, a, b = [eng.ev(x, st) for x in e.args]
            return wavg_f(z3.ToReal(n) / z3.ToReal(n + 1), a, b)
        return Domain.call(self, eng, e, st)

    # ------------------------------------------------------------------ shapes
    def fresh(self, shape, name, st=None):
        if shape == 'V':
            return z3.Const(fresh_name(name), V)
        if shape == 'fp':
            return z3.Const(fresh_name(name), F)
        if isinstance(shape, str) and shape.startswith('arr:'):
            rng = {'V': V, 'F': F, 'I': I}[shape[4:]]
            ln = fint(name + '_len')
            return Arr(z3.Array(fresh_name(name), I, rng), ln)
        if shape == 'arrI':
            return Arr(z3.Array(fresh_name(name), I, I), fint(name + '_len'))
        if shape == 'projlist':
            return ProjList(fbool(name + '_nonempty'), z3.Const(fresh_name(name), V))
        return Domain.fresh(self, shape, name, st)

    def default_param(self, fi, nm, st):
        if nm == 'self' and fi.cls:
            return Ref('self', fi.cls)
        return UNK

    def projtok(self, v):
        return v.tok if isinstance(v, ProjList) else z3.Const(fresh_name('P'), V)

    def coerce(self, v, sort, st):
        if isz(v) and v.sort() == sort:
            return v
        return None

    # ------------------------------------------------------------------ arithmetic
    def float_const(self, v):
        if v == v and v not in (float('inf'), float('-inf')):
            return FLit(v)
        return UNK

    def vop(self, f, a):
        if len(a) >= 2 and all(isz(x) and x.sort() == V for x in a[:2]):
            return f(a[0], a[1])
        return UNK

    def binop(self, op, a, b, st, node=None):
        if isz(a) and isz(b):
            if a.sort() == V and b.sort() == V:
                if op == '+':
                    return vadd_f(a, b)
                if op == '-':
                    return vsub_f(a, b)
                return UNK
            if is_f(a) and is_f(b):
                if op == '+':
                    return fadd_f(a, b)
                return UNK
        if isinstance(a, FLit) and isz(b) and b.sort() == V and op == '*':
            return vscale_f(z3.RealVal(repr(a.v)), b)
        if a is INF_TOKEN and isinstance(b, Arr) and op == '*':
            # np.inf * np.ones(shape)
            if b.arr.range() == V:
                return Arr(z3.K(I, INFV), b.len)
            return Arr(z3.K(I, FINF), b.len)
        if isinstance(a, Wt) and isz(b) and b.sort() == V and op == '*':
            return Scaled(a.t, b)
        if isinstance(a, Scaled) and isinstance(b, Scaled) and op == '+':
            # t*a + (1-t)*b with the same weight t
            if z3.eq(z3.simplify(a.t + b.t), z3.RealVal(1)) or z3.eq(z3.simplify(a.t + b.t - 1), z3.RealVal(0)):
                return wavg_f(a.t, a.v, b.v)
            return UNK
        if isinstance(b, Wt) and isint(a) and op == '-':
            return Wt(z3.ToReal(a) - b.t)
        if isinstance(a, IntAsFloat) and isinstance(b, IntAsFloat) and op == '/':
            return Wt(z3.ToReal(a.v) / z3.ToReal(b.v))
        return Domain.binop(self, op, a, b, st, node)

    def augassign(self, op, cur, inc, st, node):
        return self.binop(op, cur, inc, st, node)

    def compare(self, op, a, b, st, node=None):
        if isinstance(a, Opt) and op in ('<', '<=', '>', '>='):
            a = a.val
        if isinstance(b, Opt) and op in ('<', '<=', '>', '>='):
            b = b.val
        if is_f(a) and is_f(b):
            return {'<': f_lt(a, b), '<=': f_le(a, b), '>': f_lt(b, a), '>=': f_le(b, a), '==': f_eq(a, b), '!=': z3.Not(f_eq(a, b))}[op]
        if isz(a) and isz(b) and a.sort() == V and b.sort() == V and op in ('==', '!='):
            return (a == b) if op == '==' else (a != b)
        if isinstance(a, Arr) and isinstance(b, Arr) and op in ('==', '!='):
            r = z3.And(a.arr == b.arr, a.len == b.len)
            return r if op == '==' else z3.Not(r)
        return Domain.compare(self, op, a, b, st, node)

    def truth(self, v, st):
        if isinstance(v, ProjList):
            return v.nonempty
        return Domain.truth(self, v, st)

    def b_float_m(self, eng, node, args, kw, st):
        v = args[0]
        if isint(v):
            return IntAsFloat(v)
        return v if is_f(v) else UNK

    def b_sumsq(self, eng, node, args, kw, st):
        v = args[0]
        if isz(v) and v.sort() == V:
            return sumsq_f(v)
        return UNK

    def b_append(self, eng, node, args, kw, st):
        a, v = args[0], args[1]
        if isinstance(a, Arr):
            v2 = self.coerce(v, a.arr.range(), st)
            if v2 is not None:
                return Arr(z3.Store(a.arr, a.len, v2), a.len + 1)
        eng.unsup(node, 'np.append form')
        return UNK

    def b_argmin(self, eng, node, args, kw, st):
        a = args[0]
        if isinstance(a, Prefix) and a.base.arr.sort().range() == F:
            arr, n = a.base.arr, a.n
            r = fint('argmin')
            j = z3.Int(fresh_name('j'))
            nan = lambda t: isnan_f(z3.Select(arr, t))
            first_nan = z3.And(nan(r), z3.ForAll([j], z3.Implies(z3.And(0 <= j, j < r), z3.Not(nan(j)))))
            no_nan_min = z3.And(z3.ForAll([j], z3.Implies(z3.And(0 <= j, j < n), z3.And(z3.Not(nan(j)), f_le(z3.Select(arr, r), z3.Select(arr, j))))),
                                z3.ForAll([j], z3.Implies(z3.And(0 <= j, j < r), f_lt(z3.Select(arr, r), z3.Select(arr, j)))))
            st.assume(z3.Implies(n > 0, z3.And(0 <= r, r < n, z3.Or(first_nan, no_nan_min))))
            return r
        eng.unsup(node, 'np.argmin form')
        return UNK

    def global_name(self, eng, name, st):
        if name in getattr(self, 'spec_consts', {}):
            return self.spec_consts[name]
        return Domain.global_name(self, eng, name, st)

    def load_attr(self, eng, base, attr, st, node):
        if node is not None and dotted(node) == 'np.inf':
            return INF_TOKEN
        if isz(base) and base.sort() == V and attr == 'T':
            return transp_f(base)
        if isz(base) and base.sort() == V and attr == 'shape':
            return UNK
        return Domain.load_attr(self, eng, base, attr, st, node)

    def lib_call(self, eng, e, name, args, kwargs, st):
        if name in self.builtins:
            return self.builtins[name](eng, e, args, kwargs, st)
        return UNK

    def call_method(self, eng, recv, meth, e, st):
        if isinstance(recv, Opt):
            recv = recv.val
        if isz(recv) and recv.sort() == V and meth in ('copy', 'reshape'):
            eng.eval_args(e, st)
            return recv
        if isinstance(recv, UScaled):
            return UNK
        return Domain.call_method(self, eng, recv, meth, e, st)

    def callback(self, eng, cb, e, args, kwargs, st):
        if cb.name == 'h' and args and isinstance(args[0], UScaled):
            return hU_f(args[0].v)
        return Domain.callback(self, eng, cb, e, args, kwargs, st)



class FLit:
    """a floating-point literal of the source (only used as a scale factor of an opaque vector)"""

    def __init__(self, v):
        self.v = v


class InfToken:
    pass


INF_TOKEN = InfToken()


class UScaled:
    """remove_scaling(x, scaling_changes): only ever passed on to h"""

    def __init__(self, v):
        self.v = v


class IntAsFloat:
    def __init__(self, v):
        self.v = v


class Wt:
    """real weight t = n/(n+1) of the running mean"""

    def __init__(self, t):
        self.t = t


class Scaled:
    def __init__(self, t, v):
        self.t, self.v = t, v


class ProjList:
    def __init__(self, nonempty, tok):
        self.nonempty, self.tok = nonempty, tok

    def merge(self, c, o):
        return ProjList(z3.If(c, self.nonempty, o.nonempty), z3.If(c, self.tok, o.tok))

    def fresh_like(self, name, st):
        return self
