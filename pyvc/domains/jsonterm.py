"""Domain J — JSON terms.  Values are terms of an uninterpreted sort T; the library functions involved in serialisation are
uninterpreted symbols related by round-trip axioms (A-lib, each differentially tested against the real NumPy/json/pandas in the
thorough tier):
  arrf(rn(tolist(a))) == a  for float arrays (NaN -> None -> NaN),  arri(rn(tolist(a))) == a  for int arrays,
  rn(pyfloat(v)) == NONE if isnan(v) else pyfloat(v);  rn is the identity on ints, strings and None;  rn(tolist(a)), rn(dfto(d)) are not None
  json.loads(json.dumps(t)) == t on plain terms (hence omitted);  dffrom(rn(dfto(d))) == d  (pandas, cell-wise, index labels stringified).
Python dicts with literal keys are tracked key-wise."""
import ast, z3
from ..core import *
from ..domain import Domain

T = z3.DeclareSort('T')
TNONE = z3.Const('T_NONE', T)
TNAN = z3.Const('T_NAN', T)
U = {n: z3.Function(n, T, T) for n in ('tolist', 'arrf', 'arri', 'rn', 'pyfloat', 'pyint', 'pystr', 'dfto', 'dffrom')}
t_isnan = z3.Function('t_isnan', T, z3.BoolSort())
isfloatarr = z3.Function('isfloatarr', T, z3.BoolSort())
isintarr = z3.Function('isintarr', T, z3.BoolSort())
plain = z3.Function('plain', T, z3.BoolSort())     # JSON-serialisable without a custom encoder
strict = z3.Function('strict', T, z3.BoolSort())   # ... and free of NaN (strict JSON)


def axioms():
    a = z3.Const('a_', T)
    return [z3.ForAll([a], z3.Implies(isfloatarr(a), U['arrf'](U['rn'](U['tolist'](a))) == a)),
            z3.ForAll([a], z3.Implies(isintarr(a), U['arri'](U['rn'](U['tolist'](a))) == a)),
            z3.ForAll([a], z3.Implies(isfloatarr(a), U['arrf'](U['tolist'](a)) == a)),
            z3.ForAll([a], z3.Implies(isintarr(a), U['arri'](U['tolist'](a)) == a)),
            z3.ForAll([a], U['rn'](U['pyfloat'](a)) == z3.If(t_isnan(a), TNONE, U['pyfloat'](a))),
            z3.ForAll([a], U['rn'](U['pyint'](a)) == U['pyint'](a)),
            z3.ForAll([a], U['rn'](U['pystr'](a)) == U['pystr'](a)),
            U['rn'](TNONE) == TNONE,
            z3.ForAll([a], U['dffrom'](U['rn'](U['dfto'](a))) == a),
            z3.ForAll([a], U['dffrom'](U['dfto'](a)) == a),
            z3.ForAll([a], U['tolist'](a) != TNONE), z3.ForAll([a], U['pyfloat'](a) != TNONE), z3.ForAll([a], U['pyint'](a) != TNONE),
            z3.ForAll([a], U['pystr'](a) != TNONE), z3.ForAll([a], U['dfto'](a) != TNONE),
            z3.ForAll([a], U['rn'](U['tolist'](a)) != TNONE), z3.ForAll([a], U['rn'](U['dfto'](a)) != TNONE),
            TNAN != TNONE, t_isnan(TNAN),
            # plainness: what json.dumps accepts
            plain(TNONE), strict(TNONE),
            z3.ForAll([a], plain(U['pyfloat'](a))), z3.ForAll([a], plain(U['pyint'](a))), z3.ForAll([a], plain(U['pystr'](a))),
            z3.ForAll([a], plain(U['tolist'](a))), z3.ForAll([a], strict(U['pyint'](a))), z3.ForAll([a], strict(U['pystr'](a))),
            z3.ForAll([a], z3.Implies(plain(a), z3.And(plain(U['rn'](a)), strict(U['rn'](a)))))]


class DictV:
    def __init__(self, items=None):
        self.items = dict(items or {})

    def merge(self, c, o):
        if set(self.items) != set(o.items):
            return UNK
        return DictV({k: merge_val(c, self.items[k], o.items[k]) for k in self.items})

    def fresh_like(self, name, st):
        return DictV({k: z3.Const(fresh_name(name + '_' + k), T) for k in self.items})


def tt(v):
    """Python-level value -> term"""
    if v is NONE:
        return TNONE
    if isz(v) and v.sort() == T:
        return v
    if isinstance(v, Opt):
        inner = tt(v.val)
        if inner is None:
            return None
        return z3.If(v.is_none, TNONE, inner)
    return None


class JsonDomain(Domain):
    name = 'J'

    def __init__(self, repo):
        Domain.__init__(self, repo)
        self.assumptions += ['A-lib (round-trip axioms of tolist / np.array(dtype) / float / int / str / json / pandas, see pyvc/domains/jsonterm.py): assumed, '
                             'differentially tested in the thorough tier', 'json.loads(json.dumps(t)) is the identity on plain terms (float by repr, exact)',
                             'dict keys are string literals; the diagnostic table is an opaque term (pandas round trip assumed cell-wise)']
        b = self.builtins
        for nm in ('float', 'int', 'str'):
            b[nm] = (lambda nm: lambda eng, n, a, k, st: self.app('py' + nm, a[0]))(nm)
        b['np.array'] = self.b_array
        b['pd.DataFrame.from_dict'] = lambda eng, n, a, k, st: self.app('dffrom', a[0])
        b['np.size'] = lambda eng, n, a, k, st: fint('size')

    def init_state(self, st, fi, con):
        Domain.init_state(self, st, fi, con)
        for ax in axioms():
            st.assume(ax)

    def app(self, f, v):
        t = tt(v)
        return U[f](t) if t is not None else UNK

    def b_array(self, eng, node, args, kw, st):
        dt = None
        for k in node.keywords:
            if k.arg == 'dtype' and isinstance(k.value, ast.Name):
                dt = k.value.id
        t = tt(args[0]) if args else None
        if t is None or dt not in ('float', 'int'):
            return UNK
        return U['arrf' if dt == 'float' else 'arri'](t)

    def fresh(self, shape, name, st=None):
        if shape == 'T':
            return z3.Const(fresh_name(name), T)
        return Domain.fresh(self, shape, name, st)

    def load_attr(self, eng, base, attr, st, node):
        if node is not None and dotted(node) == 'np.nan':
            return TNAN
        return Domain.load_attr(self, eng, base, attr, st, node)

    def dict_literal(self, eng, e, st):
        if not e.keys:
            return DictV({})
        return Domain.dict_literal(self, eng, e, st)

    def load_subscript(self, eng, e, st):
        base = eng.ev(e.value, st)
        if isinstance(base, DictV):
            k = eng.ev(e.slice, st)
            if isinstance(k, StrV) and z3.is_int_value(k.id):
                key = INTERN_REV[k.id.as_long()]
                if key in base.items:
                    return base.items[key]
                eng.oblige(st, z3.BoolVal(False), 'no-raise', 'KeyError %r' % key, ['C20'], e.lineno)
            return UNK
        return Domain.load_subscript(self, eng, e, st)

    def store_subscript(self, eng, t, v, st):
        base = eng.ev(t.value, st)
        if isinstance(base, DictV):
            k = eng.ev(t.slice, st)
            if isinstance(k, StrV) and z3.is_int_value(k.id):
                items = dict(base.items)
                tv = tt(v)
                items[INTERN_REV[k.id.as_long()]] = tv if tv is not None else UNK
                eng.assign(t.value, DictV(items), st)
                return
        return Domain.store_subscript(self, eng, t, v, st)

    def is_same(self, a, b, st):
        ta, tb = tt(a), tt(b)
        if ta is not None and tb is not None:
            return ta == tb
        return Domain.is_same(self, a, b, st)

    def call_method(self, eng, recv, meth, e, st):
        t = tt(recv)
        if t is not None and meth == 'tolist':
            return U['tolist'](t)
        if t is not None and meth == 'to_dict':
            return U['dfto'](t)
        return Domain.call_method(self, eng, recv, meth, e, st)

    def merge_hint(self):
        pass

    def spec_call(self, eng, name, e, st):
        if name in U:
            v = tt(eng.ev(e.args[0], st))
            return U[name](v) if v is not None else UNK
        if name in ('t_isnan', 'isfloatarr', 'isintarr', 'plain', 'strict'):
            v = tt(eng.ev(e.args[0], st))
            return {'t_isnan': t_isnan, 'isfloatarr': isfloatarr, 'isintarr': isintarr, 'plain': plain, 'strict': strict}[name](v) if v is not None else UNK
        if name == 'term':
            v = tt(eng.ev(e.args[0], st))
            return v if v is not None else UNK
        if name == 'keys_are':
            d = eng.ev(e.args[0], st)
            want = [x.value for x in e.args[1].elts]
            return z3.BoolVal(isinstance(d, DictV) and sorted(d.items) == sorted(want))
        if name == 'tnone':
            return TNONE
        if name == 'tnan':
            return TNAN
        return Domain.spec_call(self, eng, name, e, st)

    def compare(self, op, a, b, st, node=None):
        ta, tb = tt(a), tt(b)
        if ta is not None and tb is not None and op in ('==', '!='):
            return (ta == tb) if op == '==' else (ta != tb)
        return Domain.compare(self, op, a, b, st, node)
