"""Domain Tb — the diagnostic table: a dict of Python lists, each list abstracted to its length (Int) and, for `iters_total`, the value of
its last element.  Everything else is havoc."""
import ast, z3
from ..core import *
from ..domain import Domain


class DL:
    """dict: column name -> (length, last element or None)"""

    def __init__(self, cols=None):
        self.cols = dict(cols or {})

    def merge(self, c, o):
        if set(self.cols) != set(o.cols):
            return UNK
        return DL({k: (z3.If(c, self.cols[k][0], o.cols[k][0]), merge_val(c, self.cols[k][1], o.cols[k][1])) for k in self.cols})

    def fresh_like(self, name, st):
        return DL({k: (fint('len_' + k), UNK) for k in self.cols})


class ColRef:
    def __init__(self, owner_ast, dl, key):
        self.owner_ast, self.dl, self.key = owner_ast, dl, key

    def length(self, st):
        return self.dl.cols[self.key][0]


class TableDomain(Domain):
    name = 'Tb'
    smt_logic = None

    def __init__(self, repo):
        Domain.__init__(self, repo)
        self.assumptions += ['lists are abstracted to their length (and, for iters_total, the last element); list.append adds exactly one element; '
                             'l[-1] = v needs a non-empty list']

    def dict_literal(self, eng, e, st):
        if not e.keys:
            return DL({})
        return Domain.dict_literal(self, eng, e, st)

    def load_subscript(self, eng, e, st):
        base = eng.ev(e.value, st)
        if isinstance(base, DL):
            k = eng.ev(e.slice, st)
            if isinstance(k, StrV) and z3.is_int_value(k.id):
                key = INTERN_REV[k.id.as_long()]
                if key in base.cols:
                    return ColRef(e.value, base, key)
                eng.oblige(st, z3.BoolVal(False), 'no-raise', 'KeyError %s' % key, ['C18'], e.lineno)
            return UNK
        return Domain.load_subscript(self, eng, e, st)

    def store_subscript(self, eng, t, v, st):
        base = eng.ev(t.value, st)
        if isinstance(base, DL):
            k = eng.ev(t.slice, st)
            if isinstance(k, StrV) and z3.is_int_value(k.id):
                key = INTERN_REV[k.id.as_long()]
                cols = dict(base.cols)
                if isinstance(v, ListV):
                    cols[key] = (z3.IntVal(len(v.items)), v.items[-1] if v.items else UNK)
                else:
                    cols[key] = (fint('len'), UNK)
                eng.assign(t.value, DL(cols), st)
                return
        if isinstance(base, ColRef):
            i = eng.ev(t.slice, st)
            ln = base.dl.cols[base.key][0]
            if isint(i):
                # l[i] = v : index must exist (i == -1 needs a non-empty list)
                ok = z3.Or(z3.And(i >= 0, i < ln), z3.And(i < 0, -i <= ln))
                eng.oblige(st, ok, 'no-raise', 'IndexError at %s[..] = ..' % base.key, ['C18'], t.lineno, site='%s#%d' % (base.key, t.lineno) if False else base.key)
                st.assume(ok)
                cols = dict(base.dl.cols)
                last = base.dl.cols[base.key][1]
                cols[base.key] = (ln, merge_val(z3.Or(i == -1, i == ln - 1), v, last))
                eng.assign(base.owner_ast, DL(cols), st)
            return
        return Domain.store_subscript(self, eng, t, v, st)

    def call_method(self, eng, recv, meth, e, st):
        if isinstance(recv, ColRef) and meth == 'append':
            args, _ = eng.eval_args(e, st)
            # re-read the owner: arguments may have read it, but cannot have changed it
            cur = eng.ev(recv.owner_ast, st)
            dl = cur if isinstance(cur, DL) else recv.dl
            cols = dict(dl.cols)
            ln = cols[recv.key][0]
            cols[recv.key] = (ln + 1, args[0] if args else UNK)
            eng.assign(recv.owner_ast, DL(cols), st)
            return NONE
        return Domain.call_method(self, eng, recv, meth, e, st)

    def spec_call(self, eng, name, e, st):
        if name == 'collen':
            dl = eng.ev(e.args[0], st)
            key = e.args[1].value
            if isinstance(dl, DL) and key in dl.cols:
                return dl.cols[key][0]
            return UNK
        if name == 'collast':
            dl = eng.ev(e.args[0], st)
            key = e.args[1].value
            if isinstance(dl, DL) and key in dl.cols:
                return dl.cols[key][1]
            return UNK
        if name == 'columns_are':
            dl = eng.ev(e.args[0], st)
            want = [x.value for x in e.args[1].elts]
            if not isinstance(dl, DL):
                return UNK
            return z3.BoolVal(sorted(dl.cols) == sorted(want))
        if name == 'all_len':
            dl = eng.ev(e.args[0], st)
            n = eng.ev(e.args[1], st)
            if not isinstance(dl, DL) or not dl.cols:
                return UNK
            return z3.And(*[dl.cols[k][0] == n for k in sorted(dl.cols)])
        return Domain.spec_call(self, eng, name, e, st)
