"""Domain Vd — real vectors stored as the COLUMNS of a 2-D array (the direction generators of util.py).

Extends V (opaque real vectors with norm / scaling axioms).  results = np.zeros((n, k)) is an array of k column vectors; the statements the generators use
are exact: results[:, c] (column read / write), results[idx, c] = t (one entry of a column), results[:, :m].T and results.T (the rows that are returned).
Library facts used (assumed, listed): an entry written into a zero vector gives a vector of that absolute length; v / ||v|| has length 1 for v != 0;
the Q factor of np.linalg.qr has columns of length 1 and keeps it when embedded into zero rows; clipping a vector to a box that contains 0 does not lengthen it."""
import ast, z3
from ..core import *
from ..domain import Domain
from .vec import VecDomain, V, R, I, norm_f, vscale_r
from .model import ZEROV

EL = z3.Function('EL', V, I, R)                      # v[j]
SETEL = z3.Function('SETEL', V, I, R, V)             # v with entry j replaced by t
UNIT = z3.Function('UNIT', V, V)                     # v / ||v||
MINV = z3.Function('MINV', V, V, V)                  # np.minimum(a, b)
MAXV = z3.Function('MAXV', V, V, V)                  # np.maximum(a, b)
BOX0 = z3.Function('BOX0', V, V, z3.BoolSort())      # lower <= 0 <= upper in every entry
COLS = z3.ArraySort(I, V)
N_ = z3.Int('N_dim')


def dir_axioms():
    a, l, u = z3.Consts('a_ l_ u_', V)
    t = z3.Real('t_')
    j = z3.Int('j_')
    return [z3.ForAll([j, t], norm_f(SETEL(ZEROV, j, t)) == z3.If(t >= 0, t, -t)),
            z3.ForAll([a], z3.Implies(norm_f(a) > 0, norm_f(UNIT(a)) == 1)),
            z3.ForAll([a, l, u], z3.Implies(BOX0(l, u), norm_f(MAXV(MINV(a, u), l)) <= norm_f(a))),
            z3.ForAll([l, u, j], z3.Implies(BOX0(l, u), z3.And(EL(l, j) <= 0, EL(u, j) >= 0)))]


class QFactor:
    """Q of np.linalg.qr: orthonormal columns"""

    def merge(self, c, o):
        return self if isinstance(o, QFactor) else UNK

    def fresh_like(self, name, st):
        return self


class Cols:
    """2-D float array as an array of column vectors, with its number of columns"""

    def __init__(self, arr, ncols):
        self.arr, self.ncols = arr, ncols

    def merge(self, c, o):
        if not isinstance(o, Cols):
            return UNK
        return Cols(z3.If(c, self.arr, o.arr), z3.If(c, self.ncols, o.ncols))

    def fresh_like(self, name, st):
        return Cols(z3.Const(fresh_name(name), COLS), self.ncols)

    def keep_when(self, c):
        # bound on one path only (e.g. Q under `if ninactive > 0:`): this value where c holds, an arbitrary array elsewhere
        return Cols(z3.If(c, self.arr, z3.Const(fresh_name('hv'), COLS)), z3.If(c, self.ncols, fint('hv_n')))

    def getitem(self, e, eng, st):
        sl = e.slice
        if isinstance(sl, ast.Tuple) and len(sl.elts) == 2:
            a, b = sl.elts
            full_a = isinstance(a, ast.Slice) and a.lower is None and a.upper is None and a.step is None
            if full_a and isinstance(b, ast.Slice):
                if b.lower is None and b.step is None and b.upper is not None:
                    m = eng.ev(b.upper, st)
                    if isint(m):
                        # A-lib: a prefix of the columns (m <= ncols is the caller's concern: NumPy would silently return fewer)
                        eng.oblige(st, z3.And(m >= 0, m <= self.ncols), 'assert', 'column prefix stays inside the array (otherwise fewer directions are returned)',
                                   ['C14'], e.lineno, site='slice@%d' % e.lineno)
                        return Cols(self.arr, m)
                return UNK
            if full_a:
                c = eng.ev(b, st)
                return z3.Select(self.arr, c) if isint(c) else UNK
            if not isinstance(a, ast.Slice) and not isinstance(b, ast.Slice):
                i, c = eng.ev(a, st), eng.ev(b, st)
                return EL(z3.Select(self.arr, c), i) if isint(i) and isint(c) else UNK
        return UNK

    def setitem(self, t, v, eng, st):
        sl = t.slice
        havoc = Cols(z3.Const(fresh_name('havoc'), COLS), self.ncols)
        if isinstance(sl, ast.Tuple) and len(sl.elts) == 2:
            a, b = sl.elts
            full_a = isinstance(a, ast.Slice) and a.lower is None and a.upper is None and a.step is None
            full_b = isinstance(b, ast.Slice) and b.lower is None and b.upper is None and b.step is None
            if full_a and not isinstance(b, ast.Slice):
                c = eng.ev(b, st)
                if isint(c) and isz(v) and v.sort() == V:
                    return Cols(z3.Store(self.arr, c, v), self.ncols)
                if isint(c):
                    return Cols(z3.Store(self.arr, c, z3.Const(fresh_name('col'), V)), self.ncols)
                return havoc
            if not isinstance(a, ast.Slice) and not isinstance(b, ast.Slice):
                i, c = eng.ev(a, st), eng.ev(b, st)
                if isint(i) and isint(c) and isz(v) and isnum(v):
                    return Cols(z3.Store(self.arr, c, SETEL(z3.Select(self.arr, c), i, to_real(v))), self.ncols)
                if isint(c):
                    return Cols(z3.Store(self.arr, c, z3.Const(fresh_name('col'), V)), self.ncols)
                return havoc
            if full_b and isinstance(v, QFactor):
                # Q[inactive, :] = Qred : the orthonormal columns of Qred, embedded into the rows selected by the mask (zero elsewhere) keep length 1
                q = z3.Const(fresh_name('Qemb'), COLS)
                c = z3.Int('c_')
                st.assume(z3.ForAll([c], norm_f(z3.Select(q, c)) == 1))
                return Cols(q, self.ncols)
        return havoc

    def attr(self, name, eng, st):
        if name == 'T':
            return RowsT(self)
        return UNK

    def method(self, meth, eng, e, args, kwargs, st):
        return UNK


class RowsT:
    """the transpose: the directions as rows"""

    def __init__(self, cols):
        self.cols = cols

    def merge(self, c, o):
        if not isinstance(o, RowsT):
            return UNK
        m = self.cols.merge(c, o.cols)
        return RowsT(m) if isinstance(m, Cols) else UNK

    def fresh_like(self, name, st):
        return RowsT(self.cols.fresh_like(name, st))


class DirDomain(VecDomain):
    name = 'Vd'

    def __init__(self, repo):
        VecDomain.__init__(self, repo)
        self.assumptions += ['A-lib (vectors by entry): ||e_j * t|| == |t| for an entry written into a zero vector; ||v / ||v|| || == 1 for v != 0; '
                             'np.linalg.qr returns a Q with columns of length 1, and embedding them into zero rows keeps that length; '
                             'clipping to [lower, upper] with lower <= 0 <= upper entrywise does not lengthen a vector',
                             'A-nonzero: a vector drawn by np.random.normal is not the zero vector']
        b = self.builtins
        b['np.zeros'] = self.b_zeros_d
        b['np.linalg.qr'] = lambda eng, n, a, k, st: (QFactor(), UNK)
        b['np.minimum'] = lambda eng, n, a, k, st: MINV(a[0], a[1]) if len(a) == 2 and self.isv(a[0]) and self.isv(a[1]) else UNK
        b['np.maximum'] = lambda eng, n, a, k, st: MAXV(a[0], a[1]) if len(a) == 2 and self.isv(a[0]) and self.isv(a[1]) else UNK
        b['np.random.normal'] = self.b_normal
        b['len'] = self.b_len_d

    def init_state(self, st, fi, con):
        VecDomain.init_state(self, st, fi, con)
        for ax in dir_axioms():
            st.assume(ax)
        st.assume(N_ >= 1)

    def name_shape(self, name):
        return {'nactive': 'int', 'idx': 'int', 'n': 'int'}.get(name)

    def on_assign_name(self, name, v, st):
        if is_unk(v) and self.name_shape(name) == 'int':
            x = fint(name)
            if name == 'nactive':
                st.assume(z3.And(x >= 0, x <= N_))        # np.sum of a boolean mask of length n
            return x
        return v

    def b_len_d(self, eng, node, args, kw, st):
        if args and self.isv(args[0]):
            return N_
        return Domain.b_len(self, eng, node, args, kw, st)

    def b_zeros_d(self, eng, node, args, kw, st):
        a = args[0] if args else UNK
        if isinstance(a, tuple) and len(a) == 2 and isint(a[1]):
            return Cols(z3.K(I, ZEROV), a[1])
        return ZEROV

    def b_normal(self, eng, node, args, kw, st):
        sz = kw.get('size')
        if isinstance(sz, tuple) and len(sz) == 1:
            v = z3.Const(fresh_name('rnd'), V)
            st.assume(norm_f(v) > 0)          # A-nonzero
            return v
        return UNK

    def unop(self, op, v, st):
        if op == '-' and self.isv(v):
            return vscale_r(z3.RealVal(-1), v)
        return VecDomain.unop(self, op, v, st)

    def binop(self, op, a, b, st, node=None):
        if op == '/' and self.isv(a) and isz(b) and isreal(b) and z3.eq(b, norm_f(a)):
            return UNIT(a)
        if op == '*' and isz(a) and isz(b) and isnum(a) and isnum(b) and not (isint(a) and isint(b)):
            return to_real(a) * to_real(b)
        return VecDomain.binop(self, op, a, b, st, node)

    def load_subscript(self, eng, e, st):
        base = eng.ev(e.value, st)
        if self.isv(base) and not isinstance(e.slice, (ast.Slice, ast.Tuple, ast.List)):
            i = eng.ev(e.slice, st)
            return EL(base, i) if isint(i) else UNK
        return VecDomain.load_subscript(self, eng, e, st)

    def store_subscript(self, eng, t, v, st):
        base = eng.ev(t.value, st)
        if self.isv(base) and isinstance(t.value, ast.Name):
            # dirn[idx] = ... / dirn[idx] *= -1.0 : the vector becomes another vector (its length is re-established by the normalisation that follows)
            if not isinstance(t.slice, ast.Slice):
                eng.ev(t.slice, st)
            nv = z3.Const(fresh_name(t.value.id), V)
            st.assume(norm_f(nv) > 0)         # A-nonzero (a sign flip of one entry of a non-zero vector)
            st.env[t.value.id] = nv
            return
        return VecDomain.store_subscript(self, eng, t, v, st)

    def fresh(self, shape, name, st=None):
        if shape == 'rowsT':
            return RowsT(Cols(z3.Const(fresh_name(name), COLS), fint(name + '_n')))
        return VecDomain.fresh(self, shape, name, st)

    def spec_call(self, eng, name, e, st):
        if name == 'BOX0':
            a, b = eng.ev(e.args[0], st), eng.ev(e.args[1], st)
            return BOX0(a, b) if self.isv(a) and self.isv(b) else UNK
        if name in ('col', 'row'):
            a, c = eng.ev(e.args[0], st), eng.ev(e.args[1], st)
            if isinstance(a, RowsT):
                a = a.cols
            return z3.Select(a.arr, c) if isinstance(a, Cols) and isint(c) else UNK
        if name in ('ncols', 'nrows'):
            a = eng.ev(e.args[0], st)
            if isinstance(a, RowsT):
                a = a.cols
            return a.ncols if isinstance(a, Cols) else UNK
        if name == 'ndim':
            return N_
        return VecDomain.spec_call(self, eng, name, e, st)
