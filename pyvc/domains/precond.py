"""Domain Sc — preconditioning consistency of the interpolation system.  Matrices and vectors are opaque terms of one uninterpreted sort; the few array statements
of Model.interpolation_matrix are symbols (a column set to a constant, the remaining columns set to a matrix, a matrix divided by a scalar, the tail of a vector
set to a constant); scalars are mathematical reals.  Two algebraic facts are assumed (listed): dividing by 1.0 changes nothing, and writing 1.0 into the tail of a
vector of ones changes nothing; reading back the columns just written returns them."""
import ast, z3
from ..core import *
from ..domain import Domain

MX = z3.DeclareSort('Mx')
R, I = z3.RealSort(), z3.IntSort()
ZM = z3.Function('ZEROS', I, I, MX)               # np.zeros((r, c))
ONESV = z3.Function('ONES', I, MX)                # np.ones((k,))
SETC0 = z3.Function('SETCOL0', MX, R, MX)         # W[:, 0] = t
SETREST = z3.Function('SETREST', MX, MX, MX)      # W[:, 1:] = M
GETREST = z3.Function('GETREST', MX, MX)          # W[:, 1:]
DIVS = z3.Function('DIVS', MX, R, MX)             # M / s
SETTAIL = z3.Function('SETTAIL', MX, R, MX)       # v[1:] = t
XD = z3.Const('XPT_DIRECTIONS', MX)               # self.xpt_directions(include_kopt=True): rows y_t - x_k
N_ = z3.Int('N_dim')
NPT_ = z3.Int('NPT_now')


def ismx(v):
    return isz(v) and v.sort() == MX


class PrecondDomain(Domain):
    name = 'Sc'
    float_mode = 'real'
    smt_logic = None

    def __init__(self, repo):
        Domain.__init__(self, repo)
        self.field_shapes[('Model', 'precondition')] = 'bool'
        self.assumptions += ['A-real: the preconditioning scale is a mathematical real', 'A-lib: M / 1.0 == M; v[1:] = 1.0 on a vector of ones leaves it unchanged; '
                             'W[:, 1:] read after W[:, 1:] = M returns M; np.zeros / np.ones / slice assignment have NumPy semantics',
                             'xpt_directions(include_kopt=True), npt() and n() are fixed values during one call (the function does not modify the model)']
        b = self.builtins
        b['np.zeros'] = lambda eng, n, a, k, st: ZM(a[0][0], a[0][1]) if a and isinstance(a[0], tuple) and len(a[0]) == 2 and all(isint(x) for x in a[0]) else UNK
        b['np.ones'] = lambda eng, n, a, k, st: ONESV(a[0][0]) if a and isinstance(a[0], tuple) and len(a[0]) == 1 and isint(a[0][0]) else (ONESV(a[0]) if a and isint(a[0]) else UNK)
        b['Model.npt'] = lambda eng, n, a, k, st: NPT_
        b['Model.n'] = lambda eng, n, a, k, st: N_
        b['Model.xpt_directions'] = self.b_dirs
        b['sqrt'] = self.b_sqrt
        b['np.sqrt'] = self.b_sqrt

    def init_state(self, st, fi, con):
        Domain.init_state(self, st, fi, con)
        m, w = z3.Consts('m_ w_', MX)
        k = z3.Int('k_')
        for ax in (z3.ForAll([m], DIVS(m, z3.RealVal(1)) == m), z3.ForAll([k], SETTAIL(ONESV(k), z3.RealVal(1)) == ONESV(k)),
                   z3.ForAll([w, m], GETREST(SETREST(w, m)) == m)):
            st.assume(ax)
        st.assume(z3.And(N_ >= 1, NPT_ >= 1))

    def default_param(self, fi, nm, st):
        if nm == 'self' and fi.cls:
            return Ref('self', fi.cls)
        return UNK

    def b_dirs(self, eng, node, args, kw, st):
        inc = kw.get('include_kopt', args[1] if len(args) > 1 else z3.BoolVal(True))
        if isbool(inc) and z3.is_true(z3.simplify(inc)):
            return XD
        return z3.Const(fresh_name('dirs'), MX)

    def b_sqrt(self, eng, node, args, kw, st):
        a = args[0] if args else UNK
        s = freal('sqrt')
        st.assume(s >= 0)
        if isz(a) and isnum(a):
            st.assume(s * s == to_real(a))
        return s

    def binop(self, op, a, b, st, node=None):
        if op == '/' and ismx(a) and isz(b) and isnum(b):
            return DIVS(a, to_real(b))
        if ismx(a) or ismx(b):
            return z3.Const(fresh_name('mx'), MX)
        return Domain.binop(self, op, a, b, st, node)

    def compare(self, op, a, b, st, node=None):
        if ismx(a) and ismx(b) and op in ('==', '!='):
            return (a == b) if op == '==' else (a != b)
        return Domain.compare(self, op, a, b, st, node)

    @staticmethod
    def _form(sl):
        full = lambda x: isinstance(x, ast.Slice) and x.lower is None and x.upper is None and x.step is None
        from1 = lambda x: isinstance(x, ast.Slice) and isinstance(x.lower, ast.Constant) and x.lower.value == 1 and x.upper is None and x.step is None
        if isinstance(sl, ast.Tuple) and len(sl.elts) == 2 and full(sl.elts[0]):
            if isinstance(sl.elts[1], ast.Constant) and sl.elts[1].value == 0:
                return 'col0'
            if from1(sl.elts[1]):
                return 'rest'
        if from1(sl):
            return 'tail'
        return None

    def load_subscript(self, eng, e, st):
        base = eng.ev(e.value, st)
        if ismx(base):
            return GETREST(base) if self._form(e.slice) == 'rest' else z3.Const(fresh_name('mx'), MX)
        return Domain.load_subscript(self, eng, e, st)

    def store_subscript(self, eng, t, v, st):
        base = eng.ev(t.value, st)
        if ismx(base) and isinstance(t.value, ast.Name):
            f = self._form(t.slice)
            if f == 'col0' and isz(v) and isnum(v):
                nv = SETC0(base, to_real(v))
            elif f == 'rest' and ismx(v):
                nv = SETREST(base, v)
            elif f == 'tail' and isz(v) and isnum(v):
                nv = SETTAIL(base, to_real(v))
            else:
                nv = z3.Const(fresh_name(t.value.id), MX)
            st.env[t.value.id] = nv
            return
        return Domain.store_subscript(self, eng, t, v, st)

    def fresh(self, shape, name, st=None):
        if shape == 'mx':
            return z3.Const(fresh_name(name), MX)
        return Domain.fresh(self, shape, name, st)

    def lib_call(self, eng, e, name, args, kwargs, st):
        if name in self.builtins:
            return self.builtins[name](eng, e, args, kwargs, st)
        if name in ('np.max', 'np.min'):
            return freal('red')
        return UNK

    def spec_call(self, eng, name, e, st):
        fs = {'ZEROS': ZM, 'ONES': ONESV, 'SETCOL0': SETC0, 'SETREST': SETREST, 'DIVS': DIVS, 'SETTAIL': SETTAIL}
        if name in fs:
            args = [eng.ev(a, st) for a in e.args]
            if any(not isz(a) for a in args):
                return UNK
            args = [to_real(a) if (isnum(a) and fs[name].domain(i) == R) else a for i, a in enumerate(args)]
            return fs[name](*args)
        if name == 'XPT_DIRECTIONS':
            return XD
        if name == 'ndim':
            return N_
        if name == 'npt_now':
            return NPT_
        return Domain.spec_call(self, eng, name, e, st)
