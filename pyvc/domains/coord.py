"""Domain Cd — real scalars plus real arrays read and written by element (coordinate steps of the initial interpolation set).

Extends Rd: floats are mathematical reals.  A 1-D float (or bool) array is a z3 array Int -> Real (Bool); the 2-D scratch array
xpts_added is an array of rows, Int -> (Int -> Real).  An elementwise comparison  array < scalar  is the pointwise lambda.
Element loads / stores, the row read a[k, :], and the row exchange a[[i, j]] = a[[j, i]] are exact; every other array operation is havoc."""
import ast, z3
from ..core import *
from .radii import RadiiDomain

RS, IS, BS = z3.RealSort(), z3.IntSort(), z3.BoolSort()
ROW = z3.ArraySort(IS, RS)
ZEROROW = z3.K(IS, z3.RealVal(0))
N_ = z3.Int('N_dim')           # the problem dimension n (one constant per verification)


class RA:
    """1-D array (Real or Bool elements)"""

    def __init__(self, arr):
        self.arr = arr

    def merge(self, c, other):
        if not isinstance(other, RA) or other.arr.sort() != self.arr.sort():
            return UNK
        return RA(z3.If(c, self.arr, other.arr))

    def fresh_like(self, name, st):
        return RA(z3.Const(fresh_name(name), self.arr.sort()))

    def getitem(self, e, eng, st):
        if isinstance(e.slice, (ast.Slice, ast.Tuple, ast.List)):
            return UNK
        i = eng.ev(e.slice, st)
        return z3.Select(self.arr, i) if isint(i) else UNK

    def setitem(self, t, v, eng, st):
        i = None if isinstance(t.slice, (ast.Slice, ast.Tuple, ast.List)) else eng.ev(t.slice, st)
        if isint(i) and isz(v) and (isnum(v) or isbool(v)):
            v = to_real(v) if self.arr.range() == RS else v
            if v.sort() == self.arr.range():
                return RA(z3.Store(self.arr, i, v))
        return RA(z3.Const(fresh_name('havoc'), self.arr.sort()))


class Rows2:
    def __init__(self, base, idx):
        self.base, self.idx = base, idx


class RA2:
    """2-D float array as an array of rows"""

    def __init__(self, arr):
        self.arr = arr

    def merge(self, c, other):
        if not isinstance(other, RA2):
            return UNK
        return RA2(z3.If(c, self.arr, other.arr))

    def fresh_like(self, name, st):
        return RA2(z3.Const(fresh_name(name), self.arr.sort()))

    def getitem(self, e, eng, st):
        sl = e.slice
        if isinstance(sl, ast.Tuple) and len(sl.elts) == 2:
            a, b = sl.elts
            if isinstance(a, ast.Slice):
                return UNK
            i = eng.ev(a, st)
            if not isint(i):
                return UNK
            if isinstance(b, ast.Slice):
                if b.lower is None and b.upper is None and b.step is None:
                    return RA(z3.Select(self.arr, i))
                return UNK
            j = eng.ev(b, st)
            return z3.Select(z3.Select(self.arr, i), j) if isint(j) else UNK
        if isinstance(sl, ast.List):
            idx = [eng.ev(x, st) for x in sl.elts]
            return Rows2(self, idx) if all(isint(i) for i in idx) else UNK
        if isinstance(sl, ast.Slice):
            return UNK
        i = eng.ev(sl, st)
        return RA(z3.Select(self.arr, i)) if isint(i) else UNK

    def setitem(self, t, v, eng, st):
        sl = t.slice
        havoc = RA2(z3.Const(fresh_name('havoc'), self.arr.sort()))
        if isinstance(sl, ast.Tuple) and len(sl.elts) == 2 and not any(isinstance(x, ast.Slice) for x in sl.elts):
            i, j = eng.ev(sl.elts[0], st), eng.ev(sl.elts[1], st)
            if isint(i) and isint(j) and isz(v) and isnum(v):
                return RA2(z3.Store(self.arr, i, z3.Store(z3.Select(self.arr, i), j, to_real(v))))
            if isint(i):
                # an untracked value stored into row i: that row is havoc, the others keep their contents
                return RA2(z3.Store(self.arr, i, z3.Const(fresh_name('row'), ROW)))
            return havoc
        if isinstance(sl, ast.List) and isinstance(v, Rows2):
            idx = [eng.ev(x, st) for x in sl.elts]
            if all(isint(i) for i in idx) and len(idx) == len(v.idx):
                vals = [z3.Select(v.base.arr, s) for s in v.idx]       # the right-hand side is a copy
                a = self.arr
                for tgt, val in zip(idx, vals):
                    a = z3.Store(a, tgt, val)
                return RA2(a)
        return havoc


class CoordDomain(RadiiDomain):
    name = 'Cd'

    def __init__(self, repo):
        RadiiDomain.__init__(self, repo)
        self.inline = set(self.inline) - {'Controller.n'}
        fs = self.field_shapes
        fs[('Model', 'sl')] = 'rvec'
        fs[('Model', 'su')] = 'rvec'
        self.assumptions += ['A-real (arrays): sl, su and the scratch array of steps hold mathematical reals; 0.01*delta and 2.0*delta are exact products',
                             'A-lib: np.zeros((r, c)) is the r x c zero array; a[k, j] / a[k, :] / a[[i, j]] = a[[j, i]] have NumPy semantics; '
                             'array < scalar compares elementwise']
        b = self.builtins
        b['Controller.n'] = lambda eng, n, a, k, st: N_
        b['np.zeros'] = self.b_zeros

    def init_state(self, st, fi, con):
        RadiiDomain.init_state(self, st, fi, con)
        st.assume(N_ >= 1)

    def fresh(self, shape, name, st=None):
        if shape == 'rvec':
            return RA(z3.Const(fresh_name(name), ROW))
        return RadiiDomain.fresh(self, shape, name, st)

    def b_zeros(self, eng, node, args, kw, st):
        a = args[0] if args else UNK
        if isinstance(a, tuple) and len(a) == 2 and all(isint(x) for x in a):
            return RA2(z3.K(IS, ZEROROW))
        if isint(a) or (isinstance(a, tuple) and len(a) == 1 and isint(a[0])):
            return RA(ZEROROW)
        return UNK

    def compare(self, op, a, b, st, node=None):
        if op in ('<', '<=', '>', '>='):
            arr, sc, flip = (a, b, False) if isinstance(a, RA) else ((b, a, True) if isinstance(b, RA) else (None, None, False))
            if arr is not None and arr.arr.range() == RS and isz(sc) and isnum(sc):
                j = z3.Int('j_cmp')
                x, y = z3.Select(arr.arr, j), to_real(sc)
                if flip:
                    x, y = y, x
                return RA(z3.Lambda([j], {'<': x < y, '<=': x <= y, '>': x > y, '>=': x >= y}[op]))
        return RadiiDomain.compare(self, op, a, b, st, node)

    def spec_call(self, eng, name, e, st):
        if name == 'clipstep':
            v, lo, hi = (eng.ev(x, st) for x in e.args)
            if not all(isz(x) and isnum(x) for x in (v, lo, hi)):
                return UNK
            v, lo, hi = to_real(v), to_real(lo), to_real(hi)
            return z3.If(v < lo, lo, z3.If(v > hi, hi, v))
        if name == 'zerorow':
            a, r = eng.ev(e.args[0], st), eng.ev(e.args[1], st)
            if isinstance(a, RA2) and isint(r):
                return z3.Select(a.arr, r) == ZEROROW
            return UNK
        if name == 'ndim':
            return N_
        return RadiiDomain.spec_call(self, eng, name, e, st)
