"""Domain L — the Int evaluation ledger.

Tracked: Python ints, bools, None-ness, ExitInformation records (flag, message id), the counters nf / nx / maxfun,
nruns, and the ghost ledger G = {calls, pts, maxfun, pending, nanflag, restarts}.
Everything floating-point or array-valued is havoc, so the proofs hold for *any* residual values (NaN, inf,
exceptions aside) — this is what C02/C04(pending)/C08(i)/C10(c,d,e) need.
"""
import ast, z3
from ..core import *
from ..domain import Domain, IntHavoc, LIB_ROOTS, ParamsMixin


# opaque Python values (vectors, arrays of residual vectors) that the call-site obligations of C03 follow
VL = z3.DeclareSort('Val')
ABS = z3.Function('ABS', z3.IntSort(), VL, VL)            # Model.as_absolute_coordinates under base generation g
SUBBASE = z3.Function('SUBBASE', z3.IntSort(), VL, VL)    # v - model.xbase under base generation g
ROW = z3.Function('ROW', VL, z3.IntSort(), VL)            # rvec_list[i, :]
MEANV = z3.Function('MEANV', VL, z3.IntSort(), VL)        # np.mean(rvec_list[:n, :], axis=0)
REC_X = z3.Function('REC_X', z3.IntSort(), VL)            # incumbent record of model version v: absolute point,
REC_R = z3.Function('REC_R', z3.IntSort(), VL)            #   stored residual,
REC_NS = z3.Function('REC_NS', z3.IntSort(), z3.IntSort())  # sample count,
REC_EN = z3.Function('REC_EN', z3.IntSort(), z3.IntSort())  # evaluation number
NPT = z3.Function('NPT', z3.IntSort(), z3.IntSort())      # model.npt() of model version v
# a returned "entry" (x, resid, obj, nsamples, eval number) and a returned Jacobian pair, identified by opaque tokens
EX = z3.Function('EX', VL, VL)
ER = z3.Function('ER', VL, VL)
EO = z3.Function('EO', VL, VL)
ENS = z3.Function('ENS', VL, z3.IntSort())
EEN = z3.Function('EEN', VL, z3.IntSort())
EJ = z3.Function('EJ', VL, VL)
EJN = z3.Function('EJN', VL, VL)
RS = z3.Function('RS', VL, VL)                            # remove_scaling(v, scaling_changes)
COLDIV = z3.Function('COLDIV', VL, z3.IntSort(), VL)      # J with column i divided by scaling_changes[1][i]
SUMSQV = z3.Function('SUMSQ', VL, VL)                     # sumsq(v)
HVAL = z3.Function('HVAL', VL, VL)                        # h(u, *argsh)   (A-callback: h is a deterministic function of its argument)
ADDV = z3.Function('ADDV', VL, VL, VL)                    # a + b on opaque float values (a function of the two values)
LEQV = z3.Function('LEQ', VL, VL, z3.BoolSort())          # a <= b on opaque float values (uninterpreted: only congruence is used)
OFNUM = z3.Function('OFNUM', z3.RealSort(), VL)           # a tracked number read as a float
MINOBJ = z3.Function('MINOBJ', z3.IntSort(), VL)          # model.min_objective_value() = max(abs_tol, rel_tol * objbeg) of model version v
KOPT = z3.Function('KOPT', z3.IntSort(), z3.IntSort())     # model.kopt of model version v (slot of the incumbent record)
NUMPTS = z3.Function('NUMPTS', z3.IntSort(), z3.IntSort()) # model.num_pts (capacity of the interpolation set) of model version v
POSV = z3.Function('POS', VL, z3.BoolSort())              # v > 0.0 on an opaque float
LTV = z3.Function('LT', VL, VL, z3.BoolSort())            # a < b on opaque floats (uninterpreted: only congruence is used)
ISNANV = z3.Function('ISNAN', VL, z3.BoolSort())          # np.isnan(v) of an opaque scalar
UNSC = z3.RecFunction('UNSC', VL, z3.IntSort(), VL)       # columns 0..i-1 un-scaled, in order
_j, _i = z3.Const('j_', VL), z3.Int('i_')
z3.RecAddDefinition(UNSC, [_j, _i], z3.If(_i <= 0, _j, COLDIV(UNSC(_j, _i - 1), _i - 1)))


def isval(v):
    return isz(v) and v.sort() == VL


class RowsPrefix:
    """rvec_list[:n, :]"""

    def __init__(self, v, n):
        self.v, self.n = v, n


class BaseTok:
    """model.xbase under base generation g"""

    def __init__(self, g):
        self.g = g


class NanTestV(Unk):
    def __init__(self, v):
        Unk.__init__(self, 'isnan(values)')
        self.v = v

    def truth(self):
        # np.isnan(v) used directly as a condition (v a scalar): the uninterpreted NaN test of that value
        return ISNANV(self.v)


class EvalVals(Unk):
    """the array of residual vectors returned by the latest evaluate_objective (ghost-tagged havoc)"""

    def __init__(self):
        Unk.__init__(self, 'evaluated values')


class NanTest(Unk):
    def __init__(self):
        Unk.__init__(self, 'isnan(evaluated values)')


class LedgerDomain(ParamsMixin, Domain):
    name = 'L'
    float_mode = 'havoc'
    smt_logic = None        # let z3 choose (linear integer arithmetic + UF): several times faster than logic ALL on these queries
    inline = {'ExitInformation.able_to_do_restart', 'ExitInformation.message', 'ExitInformation.__init__',
              'Controller.n', 'Controller.m', 'Controller.npt', 'OptimResults.__init__'}

    def __init__(self, repo):
        Domain.__init__(self, repo)
        self.ghost_shapes = {'calls': 'int', 'pts': 'int', 'maxfun': 'int', 'pending': 'bool', 'nanflag': 'bool',
                             'restarts': 'int',
                             # C03 call-site ghosts: base generation, model version, the latest evaluation, samples offered so far
                             'gen': 'int', 'mver': 'int', 'lastx': 'val', 'lastvals': 'val', 'lastk': 'int', 'offered': 'int',
                             'lastslot': 'int', 'proj': 'bool', 'nptver': 'int',
                             'ent': 'val', 'entjac': 'val', 'best': 'val', 'bestjac': 'val', 'rows': 'int',
                             # "the best objective value found so far is finite": nothing in this domain establishes it (floats are havoc); C10 (f)
                             'objfinite': 'bool',
                             # C04 (ii): the pending trial point was accepted as an improvement (ratio > 0); the model version whose incumbent record was offered to save_point
                             'better': 'bool', 'savedver': 'int',
                             # hard-restart merge: the best-so-far objective before a run, the objective the run returned, "a restarted run has happened"
                             'objprev': 'val', 'objnew': 'val', 'ran': 'bool',
                             # C19 (N5): the caller left growing.ndirs_initial at (or above) npt - 1, so the initial set is complete and the run never grows
                             'fullinit': 'bool',
                             # C04 (ii): the geometry step that is about to run targets the incumbent itself and re-evaluates the incumbent's own (clipped) point
                             'reeval': 'bool'}
        fs = self.field_shapes
        fs[('Controller', 'nf')] = 'int'
        fs[('Controller', 'nx')] = 'int'
        fs[('Controller', 'maxfun')] = 'int'
        fs[('Controller', 'last_successful_run')] = 'int'
        fs[('Controller', 'model')] = 'ref:Model'
        fs[('Controller', 'objfun')] = 'cb:objfun'
        fs[('Controller', 'h')] = 'opt:cb:h'
        self.assumptions += [
            'A-int: Python int is Z; dtype=int arrays do not overflow',
            'A-callback: objfun/h/prox_uh/nsamples/projections do not mutate solver objects or re-enter dfols; nsamples returns an int',
            'A-resolve: method calls are resolved by name over the package classes',
            'A-lib: NumPy/SciPy calls have no effect on the tracked (integer/ghost) state',
            'A-M: 0 <= model.kopt < model.npt() whenever read (class invariant INV_shape of Model, proved on the real Model methods in bundle model)',
            'N-ratio: ratio > 0 at the trust-region update means the averaged trial objective is below the incumbent (sign of actual/pred with pred >= 0: exact in IEEE-754; pred < 0 exits before the update)',
            'floats and arrays are havoc in this domain (over-approximation): valid for arbitrary residual values',
            'A-real (one identity, WITHOUT projections only): model.as_absolute_coordinates(x - model.xbase) == x for an x that is itself an output of '
            'as_absolute_coordinates (real arithmetic, idempotent clip). With projections nothing of the kind is assumed: Dykstra re-applied to its own output '
            'does move it (known finding D24)']
        self.install_ledger_builtins()
        self.builtins['remove_scaling'] = lambda eng, n, a, k, st: RS(a[0]) if isval(a[0]) else UNK
        self.spec_funcs = {'UNSC': UNSC, 'COLDIV': COLDIV, 'EX': EX, 'ER': ER, 'EO': EO, 'ENS': ENS, 'EEN': EEN, 'EJ': EJ, 'EJN': EJN, 'RS': RS, 'ABS': ABS, 'SUBBASE': SUBBASE, 'ROW': ROW, 'MEANV': MEANV, 'REC_X': REC_X, 'REC_R': REC_R, 'REC_NS': REC_NS,
                           'REC_EN': REC_EN, 'NPT': NPT,
                           'SUMSQ': SUMSQV, 'HVAL': HVAL, 'ADDV': ADDV, 'LEQ': LEQV, 'OFNUM': OFNUM, 'MINOBJ': MINOBJ, 'KOPT': KOPT, 'POS': POSV, 'LT': LTV, 'ISNAN': ISNANV, 'NUMPTS': NUMPTS}

    def name_shape(self, name):
        if name == 'ratio':
            return 'val'
        if name in ('x', 'xnew', 'new_point', 'rvec_list', 'base_shift', 'x0', 'r0_avg', 'rvec', 'obj', 'obj0_avg', 'xmin', 'rmin', 'objmin',
                    'xmin2', 'rmin2', 'objmin2'):
            return 'val'
        if name in ('jacmin', 'jacmin2', 'jac_eval_nums', 'jacmin_eval_nums', 'jacmin_eval_nums2'):
            return 'opt:val'
        return {'exit_info': 'optexit', 'nruns_so_far': 'int', 'nf': 'int', 'nx': 'int', 'num_samples_run': 'int',
                'number_of_samples': 'int', 'incremented_nx': 'bool', 'finished_growing': 'bool',
                'linalg_error': 'optexit', 'nruns': 'int', 'last_successful_run': 'int', 'knew': 'int', 'kmin': 'int',
                'xmin_eval_num': 'int', 'x_eval_num': 'int', 'xmin_eval_num2': 'int', 'nsamples_min': 'int', 'nsamples2': 'int'}.get(name)

    def default_param(self, fi, nm, st):
        if nm == 'self' and fi.cls:
            return Ref('self', fi.cls)
        if nm == 'params':
            return Ref('params', 'ParameterList')
        if nm in ('objfun', 'nsamples', 'h', 'prox_uh'):
            return Callback(nm)
        return UNK

    def global_name(self, eng, name, st):
        if name == 'params':
            return Ref('params', 'ParameterList')
        return Domain.global_name(self, eng, name, st)

    # --------------------------------------------------------------------------------------------- builtins
    def install_ledger_builtins(self):
        b = self.builtins
        b['ParameterList.__call__'] = self.b_params
        b['ParameterList.check_all_params'] = self.params_check_all
        b['np.any'] = self.b_np_any
        b['np.isnan'] = self.b_np_isnan
        b['np.mean'] = self.b_np_mean
        b['Model.as_absolute_coordinates'] = lambda eng, n, a, k, st: ABS(st.heap[('G', 'gen')], self.toval(a[1]))
        b['Model.xopt'] = lambda eng, n, a, k, st: REC_X(st.heap[('G', 'mver')]) if (k.get('abs_coordinates') is not None or len(a) > 1) and \
            z3.is_true(z3.simplify(self.truth(k.get('abs_coordinates', a[1] if len(a) > 1 else z3.BoolVal(False)), st))) else z3.Const(fresh_name('xopt'), VL)
        b['Model.ropt'] = lambda eng, n, a, k, st: REC_R(st.heap[('G', 'mver')])
        b['Model.npt'] = lambda eng, n, a, k, st: NPT(st.heap[('G', 'nptver')])
        b['sumsq'] = lambda eng, n, a, k, st: SUMSQV(a[0]) if a and isval(a[0]) else UNK
        b['Model.min_objective_value'] = lambda eng, n, a, k, st: MINOBJ(st.heap[('G', 'mver')])

    def spec_call(self, eng, name, e, st):
        if name == 'newent':
            # ghost: a fresh entry token defined by the five returned values (conservative extension: the token is new)
            a = [eng.ev(x, st) for x in e.args]
            t = z3.Const(fresh_name('ent'), VL)
            for f, v in zip((EX, ER, EO, ENS, EEN), a):
                if isz(v) and v.sort() == f.range():
                    st.assume(f(t) == v)
            return t
        return Domain.spec_call(self, eng, name, e, st)

    def assign_stmt(self, eng, s, st):
        # J[:, i] = J[:, i] / scaling_changes[1][i]   (the Jacobian un-scaling statement of solve)
        try:
            t = s.targets[0]
            if (len(s.targets) == 1 and isinstance(t, ast.Subscript) and isinstance(t.value, ast.Name) and isinstance(t.slice, ast.Tuple)
                    and len(t.slice.elts) == 2 and isinstance(t.slice.elts[0], ast.Slice) and t.slice.elts[0].upper is None
                    and t.slice.elts[0].lower is None and isinstance(s.value, ast.BinOp) and isinstance(s.value.op, ast.Div)
                    and ast.dump(s.value.left) == ast.dump(ast.Subscript(value=t.value, slice=t.slice, ctx=ast.Load())).replace('Store()', 'Load()')
                    and ast.unparse(s.value.right) == 'scaling_changes[1][%s]' % ast.unparse(t.slice.elts[1])):
                cur = st.env.get(t.value.id)
                cur = cur.val if isinstance(cur, Opt) else cur
                i = eng.ev(t.slice.elts[1], st)
                if isval(cur) and isint(i):
                    st.env[t.value.id] = COLDIV(cur, i)
                    return True
        except Exception:
            pass
        return False

    def b_np_mean(self, eng, node, args, kw, st):
        if args and isinstance(args[0], RowsPrefix) and 'axis' in kw and z3.is_int_value(kw['axis']) and kw['axis'].as_long() == 0:
            return MEANV(args[0].v, args[0].n)
        return UNK

    def load_subscript(self, eng, e, st):
        # rvec_list[i, :]  /  rvec_list[:n, :]  on an opaque value;  model.nsamples[model.kopt], model.eval_num[model.kopt]
        if isinstance(e.value, ast.Attribute) and e.value.attr in ('nsamples', 'eval_num') and isinstance(e.slice, ast.Attribute) \
                and e.slice.attr == 'kopt' and ast.dump(e.value.value) == ast.dump(e.slice.value):
            owner = eng.ev(e.value.value, st)
            if isinstance(owner, Ref) and owner.cls == 'Model':
                return (REC_NS if e.value.attr == 'nsamples' else REC_EN)(st.heap[('G', 'mver')])
        base = eng.ev(e.value, st)
        if isval(base) and isinstance(e.slice, ast.Tuple) and len(e.slice.elts) == 2:
            a, b2 = e.slice.elts
            full = isinstance(b2, ast.Slice) and b2.lower is None and b2.upper is None and b2.step is None
            if full and isinstance(a, ast.Slice) and a.lower is None and a.step is None and a.upper is not None:
                n = eng.ev(a.upper, st)
                if isint(n):
                    return RowsPrefix(base, n)
            elif full and not isinstance(a, ast.Slice):
                i = eng.ev(a, st)
                if isint(i):
                    return ROW(base, i)
            return UNK
        if isval(base):
            return UNK
        return Domain.load_subscript(self, eng, e, st)

    def store_subscript(self, eng, t, v, st):
        base = eng.ev(t.value, st)
        if isval(base) and isinstance(t.value, ast.Name):
            # element store into an opaque value bound to a local: it becomes a new opaque value (A-alias: by value)
            if not isinstance(t.slice, ast.Slice):
                eng.ev(t.slice, st)
            st.env[t.value.id] = z3.Const(fresh_name(t.value.id), VL)
            return
        return Domain.store_subscript(self, eng, t, v, st)

    def load_attr(self, eng, base, attr, st, node):
        b0 = base.val if isinstance(base, Opt) else base
        if isinstance(b0, Ref) and b0.cls == 'Model':
            if attr == 'projections':
                return st.heap[('G', 'proj')]
            if attr == 'xbase':
                return BaseTok(st.heap[('G', 'gen')])
            if attr == 'num_pts':
                return NUMPTS(st.heap[('G', 'nptver')])
            if attr == 'kopt':
                # A-M (class invariant INV_shape, proved on every Model method in bundle model): 0 <= kopt < npt()
                k = KOPT(st.heap[('G', 'mver')])
                st.assume(z3.And(k >= 0, k < NPT(st.heap[('G', 'nptver')])))
                return k
        return Domain.load_attr(self, eng, base, attr, st, node)

    def binop(self, op, a, b, st, node=None):
        if isinstance(b, BaseTok) and op == '-' and isval(a):
            r = SUBBASE(b.g, a)
            # real arithmetic + idempotence of the clip: xbase + clip((xbase + clip(p)) - xbase) == xbase + clip(p).
            # WITHOUT projections only.  With projections the same identity would say that Dykstra re-applied to its own output returns it, which is false
            # (finding D24: up to 0.1 in solve with init.random_initial_directions; see witnesses/d24_reprojection.py), so nothing is assumed there.
            if z3.is_app(a) and a.decl().name() == 'ABS':
                st.assume(z3.Implies(z3.And(a.arg(0) == b.g, z3.Not(st.heap[('G', 'proj')])), ABS(b.g, r) == a))
            return r
        if op == '+' and isval(a) and isval(b):
            return ADDV(a, b)
        if isval(a) or isval(b):
            return z3.Const(fresh_name('v'), VL)
        return Domain.binop(self, op, a, b, st, node)

    def augassign(self, op, cur, inc, st, node):
        if isval(cur):
            return z3.Const(fresh_name('v'), VL)
        return Domain.augassign(self, op, cur, inc, st, node)

    def compare(self, op, a, b, st, node=None):
        if isval(a) and isval(b) and op in ('==', '!='):
            return (a == b) if op == '==' else (a != b)
        if op == '>' and isval(a) and node is not None and isinstance(node, ast.Compare) and len(node.comparators) == 1 and \
                isinstance(node.comparators[0], ast.Constant) and node.comparators[0].value in (0, 0.0) and not isinstance(node.comparators[0].value, bool):
            return POSV(a)
        if op in ('<', '<=') and isval(a) and (isval(b) or isint(b) or isreal(b)):
            b = b if isval(b) else OFNUM(z3.ToReal(b) if isint(b) else b)
            # IEEE-754 facts about the two uninterpreted orders: a comparison with a NaN is false, and a < b implies a <= b
            st.assume(z3.And(z3.Implies(LTV(a, b), z3.And(z3.Not(ISNANV(a)), z3.Not(ISNANV(b)), LEQV(a, b))),
                             z3.Implies(LEQV(a, b), z3.And(z3.Not(ISNANV(a)), z3.Not(ISNANV(b))))))
            return LTV(a, b) if op == '<' else LEQV(a, b)
        return Domain.compare(self, op, a, b, st, node)

    def is_same(self, a, b, st):
        # opaque values are never None: everything that may be None is an Opt (shape 'opt:val')
        return Domain.is_same(self, a, b, st)

    def on_assign_name(self, name, v, st):
        if is_unk(v) and self.name_shape(name) == 'val':
            return z3.Const(fresh_name(name), VL)
        if is_unk(v) and not isinstance(v, IntHavoc) and self.name_shape(name) in ('int',):
            return fint(name)
        return v

    def toval(self, v):
        return v if isval(v) else z3.Const(fresh_name('v'), VL)

    def fresh(self, shape, name, st=None):
        if shape == 'evalvals' or shape == 'val':
            return z3.Const(fresh_name(name), VL)
        return Domain.fresh(self, shape, name, st)

    def init_state(self, st, fi, con):
        Domain.init_state(self, st, fi, con)
        self.params_init(st)
        # the two float tolerances of the small-objective test are opaque values (updates havoc them like any other entry)
        for key in ('model.abs_tol', 'model.rel_tol'):
            if key in self.repo.param_defaults:
                st.heap[('params', key)] = z3.Const(fresh_name('P_' + key), VL)

    def b_params(self, eng, node, args, kw, st):
        return self.params_get(eng, node, args, kw, st)

    def call_frame(self, eng, callnode):
        out = Domain.call_frame(self, eng, callnode)
        if 'params!' in out:
            if callnode.args and isinstance(callnode.args[0], ast.Constant):
                out.discard('params!')
                out.add(callnode.args[0].value)
        return out

    def construct(self, eng, cls, e, st):
        r = Domain.construct(self, eng, cls, e, st)
        if cls == 'ExitInformation' and isinstance(r, Rec) and len(eng.frames) == 1:
            con = eng.frames[0].contract
            msg = r.fields.get('msg')
            if con is not None and isinstance(msg, StrV) and z3.is_int_value(msg.id):
                text = INTERN_REV[msg.id.as_long()]
                for lit, cls_ in con.msg_asserts.items():
                    if lit in text:
                        for c in cls_:
                            v = eng.eval_clause(c, st, eng.frames[0].old)
                            eng.oblige(st, v, 'assert', c.label, c.tags, e.lineno, site='msg "%s"' % lit[:40])
        elif cls in self.repo.classes and isinstance(r, Ref):
            self.init_object(st, r)
        return r

    def b_np_isnan(self, eng, node, args, kw, st):
        if args and isval(args[0]):
            return NanTestV(args[0])
        return UNK

    def b_np_any(self, eng, node, args, kw, st):
        if args and isinstance(args[0], NanTestV):
            # "the values of the latest evaluation contain a NaN" is the ghost flag; for any other value it is unknown
            return z3.If(args[0].v == st.heap[('G', 'lastvals')], st.heap[('G', 'nanflag')], fbool('anynan'))
        return UNK

    def lib_call(self, eng, e, name, args, kwargs, st):
        if name in self.builtins:
            return self.builtins[name](eng, e, args, kwargs, st)
        return UNK

    def callback(self, eng, cb, e, args, kwargs, st):
        if cb.name == 'objfun':
            # the one place the user's residual function is invoked
            g = ('G', 'calls')
            st.heap[g] = st.heap[g] + 1
            eng.oblige(st, st.heap[g] <= st.heap[('G', 'maxfun')], 'call', 'objfun:calls <= maxfun', ['C02', 'C08'], e.lineno)
            return UNK
        if cb.name == 'h' and args and isval(args[0]):
            return HVAL(args[0])
        return Domain.callback(self, eng, cb, e, args, kwargs, st)

    # --------------------------------------------------------------------------------------------- loops
    def default_loop_invariant(self, eng, loop, st, frame):
        """class invariant + 'no evaluated point is pending' for every loop that can touch the ledger"""
        con = frame.contract
        if con is None or len(eng.frames) != 1:
            return []
        ordinal = frame.loop_ord.get(id(loop), '?')
        if ordinal in con.loops and any(c.label.startswith('!nodefault') for c in con.loops[ordinal]):
            return []
        w = set()
        for s in loop.body:
            for n in ast.walk(s):
                if isinstance(n, ast.Call):
                    w |= self.call_frame(eng, n)
        if not (w & {'nf', 'nx', 'calls', 'pts', 'pending'}):
            if 'offered' in w and isinstance(loop, ast.For):
                # the `for i in range(1, num_samples_run): model.add_new_sample(k, rvec_list[i, :])` idiom
                return clauses([('samples offered so far:: G.offered == i_', 'C02', 'C03', 'C17')])
            return []
        return getattr(con, 'ledger_inv', [])

    def at_break(self, eng, loop, st, line, frame):
        con = frame.contract
        if con is None or len(eng.frames) != 1:
            return
        ordinal = frame.loop_ord.get(id(loop), '?')
        key = 'break@%s' % ordinal
        if key in con.asserts:
            # ordinal of this break among the breaks of the loop (source order)
            brks = sorted(own_breaks(loop), key=lambda n: n.lineno)
            k = [n.lineno for n in brks].index(line) + 1 if line in [n.lineno for n in brks] else 0
            for c in con.asserts[key]:
                v = eng.eval_clause(c, st, frame.old)
                eng.oblige(st, v, 'assert', c.label, c.tags, line, site='%s.break#%d' % (ordinal, k))
            eng.cover(st, '%s.break#%d' % (ordinal, k), con.tags, line)
