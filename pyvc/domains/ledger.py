"""Domain L — the Int evaluation ledger.

Tracked: Python ints, bools, None-ness, ExitInformation records (flag, message id), the counters nf / nx / maxfun,
nruns, and the ghost ledger G = {calls, pts, maxfun, pending, nanflag, restarts}.
Everything floating-point or array-valued is havoc, so the proofs hold for *any* residual values (NaN, inf,
exceptions aside) — this is what C02/C04(pending)/C08(i)/C10(c,d,e) need.
"""
import ast, z3
from ..core import *
from ..domain import Domain, IntHavoc, LIB_ROOTS


class EvalVals(Unk):
    """the array of residual vectors returned by the latest evaluate_objective (ghost-tagged havoc)"""

    def __init__(self):
        Unk.__init__(self, 'evaluated values')


class NanTest(Unk):
    def __init__(self):
        Unk.__init__(self, 'isnan(evaluated values)')


class LedgerDomain(Domain):
    name = 'L'
    float_mode = 'havoc'
    inline = {'ExitInformation.able_to_do_restart', 'ExitInformation.message', 'ExitInformation.__init__',
              'Controller.n', 'Controller.m', 'Controller.npt', 'OptimResults.__init__'}

    def __init__(self, repo):
        Domain.__init__(self, repo)
        self.ghost_shapes = {'calls': 'int', 'pts': 'int', 'maxfun': 'int', 'pending': 'bool', 'nanflag': 'bool',
                             'restarts': 'int'}
        fs = self.field_shapes
        fs[('Controller', 'nf')] = 'int'
        fs[('Controller', 'nx')] = 'int'
        fs[('Controller', 'maxfun')] = 'int'
        fs[('Controller', 'last_successful_run')] = 'int'
        fs[('Controller', 'model')] = 'ref:Model'
        fs[('Controller', 'objfun')] = 'cb:objfun'
        fs[('Controller', 'h')] = 'opt:cb:h'
        self.assumptions += [
            'A-int: Python int is Z; dtype=int arrays do not overflow',
            'A-callback: objfun/h/prox_uh/nsamples/projections do not mutate solver objects or re-enter dfols; nsamples returns an int',
            'A-resolve: method calls are resolved by name over the package classes',
            'A-lib: NumPy/SciPy calls have no effect on the tracked (integer/ghost) state',
            'floats and arrays are havoc in this domain (over-approximation): valid for arbitrary residual values']
        self.install_ledger_builtins()

    def name_shape(self, name):
        return {'exit_info': 'optexit', 'nruns_so_far': 'int', 'nf': 'int', 'nx': 'int', 'num_samples_run': 'int',
                'number_of_samples': 'int', 'incremented_nx': 'bool', 'finished_growing': 'bool',
                'linalg_error': 'optexit', 'nruns': 'int', 'last_successful_run': 'int'}.get(name)

    def default_param(self, fi, nm, st):
        if nm == 'self' and fi.cls:
            return Ref('self', fi.cls)
        if nm == 'params':
            return Ref('params', 'ParameterList')
        if nm in ('objfun', 'nsamples', 'h', 'prox_uh'):
            return Callback(nm)
        return UNK

    def global_name(self, eng, name, st):
        if name == 'params':
            return Ref('params', 'ParameterList')
        return Domain.global_name(self, eng, name, st)

    # --------------------------------------------------------------------------------------------- builtins
    def install_ledger_builtins(self):
        b = self.builtins
        b['ParameterList.__call__'] = self.b_params
        b['np.any'] = self.b_np_any
        b['np.isnan'] = self.b_np_isnan

    def fresh(self, shape, name, st=None):
        if shape == 'evalvals':
            return EvalVals()
        return Domain.fresh(self, shape, name, st)

    def init_state(self, st, fi, con):
        Domain.init_state(self, st, fi, con)
        # integer / boolean parameters as read from params.py on this run: stable symbols (floats stay havoc)
        for key, dflt in self.repo.param_defaults.items():
            t = self.repo.param_types.get(key, (None,))[0]
            if t == 'int':
                st.heap[('params', key)] = fint('P_' + key)
            elif t == 'bool':
                st.heap[('params', key)] = fbool('P_' + key)

    def b_params(self, eng, node, args, kw, st):
        args = [a for a in args if not isinstance(a, Ref)]
        key = args[0] if args else None
        if 'new_value' in kw or len(args) > 1:
            # parameter update: the tracked value of that key becomes unknown
            if isinstance(key, StrV) and z3.is_int_value(key.id):
                k = ('params', INTERN_REV[key.id.as_long()])
                if k in st.heap:
                    st.heap[k] = self.fresh_like('P', st.heap[k], st)
            else:
                for k in list(st.heap):
                    if k[0] == 'params':
                        st.heap[k] = self.fresh_like('P', st.heap[k], st)
            return UNK
        if isinstance(key, StrV) and z3.is_int_value(key.id):
            k = ('params', INTERN_REV[key.id.as_long()])
            if k in st.heap:
                return st.heap[k]
        return UNK

    def call_frame(self, eng, callnode):
        out = Domain.call_frame(self, eng, callnode)
        if 'params!' in out:
            if callnode.args and isinstance(callnode.args[0], ast.Constant):
                out.discard('params!')
                out.add(callnode.args[0].value)
        return out

    def construct(self, eng, cls, e, st):
        r = Domain.construct(self, eng, cls, e, st)
        if cls == 'ExitInformation' and isinstance(r, Rec) and len(eng.frames) == 1:
            con = eng.frames[0].contract
            msg = r.fields.get('msg')
            if con is not None and isinstance(msg, StrV) and z3.is_int_value(msg.id):
                text = INTERN_REV[msg.id.as_long()]
                for lit, cls_ in con.msg_asserts.items():
                    if lit in text:
                        for c in cls_:
                            v = eng.eval_clause(c, st, eng.frames[0].old)
                            eng.oblige(st, v, 'assert', c.label, c.tags, e.lineno, site='msg "%s"' % lit[:40])
        elif cls in self.repo.classes and isinstance(r, Ref):
            self.init_object(st, r)
        return r

    def b_np_isnan(self, eng, node, args, kw, st):
        if args and isinstance(args[0], EvalVals):
            return NanTest()
        return UNK

    def b_np_any(self, eng, node, args, kw, st):
        if args and isinstance(args[0], NanTest):
            return st.heap[('G', 'nanflag')]
        return UNK

    def lib_call(self, eng, e, name, args, kwargs, st):
        if name in self.builtins:
            return self.builtins[name](eng, e, args, kwargs, st)
        return UNK

    def callback(self, eng, cb, e, args, kwargs, st):
        if cb.name == 'objfun':
            # the one place the user's residual function is invoked
            g = ('G', 'calls')
            st.heap[g] = st.heap[g] + 1
            eng.oblige(st, st.heap[g] <= st.heap[('G', 'maxfun')], 'call', 'objfun:calls <= maxfun', ['C02', 'C08'], e.lineno)
            return UNK
        return Domain.callback(self, eng, cb, e, args, kwargs, st)

    # --------------------------------------------------------------------------------------------- loops
    def default_loop_invariant(self, eng, loop, st, frame):
        """class invariant + 'no evaluated point is pending' for every loop that can touch the ledger"""
        con = frame.contract
        if con is None or len(eng.frames) != 1:
            return []
        ordinal = frame.loop_ord.get(id(loop), -1)
        if ordinal in con.loops and any(c.label.startswith('!nodefault') for c in con.loops[ordinal]):
            return []
        w = set()
        for s in loop.body:
            for n in ast.walk(s):
                if isinstance(n, ast.Call):
                    w |= self.call_frame(eng, n)
        if not (w & {'nf', 'nx', 'calls', 'pts', 'pending'}):
            return []
        return getattr(con, 'ledger_inv', [])

    def at_break(self, eng, loop, st, line, frame):
        con = frame.contract
        if con is None or len(eng.frames) != 1:
            return
        ordinal = frame.loop_ord.get(id(loop), -1)
        key = 'break@loop%d' % ordinal
        if key in con.asserts:
            # ordinal of this break among the breaks of the loop (source order)
            brks = sorted(own_breaks(loop), key=lambda n: n.lineno)
            k = [n.lineno for n in brks].index(line) + 1 if line in [n.lineno for n in brks] else 0
            for c in con.asserts[key]:
                v = eng.eval_clause(c, st, frame.old)
                eng.oblige(st, v, 'assert', c.label, c.tags, line, site='loop%d.break#%d' % (ordinal, k))
            eng.cover(st, 'loop%d.break#%d' % (ordinal, k), con.tags, line)
