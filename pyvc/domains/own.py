"""Domain O — ownership tags (flow-sensitive, merged with may-alias join).  A value is BORROWED when it may share memory with an object owned by
the caller of solve, FRESH when it was allocated by the solver (a .copy(), .astype(), list(...), a NumPy allocation, an arithmetic result).
Obligations: no in-place write (element / slice / mask store, augmented assignment, mutating method) is applied to a possibly-borrowed object, and every
mutable object handed on to the rest of the package is fresh — then nothing the package does afterwards can touch the caller's data."""
import ast, z3
from ..core import *
from ..domain import Domain
from ..src import MUTATORS

VIEW_FUNCS = {'asarray', 'asanyarray', 'reshape', 'ravel', 'squeeze', 'transpose', 'atleast_1d', 'atleast_2d', 'ascontiguousarray', 'asfarray'}


class Own:
    """kind: 'array' | 'list' | 'dict' | 'tuple' | 'callable' | 'scalar' ; borrowed: z3 Bool (path-sensitive)"""

    def __init__(self, kind, borrowed):
        self.kind, self.borrowed = kind, borrowed

    def merge(self, c, o):
        return Own(self.kind if self.kind == o.kind else 'array', z3.If(c, self.borrowed, o.borrowed))

    def fresh_like(self, name, st):
        return Own(self.kind, fbool(name + '_borrowed'))

    def mutable(self):
        return self.kind in ('array', 'list', 'dict')


def FRESH(kind='array'):
    return Own(kind, z3.BoolVal(False))


class OwnDomain(Domain):
    name = 'O'
    smt_logic = None

    def __init__(self, repo):
        Domain.__init__(self, repo)
        self.assumptions += ['tuples, numbers, strings and callables are immutable (passing them on cannot modify the caller\'s data)',
                             'NumPy: .copy() / .astype() / np.ones / np.zeros / arithmetic allocate; np.asarray, reshape, ravel, slices and attribute access may return views',
                             'A-callback: the caller\'s own callables (objfun, h, prox_uh, nsamples, projections) are outside the claim']

    def const(self, v):
        if isinstance(v, (bool, int, float, str)) or v is None:
            return Domain.const(self, v) if not isinstance(v, float) else FRESH('scalar')
        return FRESH('scalar')

    def binop(self, op, a, b, st, node=None):
        r = Domain.binop(self, op, a, b, st, node)
        if is_unk(r):
            return FRESH('array')     # arithmetic allocates its result
        return r

    def augassign(self, op, cur, inc, st, node):
        if isinstance(cur, Own) and cur.mutable():
            self.write(getattr(self, 'eng', None), cur, st, node, 'augmented assignment to ' + dotted(node.target))
            return cur
        return Domain.binop(self, op, cur, inc, st, node) if not isinstance(cur, Own) else cur

    def unop(self, op, v, st):
        r = Domain.unop(self, op, v, st)
        return FRESH('array') if is_unk(r) else r

    def compare(self, op, a, b, st, node=None):
        r = Domain.compare(self, op, a, b, st, node)
        if is_unk(r) and (isinstance(a, Own) or isinstance(b, Own)) and op not in ('is', 'isnot', 'in', 'notin'):
            return FRESH('array')     # elementwise comparison allocates a mask
        return r

    def truth(self, v, st):
        if isinstance(v, Own):
            return fbool('truth')
        return Domain.truth(self, v, st)

    def is_same(self, a, b, st):
        if isinstance(a, Own) or isinstance(b, Own):
            return z3.BoolVal(False) if (a is NONE or b is NONE) else None
        return Domain.is_same(self, a, b, st)

    def write(self, eng, v, st, node, what):
        eng = eng or self.eng
        if len(eng.frames) != 1:
            return
        k = getattr(self, '_wcount', 0) + 1
        self._wcount = k
        eng.oblige(st, z3.Not(v.borrowed), 'ownership', 'in-place write #%d (%s) is not applied to the caller\'s object' % (k, what), ['C19'], getattr(node, 'lineno', 0))

    def load_attr(self, eng, base, attr, st, node):
        b0 = base.val if isinstance(base, Opt) else base
        if isinstance(b0, Own):
            if attr in ('shape', 'size', 'ndim', 'dtype'):
                return FRESH('scalar')
            return Own('array', b0.borrowed)       # .T, .real ...: views
        return Domain.load_attr(self, eng, base, attr, st, node)

    def load_subscript(self, eng, e, st):
        base = eng.ev(e.value, st)
        b0 = base.val if isinstance(base, Opt) else base
        if isinstance(b0, Own):
            idx = eng.ev(e.slice, st) if not isinstance(e.slice, ast.Slice) else None
            if b0.kind == 'tuple' or b0.kind == 'list':
                return Own('array', b0.borrowed)    # an element of the caller's tuple / list is the caller's
            if isinstance(idx, Own) and idx.kind == 'array':
                return FRESH('array')               # mask / fancy indexing copies
            return Own('array', b0.borrowed)        # basic indexing / slices are views
        return Domain.load_subscript(self, eng, e, st)

    def store_subscript(self, eng, t, v, st):
        base = eng.ev(t.value, st)
        b0 = base.val if isinstance(base, Opt) else base
        if not isinstance(t.slice, ast.Slice):
            eng.ev(t.slice, st)
        if isinstance(b0, Own):
            self.write(eng, b0, st, t, 'store into ' + dotted(t.value))
            return
        return Domain.store_subscript(self, eng, t, v, st)

    def call(self, eng, e, st):
        f = e.func
        name = dotted(f)
        if getattr(eng, 'in_spec', 0):
            return Domain.call(self, eng, e, st)
        # method calls on tagged values
        if isinstance(f, ast.Attribute):
            root = f
            while isinstance(root, ast.Attribute):
                root = root.value
            if isinstance(root, ast.Name) and root.id in ('np', 'LA') and root.id not in st.env:
                args, kwargs = eng.eval_args(e, st)
                if f.attr in VIEW_FUNCS:
                    tags = [a for a in args if isinstance(a, Own) and a.mutable()]
                    return Own('array', z3.Or(*[a.borrowed for a in tags])) if tags else FRESH('array')
                if f.attr in ('any', 'all', 'min', 'max', 'shape', 'allclose', 'size'):
                    return FRESH('scalar')
                return FRESH('array')
            recv = eng.ev(f.value, st)
            r0 = recv.val if isinstance(recv, Opt) else recv
            if isinstance(r0, Own):
                args, kwargs = eng.eval_args(e, st)
                if f.attr in MUTATORS:
                    self.write(eng, r0, st, e, '%s.%s(..)' % (dotted(f.value), f.attr))
                    return NONE
                if f.attr in ('copy', 'astype', 'tolist', 'flatten'):
                    return FRESH('array' if f.attr != 'tolist' else 'list')
                if f.attr in ('items', 'keys', 'values', 'get'):
                    return Own('tuple', r0.borrowed)
                if f.attr in VIEW_FUNCS or f.attr in ('view',):
                    return Own('array', r0.borrowed)
                return FRESH('array')
        if isinstance(f, ast.Name) and f.id == 'list' and f.id not in st.env:
            args, _ = eng.eval_args(e, st)
            return FRESH('list')
        if isinstance(f, ast.Name) and f.id in ('len', 'int', 'float', 'min', 'max', 'abs', 'bool', 'str') and f.id not in st.env:
            eng.eval_args(e, st)
            return FRESH('scalar')
        # calls into the package (and constructors): every mutable argument must be fresh
        qual = None
        if isinstance(f, ast.Name) and f.id not in st.env and (f.id in self.repo.funcs or f.id in self.repo.classes):
            qual = f.id
        elif isinstance(f, ast.Attribute):
            c = self.repo.resolve_method(f.attr)
            if c:
                qual = c[0] + '.' + f.attr
        if qual is not None:
            args, kwargs = eng.eval_args(e, st)
            if len(eng.frames) == 1:
                k = eng.frames[0].call_ord.get(id(e), (qual, 0))
                for i, a in list(enumerate(args)) + list(kwargs.items()):
                    a0 = a.val if isinstance(a, Opt) else a
                    if isinstance(a0, Own) and a0.kind == 'list':
                        continue        # projection lists: covered package-wide by the syntactic obligation "no function writes to a projection list in place"
                    if isinstance(a0, Own) and a0.mutable():
                        eng.oblige(st, z3.Not(a0.borrowed), 'ownership', 'argument %s handed to the package is not the caller\'s object' % (i,), ['C19'], e.lineno,
                                   site='%s#%d' % k)
            # results: the identity-like helpers may return their argument
            if qual in ('apply_scaling', 'remove_scaling'):
                a0 = args[0].val if args and isinstance(args[0], Opt) else (args[0] if args else None)
                return Own('array', a0.borrowed) if isinstance(a0, Own) else FRESH('array')
            if qual in self.repo.classes:
                return Ref(fresh_name(qual.lower()), qual)
            return UNK
        return Domain.call(self, eng, e, st)

    def on_assign_name(self, name, v, st):
        return v

    def iter_element(self, iter_val, st):
        if isinstance(iter_val, Own):
            return (Own('scalar', z3.BoolVal(False)), Own('array', iter_val.borrowed))
        return UNK

    def call_value(self, eng, fv, e, st, name):
        # calls of the caller's callables / closures: outside the claim
        eng.eval_args(e, st)
        return UNK
