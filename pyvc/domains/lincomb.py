"""Domain Lc — real vectors as LINEAR COMBINATIONS of atoms (truncated conjugate gradients / trust-region step code).

A float vector is a finite formal sum  sum_i c_i * a_i  with real (z3) coefficients over atoms a_i of an uninterpreted sort At:
a base atom (a parameter, a havoc'd local), HAT(a) = H.dot(a) for THE matrix H of the function under contract, RAT(m, a) = a with the entries
outside the free set of the mask m (xbdi == 0) set to zero.  Linearity of  +, -, scaling, H.dot(.), and masking is built into the representation
(these maps ARE linear on R^n), idempotence of masking is a normalisation.  Nothing else about vectors is assumed.

Vector equality is decided through a generic linear functional PHI (uninterpreted At -> Real): a clause  veq(u, v)  becomes the single real equation
sum c_i PHI(a_i) == sum c'_j PHI(a'_j).  As a hypothesis this is weaker than u == v (sound), and a goal proved for the unconstrained PHI holds for every
linear functional, hence u == v.  veq is therefore only used as a top-level conjunct of a clause (never negated, never as an antecedent).

Dot products are bilinear by construction:  DOT(u, v) = sum_ij c_i c'_j DOTF(a_i, a_j) with DOTF symmetric (arguments ordered), DOTF(a, a) >= 0, Cauchy-Schwarz
per pair; masked dot products (both operands restricted to the same mask) use DOTR(m, a, b) with the same facts (a semi-inner product).
Element reads v[i] are unconstrained reals; comparisons between vectors are unconstrained Booleans (over-approximation)."""
import ast, z3
from ..core import *
from ..domain import Domain
from .radii import RadiiDomain

RS, IS = z3.RealSort(), z3.IntSort()
AT = z3.DeclareSort('At')
MK = z3.DeclareSort('Mask')
HAT = z3.Function('HAT', AT, AT)
RAT = z3.Function('RAT', MK, AT, AT)
PHI = z3.Function('PHI', AT, RS)
DOTF = z3.Function('DOTF', AT, AT, RS)
DOTR = z3.Function('DOTR', MK, AT, AT, RS)
ELEM = z3.Function('ELEM', AT, IS, RS)
ISCLIP = z3.Function('ISCLIP', AT, z3.BoolSort())      # ghost: the vector is an array returned by d_within_bounds
N_ = z3.Int('N_dim')


def simp(c):
    return z3.simplify(c)


def is_zero(c):
    c = z3.simplify(c)
    return z3.is_rational_value(c) and c.numerator_as_long() == 0


class LC:
    def __init__(self, terms=None):
        self.terms = terms or {}          # key -> (atom, coef)

    @staticmethod
    def atom(a, c=None):
        return LC({a.sexpr(): (a, z3.RealVal(1) if c is None else c)})

    @staticmethod
    def fresh(name):
        return LC.atom(z3.Const(fresh_name(name), AT))

    def scale(self, t):
        t = to_real(t)
        out = {}
        for k, (a, c) in self.terms.items():
            c2 = simp(c * t)
            if not is_zero(c2):
                out[k] = (a, c2)
        return LC(out)

    def add(self, o, sign=1):
        out = dict(self.terms)
        for k, (a, c) in o.terms.items():
            c = c if sign == 1 else -c
            if k in out:
                c2 = simp(out[k][1] + c)
                if is_zero(c2):
                    del out[k]
                else:
                    out[k] = (a, c2)
            else:
                out[k] = (a, simp(c))
        return LC(out)

    def map_atoms(self, f):
        r = LC()
        for k, (a, c) in self.terms.items():
            r = r.add(LC.atom(f(a), c))
        return r

    def phi(self):
        s = z3.RealVal(0)
        for k, (a, c) in sorted(self.terms.items()):
            s = s + c * PHI(a)
        return s

    def merge(self, cnd, o):
        if not isinstance(o, LC):
            return UNK
        dom = CUR_DOM[0] if CUR_DOM else None
        if dom is not None and getattr(dom, 'norm_split', False) and dom.scalar_facts:
            same = self.terms.keys() == o.terms.keys() and all(z3.eq(self.terms[k][1], o.terms[k][1]) for k in self.terms)
            if not same:
                # norm-only abstraction at a join (bundles that speak about lengths only): the merged vector is ONE fresh atom whose squared length is that of the branch taken
                new = LC.fresh('join')
                dom.fact(None, z3.If(cnd, dom.dot(new, new, None) == dom.dot(self, self, None), dom.dot(new, new, None) == dom.dot(o, o, None)))
                return new
        out = {}
        for k in sorted(set(self.terms) | set(o.terms)):
            a = (self.terms.get(k) or o.terms.get(k))[0]
            c1 = self.terms[k][1] if k in self.terms else z3.RealVal(0)
            c2 = o.terms[k][1] if k in o.terms else z3.RealVal(0)
            out[k] = (a, simp(z3.If(cnd, c1, c2)))
        return LC(out)

    def fresh_like(self, name, st):
        return LC.fresh(name)

    def getitem(self, e, eng, st):
        if isinstance(e.slice, (ast.Slice, ast.Tuple, ast.List)):
            return UNK
        i = eng.ev(e.slice, st)
        if isinstance(i, Opt):
            i = i.val
        if isinstance(i, MaskSel):
            return MV(self, i.tok, i.kind)
        if isint(i):
            s = z3.RealVal(0)
            for k, (a, c) in sorted(self.terms.items()):
                s = s + c * ELEM(a, i)
            if getattr(eng.dom, 'scalar_facts', False):
                eng.dom.elem_facts(self, i, st)
            return s
        return UNK

    def setitem(self, t, v, eng, st):
        i = None if isinstance(t.slice, (ast.Slice, ast.Tuple, ast.List)) else eng.ev(t.slice, st)
        if isinstance(i, MaskSel) and i.kind in ('free', 'fixed'):
            other = 'fixed' if i.kind == 'free' else 'free'
            if isinstance(v, MV) and z3.eq(v.tok, i.tok) and v.kind == i.kind == 'free':
                # s[free] = w[free]:  s - R(s) + R(w)
                new = self.add(restrict(i.tok, self, st), -1).add(restrict(i.tok, v.lc, st))
                dom = eng.dom
                if getattr(dom, 'scalar_facts', False) and getattr(dom, 'norm_split', False):
                    # masking is an orthogonal projection: ||v||^2 == ||R v||^2 + ||v - R v||^2; the store replaces the free part and leaves the fixed part alone
                    dom.fact(st, dom.dot(new, new, st) == dom.dot(self, self, st) - dom.dot(MV(self, i.tok, 'free'), MV(self, i.tok, 'free'), st)
                             + dom.dot(MV(v.lc, i.tok, 'free'), MV(v.lc, i.tok, 'free'), st))
                return new
            if isz(v) and isnum(v) and is_zero(to_real(v)):
                if i.kind == 'fixed':
                    return restrict(i.tok, self, st)                   # s[fixed] = 0: only the free part is left
                return self.add(restrict(i.tok, self, st), -1)         # s[free] = 0
        return LC.fresh('havoc')


DOMAIN_FACTS = []
CUR_DOM = []      # the domain instance of the verification in progress (for value-level hooks that have no access to it)
SHRINK = {}     # sexpr of a mask token -> (parent token, index fixed, value stored)
ANC = {}        # sexpr of a mask token -> tokens of the masks it was derived from by fixing coordinates


def strip(tok, a):
    """a0 if a == RAT(tok, a0) (same mask, syntactically), else None"""
    if z3.is_app(a) and a.decl().eq(RAT) and z3.eq(a.arg(0), tok):
        return a.arg(1)
    return None


def restrict(tok, lc, st=None):
    def r(a):
        if strip(tok, a) is not None:
            return a
        if z3.is_app(a) and a.decl().eq(RAT) and any(z3.eq(a.arg(0), t) for t in ANC.get(tok.sexpr(), [])):
            return RAT(tok, a.arg(1))          # the free set of tok is contained in that of its ancestor: masking twice is masking with the smaller set
        if st is not None and z3.is_app(a) and a.decl().eq(RAT):
            # masking is idempotent: ground instance for a mask token that may (path-dependently) be the same one
            DOMAIN_FACTS.append(z3.Implies(tok == a.arg(0), RAT(tok, a) == a))
        return RAT(tok, a)
    return lc.map_atoms(r)


def matvec(lc):
    return lc.map_atoms(lambda a: HAT(a))


class MV:
    """v[xbdi == 0] (kind 'free') / v[xbdi != 0]: the entries of a vector selected by a mask"""

    def __init__(self, lc, tok, kind):
        self.lc, self.tok, self.kind = lc, tok, kind

    def same(self, o):
        return isinstance(o, MV) and z3.eq(o.tok, self.tok) and o.kind == self.kind

    def merge(self, c, o):
        if self.same(o):
            m = self.lc.merge(c, o.lc)
            return MV(m, self.tok, self.kind) if isinstance(m, LC) else UNK
        return UNK

    def fresh_like(self, name, st):
        return MV(LC.fresh(name), self.tok, self.kind)


class Prod:
    """elementwise product u[m] * w[m] awaiting np.sum"""

    def __init__(self, a, b):
        self.a, self.b = a, b


class MaskSel:
    def __init__(self, tok, kind):
        self.tok, self.kind = tok, kind


FREE = z3.Function('FREE', MK, IS, z3.BoolSort())       # coordinate i is free (xbdi[i] == 0) under the mask


class XB:
    """the integer array xbdi (-1 / 0 / +1 per coordinate), known only through a token"""

    def __init__(self, tok=None, anc=()):
        self.tok = tok if tok is not None else z3.Const(fresh_name('xbdi'), MK)
        self.anc = tuple(anc)       # tokens of masks whose free set contains this one's (syntactic ancestry: one coordinate was fixed)

    def merge(self, c, o):
        if not isinstance(o, XB):
            return UNK
        return self if z3.eq(self.tok, o.tok) else XB(z3.If(c, self.tok, o.tok))

    def fresh_like(self, name, st):
        return XB()

    def getitem(self, e, eng, st):
        if not isinstance(e.slice, (ast.Slice, ast.Tuple, ast.List)):
            eng.ev(e.slice, st)
        return fint('xbdi_i')

    def setitem(self, t, v, eng, st):
        i = None
        if not isinstance(t.slice, (ast.Slice, ast.Tuple, ast.List)):
            i = eng.ev(t.slice, st)
        if isinstance(i, Opt):
            i = i.val
        dom = eng.dom
        if getattr(dom, 'scalar_facts', False) and isint(i) and isz(v) and isint(v):
            # xbdi[i] = v with v != 0: coordinate i leaves the free set, every other coordinate keeps its status (facts about the new mask, see LinCombDomain.shrink_facts)
            new = XB(anc=(self.tok,) + self.anc)
            dom.shrink_facts(self.tok, new.tok, i, v, st)
            ANC[new.tok.sexpr()] = [self.tok] + ANC.get(self.tok.sexpr(), [])
            return new
        return XB()


class Mat:
    """the matrix H (opaque)"""

    def merge(self, c, o):
        return self if o is self else UNK

    def fresh_like(self, name, st):
        return self


def _assigns(s, nm):
    tg = []
    if isinstance(s, ast.Assign):
        tg = s.targets
    elif isinstance(s, (ast.AugAssign, ast.AnnAssign)):
        tg = [s.target]
    for t in tg:
        for x in ast.walk(t):
            if isinstance(x, ast.Name) and x.id == nm and not isinstance(getattr(x, 'ctx', None), ast.Load):
                return True
            if isinstance(x, ast.Subscript) and isinstance(x.value, ast.Name) and x.value.id == nm:
                return True
    return False


def assign_then_break(stmts, nm):
    """every statement of `stmts` (recursively; nested loops must not assign nm at all) that assigns nm is followed, in its own block and with only simple
    statements in between, by a `break` of the loop that `stmts` is the body of"""
    for k, s in enumerate(stmts):
        if isinstance(s, (ast.For, ast.While)):
            if nm in assigned_names([s]):
                return False
            continue
        if _assigns(s, nm):
            ok = False
            for t in stmts[k + 1:]:
                if isinstance(t, ast.Break):
                    ok = True
                    break
                if not isinstance(t, (ast.Assign, ast.AugAssign, ast.Expr, ast.Pass)):
                    break
            if not ok:
                return False
        for blk in ('body', 'orelse', 'handlers', 'finalbody'):
            sub = getattr(s, blk, None)
            if isinstance(sub, list) and sub and isinstance(sub[0], ast.stmt):
                if not assign_then_break(sub, nm):
                    return False
    return True


class LinCombDomain(RadiiDomain):
    name = 'Lc'
    inline = set()

    def __init__(self, repo, scalar_facts=True, h_symmetric=False, abstract_at_sumsq=True, loop_defs=None, transfer_dots=False, norm_split=False, expand_shrink=False):
        RadiiDomain.__init__(self, repo)
        self.expand_shrink = expand_shrink          # a dot product under a mask obtained by fixing one coordinate is written out over the parent mask (same trusted index-set fact, used as a rewrite)
        self.h_symmetric = h_symmetric              # H == H.T (asserted on entry of trsbox): x.(H y) == (H x).y, used to put dot products into one canonical form
        self.abstract_at_sumsq = abstract_at_sumsq  # forget the composition of a vector once its norm has been taken (keeps the norm proofs small)
        self.loop_defs = dict(loop_defs or {})      # (function, loop label) -> [(name, expression)]: an invariant of the form  name == expression, PROVED IN ANOTHER BUNDLE, used here as a definition at the loop head
        self.norm_split = norm_split                # a masked store v[free] = w[free] also records ||v'||^2 == ||v||^2 - ||v_free||^2 + ||w_free||^2 (orthogonal projection)
        self.transfer_dots = transfer_dots          # when a vector is abstracted to one atom, keep its dot products with the other live vectors (definitional equations)
        self.portfolio = bool(scalar_facts)        # nonlinear real queries: z3 and cvc5 side by side, the first definite answer wins (each is occasionally slow where the other is instant)
        self.hermetic = bool(scalar_facts)         # ... and every solver run in a process of its own, with a small portfolio of z3 seeds (pyvc.solve.discharge_hermetic): in a pool worker the same query took 0.4 s or stayed unknown
        self.slice_prefixes = ('sqrt!',) if scalar_facts else ()   # extra runs of the portfolio without the hypotheses about square roots the goal does not mention (a proof from fewer hypotheses is a proof)
        self.scalar_facts = scalar_facts      # False: dot products and square roots are unconstrained reals (enough for the linear identities, keeps the queries linear in PHI)
        self.field_shapes = {}
        self.assumptions = [
            'A-real: floats are mathematical reals in this domain (the clauses decided here are linear-algebra identities and norm bounds, stated up to rounding)',
            'vectors are formal linear combinations of atoms; +, -, scaling, H.dot(.) and masking v[xbdi == 0] are linear maps (they are, on R^n), masking is idempotent; '
            'nothing else is assumed about vectors (pyvc/domains/lincomb.py)',
            'vector equality veq(u, v) is decided through a generic linear functional PHI; it is used only as a positive top-level conjunct',
            'dot products are bilinear and symmetric by construction, DOT(a, a) >= 0 and Cauchy-Schwarz per pair of atoms are assumed (true of every semi-inner product)',
            'sqrt(a) is a real s >= 0 with s*s == a for a >= 0; element reads v[i] are linear in v (ELEM(a, i) per atom) and otherwise unconstrained']
        b = self.builtins
        b['np.zeros'] = lambda eng, n, a, k, st: XB() if 'dtype' in k else LC()
        b['np.dot'] = self.b_dot
        b['sumsq'] = self.b_sumsq
        b['np.sum'] = self.b_sum
        b['sqrt'] = self.b_sqrt2
        b['np.sqrt'] = self.b_sqrt2
        b['float'] = lambda eng, n, a, k, st: to_real(a[0]) if a and isz(a[0]) and isnum(a[0]) else freal('float')
        self.mat = Mat()

    def init_state(self, st, fi, con):
        RadiiDomain.init_state(self, st, fi, con)
        st.assume(N_ >= 1)
        self.global_facts = DOMAIN_FACTS
        del DOMAIN_FACTS[:]
        CUR_DOM[:] = [self]
        SHRINK.clear()
        ANC.clear()

    def at_break(self, eng, loop, st, line, frame):
        """contract key 'break@<loop label>': clauses obliged at every break of that loop (the state that leaves the loop there)"""
        con = frame.contract
        if con is None or len(eng.frames) != 1:
            return
        ordinal = frame.loop_ord.get(id(loop), '?')
        key = 'break@%s' % ordinal
        if key in con.asserts:
            brks = sorted(own_breaks(loop), key=lambda n: n.lineno)
            k = [n.lineno for n in brks].index(line) + 1 if line in [n.lineno for n in brks] else 0
            for c in con.asserts[key]:
                v = eng.eval_clause(c, st, frame.old)
                eng.oblige(st, v, 'assert', c.label, c.tags, line, site='%s.break#%d' % (ordinal, k))

    def refine_branch(self, eng, st):
        """a mask token that is a merge  If(c, new, old)  is replaced by the branch the path condition decides (the boundary iteration leaves its loops right after every store into
        xbdi, so on the paths that go on the token is the old one); decided by a small propositional query, nothing is assumed"""
        for nm, v in list(st.env.items()):
            if isinstance(v, XB) and z3.is_app(v.tok) and z3.is_app_of(v.tok, z3.Z3_OP_ITE):
                tok = v.tok
                for _ in range(6):
                    if not z3.is_app_of(tok, z3.Z3_OP_ITE):
                        break
                    c, a, b = tok.arg(0), tok.arg(1), tok.arg(2)
                    sol = z3.Solver()
                    sol.set('timeout', 500)
                    sol.add(*st.pc)
                    sol.push(); sol.add(c); r1 = sol.check(); sol.pop()
                    if r1 == z3.unsat:
                        tok = b
                        continue
                    sol.push(); sol.add(z3.Not(c)); r2 = sol.check(); sol.pop()
                    if r2 == z3.unsat:
                        tok = a
                        continue
                    break
                if tok is not v.tok:
                    st.env[nm] = XB(tok, v.anc)

    def fact(self, st, f):
        """a definitional fact about fresh symbols / uninterpreted functions: true on every path, so it is a global hypothesis of the obligations rather than part of a path condition"""
        self.global_facts.append(f)

    def loop_havoc(self, eng, loop, h, entry, frame):
        """a mask array whose every assignment inside the loop is directly followed by `break` has, at every loop head, the value it had at loop entry"""
        for nm, v in entry.env.items():
            if isinstance(v, XB) and nm in assigned_names(loop.body) and assign_then_break(loop.body, nm):
                h.env[nm] = v
        if self.loop_defs and len(eng.frames) == 1:
            lab = frame.loop_ord.get(id(loop), '?')
            for nm, ex in self.loop_defs.get((frame.qual, lab), []):
                val = eng.eval_clause(Clause(ex), h, frame.old)
                if isinstance(val, LC):
                    h.env[nm] = val

    def fresh(self, shape, name, st=None):
        if shape == 'lc':
            return LC.fresh(name)
        if shape == 'mat':
            return self.mat
        if shape == 'xbdi':
            return XB()
        return RadiiDomain.fresh(self, shape, name, st)

    def default_param(self, fi, nm, st):
        return UNK

    REALS = ('angt angbd cth sth temp tempa tempb ssq stplen blen sdec redmax rednew redsav rdprev rdnext dredsq dredg gredsq sredg shs dhs dhd ds resid stepsq beta '
             'crvmin qred delsq ggsav gredsq0').split()
    INTS = 'iu isav xsav nact iterc itermax'.split()

    def name_shape(self, name):
        if name in self.REALS:
            return 'real'
        if name in self.INTS:
            return 'int'
        return {'iact': 'opt:int', 'need_alt_trust_step': 'bool', 'restart_alt_loop': 'bool', 'free_variable_reached_bound': 'bool'}.get(name)

    def on_assign_name(self, name, v, st):
        if is_unk(v):
            shp = self.name_shape(name)
            if shp in ('real', 'int', 'bool'):
                return self.fresh(shp, name, st)
        if isz(v) and isint(v) and name in self.REALS:
            return to_real(v)
        return v

    def b_sqrt2(self, eng, node, args, kw, st):
        a = args[0] if args else UNK
        s = freal('sqrt')
        if not self.scalar_facts:
            return s
        self.fact(st, s >= 0)
        if isz(a) and isnum(a):
            self.fact(st, z3.Implies(to_real(a) >= 0, s * s == to_real(a)))
        return s

    def shrink_facts(self, m, m2, i, v, st):
        """mask m2 = mask m with coordinate i fixed (when v != 0).  Trusted fact about sums over index sets (A-lib), instantiated for every masked dot product that is
           formed under m2 (dot_atoms): it is the one under m without the i-th term if i was free under m"""
        SHRINK[m2.sexpr()] = (m, i, v)

    def elem_facts(self, lc, i, st):
        """ELEM(RAT(m, a), i) == (ELEM(a, i) if FREE(m, i) else 0) for the masked atoms of lc"""
        for k, (a, c) in lc.terms.items():
            if z3.is_app(a) and a.decl().eq(RAT):
                self.fact(st, ELEM(a, i) == z3.If(FREE(a.arg(0), i), ELEM(a.arg(1), i), z3.RealVal(0)))

    # ------------------------------------------------------------------ dot products
    def dot_atoms(self, a, b, st):
        c = self.dot_atoms0(a, b, st)
        if not self.h_symmetric:
            return c
        # H symmetric: x.(H y) == (H x).y; masking symmetric: (R x).y == x.(R y).  All one-move equivalents are formed and the smallest (as text) is the canonical atom.
        cands = [c]
        isH = lambda t: z3.is_app(t) and t.decl().eq(HAT)
        isR = lambda t: z3.is_app(t) and t.decl().eq(RAT)
        m, a0, b0 = None, a, b
        if isR(a):
            m, a0 = a.arg(0), a.arg(1)
            s_ = strip(m, b)
            b0 = s_ if s_ is not None else b
        elif isR(b):
            m, b0 = b.arg(0), b.arg(1)
        if m is None:
            if isH(b):
                cands.append(self.dot_atoms0(HAT(a), b.arg(0), st))
            if isH(a):
                cands.append(self.dot_atoms0(a.arg(0), HAT(b), st))
        else:
            for x, y in ((a0, b0), (b0, a0)):          # the quantity is (R x).y == x.(R y)
                if isH(y):                              # (R x).(H y1) == (H R x).y1
                    cands.append(self.dot_atoms0(HAT(RAT(m, x)), y.arg(0), st))
        return min(cands, key=lambda t: t.sexpr())

    def dot_atoms0(self, a, b, st):
        m, a0, b0 = None, a, b
        if z3.is_app(a) and a.decl().eq(RAT):
            m, a0 = a.arg(0), a.arg(1)
            s_ = strip(m, b)
            b0 = s_ if s_ is not None else b
        elif z3.is_app(b) and b.decl().eq(RAT):
            m, b0 = b.arg(0), b.arg(1)
        if a0.sexpr() > b0.sexpr():
            a0, b0 = b0, a0
        f = (lambda x, y: DOTR(m, x, y)) if m is not None else DOTF
        d = f(a0, b0)
        if m is not None and m.sexpr() in SHRINK:
            m0, i, v = SHRINK[m.sexpr()]
            d0 = DOTR(m0, a0, b0)
            ex = d0 - z3.If(z3.And(v != 0, FREE(m0, i)), ELEM(a0, i) * ELEM(b0, i), z3.RealVal(0)) + z3.If(z3.And(v == 0, z3.Not(FREE(m0, i))), ELEM(a0, i) * ELEM(b0, i), z3.RealVal(0))
            self.fact(st, d == ex)
            if self.expand_shrink:
                # the same trusted fact used as a rewrite: the product under the shrunk mask is written out over the parent mask, so that a goal about it is a polynomial in the parent's
                # dot products (the solver no longer has to multiply the defining equation by a step length to use it)
                return ex
        return d

    def as_lc(self, v, st=None):
        if isinstance(v, LC):
            return v
        if isinstance(v, MV) and v.kind == 'free':
            return restrict(v.tok, v.lc, st)
        return None

    def dot(self, u, v, st):
        if not self.scalar_facts:
            return freal('dot')
        if isinstance(u, MV) and isinstance(v, MV) and not u.same(v):
            return freal('dot')
        a, b = self.as_lc(u, st), self.as_lc(v, st)
        if a is None or b is None:
            return freal('dot')
        s = z3.RealVal(0)
        for k1, (x, c1) in sorted(a.terms.items()):
            for k2, (y, c2) in sorted(b.terms.items()):
                s = s + c1 * c2 * self.dot_atoms(x, y, st)
        s = z3.simplify(s)
        if u is v or (isinstance(u, LC) and isinstance(v, LC) and u.terms.keys() == v.terms.keys() and all(z3.eq(u.terms[k][1], v.terms[k][1]) for k in u.terms)) \
                or (isinstance(u, MV) and u.same(v) and u.lc is v.lc):
            self.fact(st, s >= 0)
        return s

    def b_sumsq(self, eng, node, args, kw, st):
        if not args:
            return UNK
        v = args[0]
        if self.scalar_facts and self.abstract_at_sumsq and not eng.in_spec and isinstance(v, LC) and len(v.terms) > 1 and len(node.args) == 1 and isinstance(node.args[0], ast.Name):
            # abstraction: from here on the vector is ONE atom (its composition out of earlier vectors is forgotten); if every atom was masked by the same mask, so is the new one
            toks = [a.arg(0) if (z3.is_app(a) and a.decl().eq(RAT)) else None for a, c in v.terms.values()]
            new = z3.Const(fresh_name(node.args[0].id), AT)
            if toks[0] is not None and all(t is not None and z3.eq(t, toks[0]) for t in toks):
                new = RAT(toks[0], new)
            old_v, v = v, LC.atom(new)
            st.env[node.args[0].id] = v
            if self.transfer_dots:
                # the new atom IS the old vector: its dot products with the live vectors (and with itself) are those of the old composition
                self.fact(st, self.dot(v, v, st) == self.dot(old_v, old_v, st))
                for nm, w in sorted(st.env.items()):
                    if isinstance(w, LC) and nm != node.args[0].id and w.terms:
                        self.fact(st, self.dot(v, w, st) == self.dot(old_v, w, st))
                        if isinstance(st.env.get('xbdi'), XB):
                            mw = MV(w, st.env['xbdi'].tok, 'free')
                            self.fact(st, self.dot(MV(v, mw.tok, 'free'), mw, st) == self.dot(MV(old_v, mw.tok, 'free'), mw, st))
        return self.dot(v, v, st)

    def b_dot(self, eng, node, args, kw, st):
        if len(args) >= 2:
            return self.dot(args[0], args[1], st)
        return UNK

    def b_sum(self, eng, node, args, kw, st):
        if args and isinstance(args[0], Prod):
            return self.dot(args[0].a, args[0].b, st)
        return freal('sum')

    # ------------------------------------------------------------------ operators
    def binop(self, op, a, b, st, node=None):
        if isinstance(a, LC) and isinstance(b, LC):
            if op == '+':
                return a.add(b)
            if op == '-':
                return a.add(b, -1)
            return LC.fresh('v')
        if isinstance(a, MV) and isinstance(b, MV):
            if a.same(b):
                if op == '+':
                    return MV(a.lc.add(b.lc), a.tok, a.kind)
                if op == '-':
                    return MV(a.lc.add(b.lc, -1), a.tok, a.kind)
                if op == '*':
                    return Prod(a, b)
            return UNK
        for x, y, flip in ((a, b, False), (b, a, True)):
            if isinstance(y, (LC, MV)) and isz(x) and isnum(x) and (op == '*' or (op == '/' and flip)):
                t = to_real(x)
                if op == '/':
                    t = 1 / t
                lc = y.lc if isinstance(y, MV) else y
                r = lc.scale(t)
                return MV(r, y.tok, y.kind) if isinstance(y, MV) else r
        if isinstance(a, LC) or isinstance(b, LC):
            return LC.fresh('v')
        if isinstance(a, (MV, Prod)) or isinstance(b, (MV, Prod)):
            return UNK
        return RadiiDomain.binop(self, op, a, b, st, node)

    def augassign(self, op, cur, inc, st, node):
        return self.binop(op, cur, inc, st, node)

    def unop(self, op, v, st):
        if op == '-' and isinstance(v, LC):
            return v.scale(z3.RealVal(-1))
        if op == '-' and isinstance(v, MV):
            return MV(v.lc.scale(z3.RealVal(-1)), v.tok, v.kind)
        return RadiiDomain.unop(self, op, v, st)

    def compare(self, op, a, b, st, node=None):
        if isinstance(a, XB) and isz(b) and z3.is_int_value(z3.simplify(b)) and op in ('==', '!='):
            k = z3.simplify(b).as_long()
            if k == 0:
                return MaskSel(a.tok, 'free' if op == '==' else 'fixed')
            return MaskSel(a.tok, ('lo' if k < 0 else 'hi') if op == '==' else 'other')
        if isinstance(a, (LC, MV, XB)) or isinstance(b, (LC, MV, XB)):
            return UNK
        return RadiiDomain.compare(self, op, a, b, st, node)

    def call_method(self, eng, recv, meth, e, st):
        if isinstance(recv, LC) and meth in ('copy', 'astype', 'reshape'):
            eng.eval_args(e, st)
            return recv
        if isinstance(recv, Mat) and meth == 'dot':
            args, _ = eng.eval_args(e, st)
            return matvec(args[0]) if args and isinstance(args[0], LC) else LC.fresh('Hv')
        return RadiiDomain.call_method(self, eng, recv, meth, e, st)

    def load_attr(self, eng, base, attr, st, node):
        if isinstance(base, LC) and attr == 'size':
            return N_
        if isinstance(base, (LC, Mat, XB)):
            return UNK
        return RadiiDomain.load_attr(self, eng, base, attr, st, node)

    def lib_call(self, eng, e, name, args, kwargs, st):
        if name in self.builtins:
            return self.builtins[name](eng, e, args, kwargs, st)
        return UNK

    # ------------------------------------------------------------------ specification functions
    def spec_call(self, eng, name, e, st):
        if name == 'veq':
            a, b = eng.ev(e.args[0], st), eng.ev(e.args[1], st)
            if isinstance(a, LC) and isinstance(b, LC):
                return a.phi() == b.phi()
            return UNK
        if name == 'free':
            v, x = eng.ev(e.args[0], st), eng.ev(e.args[1], st)
            if isinstance(v, LC) and isinstance(x, XB):
                return restrict(x.tok, v, st)
            return UNK
        if name == 'DOT':
            a, b = eng.ev(e.args[0], st), eng.ev(e.args[1], st)
            return self.dot(a, b, st)
        if name == 'ndim':
            return N_
        if name == 'isclip':
            v = eng.ev(e.args[0], st)
            if isinstance(v, LC) and len(v.terms) == 1:
                (a, c), = v.terms.values()
                return z3.And(c == 1, ISCLIP(a))
            return z3.BoolVal(False) if isinstance(v, LC) else UNK
        return RadiiDomain.spec_call(self, eng, name, e, st)
