"""Domain B — exact IEEE-754 binary64, elementwise.

Every ndarray is represented by its component at ONE generic (fresh, implicit) index; scalars are themselves.  This is sound
and complete for elementwise code: a universally quantified elementwise postcondition `forall i. P(v[i])` holds iff it holds
at a generic index.  Reductions (np.min/np.max/np.any/np.all) are related to the generic component by their defining
inequalities.  + - / and comparisons, np.minimum/np.maximum (NaN-propagating) and the Python min/max builtins (by their actual
definition) are the IEEE operations, round-to-nearest-even.  Products of two non-constant values are abstracted by the only
fact the box proofs need (finite * finite is not NaN) so that the solvers do not have to bit-blast 53-bit multipliers.
"""
import ast, z3
from ..core import *
from ..domain import Domain, LIB_ROOTS, ParamsMixin

F = z3.Float64()
RM = z3.RNE()


def fpv(x):
    return z3.FPVal(x, F)


def isnan(v):
    return z3.fpIsNaN(v)


def finite(v):
    return z3.And(z3.Not(z3.fpIsNaN(v)), z3.Not(z3.fpIsInf(v)))


def npmax(a, b):
    return z3.If(z3.Or(isnan(a), isnan(b)), z3.fpNaN(F), z3.If(z3.fpGEQ(a, b), a, b))


def npmin(a, b):
    return z3.If(z3.Or(isnan(a), isnan(b)), z3.fpNaN(F), z3.If(z3.fpLEQ(a, b), a, b))


class BoxDomain(ParamsMixin, Domain):
    name = 'B'
    float_mode = 'fp64'
    portfolio = True        # binary64 obligations: z3 and cvc5 side by side (their strengths on FP differ widely)
    inline = {'ExitInformation.__init__', 'ExitInformation.message', 'ExitInformation.able_to_do_restart', 'Model.xopt', 'Model.ropt', 'Model.objopt',
              'Model.npt', 'Model.n', 'Model.m', 'Controller.n', 'Controller.m', 'Controller.npt', 'OptimResults.__init__'}

    def __init__(self, repo):
        Domain.__init__(self, repo)
        self.assumptions += [
            'A-fp: NumPy + - / comparisons minimum maximum abs on float64 are the IEEE-754 binary64 operations, round-to-nearest-even, no fused or '
            'extended intermediates (x86-64 SSE2/AVX elementwise loops)',
            'products of two non-constant values are abstracted: the only fact used is that the product of two finite values is not NaN',
            'quotients are abstracted by three IEEE-754 facts: t/t == 1 (finite non-zero t), 0/y is a zero (finite non-zero y), x/(finite non-zero) is not NaN unless x is',
            'A-nan: the floating-point arguments named in the contracts are not NaN (a NaN step defeats any clip); stated as precondition, not discharged',
            'arrays are represented by their component at one generic index (elementwise code only)']
        b = self.builtins
        b['np.minimum'] = lambda eng, n, a, k, st: self.fp2(npmin, a, st)
        b['np.maximum'] = lambda eng, n, a, k, st: self.fp2(npmax, a, st)
        b['np.abs'] = lambda eng, n, a, k, st: z3.fpAbs(a[0]) if isfp(a[0]) else UNK
        b['np.ones'] = lambda eng, n, a, k, st: fpv(1.0)
        b['np.zeros'] = lambda eng, n, a, k, st: fpv(0.0)
        b['np.any'] = self.b_any
        b['np.all'] = self.b_all
        b['np.min'] = lambda eng, n, a, k, st: self.b_reduce(a, st, True)
        b['np.max'] = lambda eng, n, a, k, st: self.b_reduce(a, st, False)
        b['np.shape'] = lambda eng, n, a, k, st: Shape()
        b['np.isnan'] = lambda eng, n, a, k, st: isnan(a[0]) if isfp(a[0]) else UNK
        b['np.allclose'] = lambda eng, n, a, k, st: fbool('allclose')
        b['float'] = self.b_float_b
        b['ParameterList.__call__'] = self.params_get
        b['ParameterList.check_all_params'] = self.params_check_all

    def init_state(self, st, fi, con):
        Domain.init_state(self, st, fi, con)
        self.params_init(st)

    def default_param(self, fi, nm, st):
        if nm == 'self' and fi.cls:
            return Ref('self', fi.cls)
        if nm == 'params':
            return Ref('params', 'ParameterList')
        if nm in ('objfun', 'nsamples', 'h', 'prox_uh'):
            return Callback(nm)
        return UNK

    def global_name(self, eng, name, st):
        if name == 'params':
            return Ref('params', 'ParameterList')
        return Domain.global_name(self, eng, name, st)

    def default_loop_invariant(self, eng, loop, st, frame):
        con = frame.contract
        if con is None or len(eng.frames) != 1 or not con.ledger_inv:
            return []
        w = set()
        for s_ in loop.body:
            w |= self.repo.direct_writes(s_)
            for n in ast.walk(s_):
                if isinstance(n, ast.Call):
                    w |= self.call_frame(eng, n)
        if not (w & {'xsave', 'delta', 'rho'}):
            return []
        return con.ledger_inv

    def b_float_b(self, eng, n, a, k, st):
        v = a[0] if a else UNK
        if isfp(v):
            return v
        if isint(v):
            return self.tofp(v, st)
        if isinstance(v, StrV) and z3.is_int_value(v.id):
            txt = INTERN_REV[v.id.as_long()].strip().lower()
            if txt in ('inf', '+inf', 'infinity'):
                return z3.fpPlusInfinity(F)
            if txt in ('-inf', '-infinity'):
                return z3.fpMinusInfinity(F)
            if txt == 'nan':
                return z3.fpNaN(F)
        return UNK

    # ------------------------------------------------------------------ values
    def tofp(self, v, st=None):
        if isfp(v):
            return v
        if isint(v):
            v = z3.simplify(v)
            if z3.is_int_value(v):
                return fpv(float(v.as_long()))
            return z3.fpToFP(RM, z3.ToReal(v), F)
        return None

    def fp2(self, f, a, st):
        if len(a) >= 2:
            x, y = self.tofp(a[0], st), self.tofp(a[1], st)
            if x is not None and y is not None:
                return f(x, y)
        return UNK

    def fresh(self, shape, name, st=None):
        if shape == 'fp':
            return z3.FP(fresh_name(name), F)
        return Domain.fresh(self, shape, name, st)

    def is_numeral(self, v):
        return isfp(v) and z3.is_fp_value(z3.simplify(v))

    def binop(self, op, a, b, st, node=None):
        if (isfp(a) or isfp(b)) and op in ('+', '-', '*', '/'):
            x, y = self.tofp(a, st), self.tofp(b, st)
            if x is None or y is None:
                return UNK
            if op == '+':
                return z3.fpAdd(RM, x, y)
            if op == '-':
                return z3.fpSub(RM, x, y)
            if op == '/':
                # division abstracted by the IEEE-754 facts the scaling proofs need (no 53-bit divider for the solvers):
                #   t / t == 1 for finite non-zero t ;  (+-0) / y is a zero for finite non-zero y ;  x / finite-non-zero is not NaN unless x is
                q = z3.FP(fresh_name('quot'), F)
                nz = lambda t: z3.And(finite(t), z3.Not(z3.fpIsZero(t)))
                st.assume(z3.Implies(z3.And(z3.fpEQ(x, y), nz(x)), z3.fpEQ(q, fpv(1.0))))
                st.assume(z3.Implies(z3.And(z3.fpIsZero(x), nz(y)), z3.fpIsZero(q)))
                st.assume(z3.Implies(z3.And(z3.Not(isnan(x)), nz(y)), z3.Not(isnan(q))))
                return q
            if self.is_numeral(x) and self.is_numeral(y):
                return z3.simplify(z3.fpMul(RM, x, y))
            for c, o in ((x, y), (y, x)):
                if self.is_numeral(c):
                    cv = z3.simplify(c)
                    if z3.eq(cv, fpv(1.0)):
                        return o
                    if z3.eq(cv, fpv(-1.0)):
                        return z3.fpNeg(o)
            m = z3.FP(fresh_name('prod'), F)
            st.assume(z3.Implies(z3.And(finite(x), finite(y)), z3.Not(isnan(m))))
            return m
        return Domain.binop(self, op, a, b, st, node)

    def unop(self, op, v, st):
        if isfp(v):
            return z3.fpNeg(v) if op == '-' else v
        return Domain.unop(self, op, v, st)

    def compare(self, op, a, b, st, node=None):
        if isinstance(a, Shape) or isinstance(b, Shape):
            return fbool('shape')
        if (isfp(a) or isfp(b)) and op in ('<', '<=', '>', '>=', '==', '!='):
            if isinstance(a, Opt):
                a = a.val
            if isinstance(b, Opt):
                b = b.val
            x, y = self.tofp(a, st), self.tofp(b, st)
            if x is None or y is None:
                return UNK
            return {'<': z3.fpLT, '<=': z3.fpLEQ, '>': z3.fpGT, '>=': z3.fpGEQ, '==': z3.fpEQ, '!=': z3.fpNEQ}[op](x, y)
        return Domain.compare(self, op, a, b, st, node)

    def _minmax(self, args, st, is_max):
        if len(args) == 2 and (isfp(args[0]) or isfp(args[1])):
            a, b = self.tofp(args[0], st), self.tofp(args[1], st)
            if a is None or b is None:
                return UNK
            # Python: max(a, b) = b if b > a else a ; min(a, b) = b if b < a else a   (not NaN-symmetric)
            return z3.If(z3.fpGT(b, a), b, a) if is_max else z3.If(z3.fpLT(b, a), b, a)
        return Domain._minmax(self, args, st, is_max)

    def b_abs(self, eng, node, args, kw, st):
        if isfp(args[0]):
            return z3.fpAbs(args[0])
        return Domain.b_abs(self, eng, node, args, kw, st)

    def b_any(self, eng, node, a, k, st):
        r = fbool('any')
        if a and isbool(a[0]):
            st.assume(z3.Implies(a[0], r))
        return r

    def b_all(self, eng, node, a, k, st):
        r = fbool('all')
        if a and isbool(a[0]):
            st.assume(z3.Implies(r, a[0]))
        return r

    def b_reduce(self, a, st, is_min):
        v = a[0] if a else UNK
        if not isfp(v):
            return UNK
        m = z3.FP(fresh_name('min' if is_min else 'max'), F)
        # the reduction over all components versus the component at the generic index (NumPy propagates NaN)
        st.assume(z3.Or(isnan(m), z3.And(z3.Not(isnan(v)), z3.fpLEQ(m, v) if is_min else z3.fpGEQ(m, v))))
        # uniformity: every hypothesis on the path is index-uniform (preconditions are elementwise, branch conditions are scalars), so if
        # "the generic component is not NaN" is entailed, no component is NaN and the reduction is not NaN either
        s = z3.Solver()
        s.set('timeout', 5000)
        s.add(*st.pc)
        s.add(isnan(v))
        if s.check() == z3.unsat:
            st.assume(z3.Not(isnan(m)))
        return m

    def truth(self, v, st):
        if isinstance(v, ProjListB):
            return v.nonempty
        return Domain.truth(self, v, st)

    # ------------------------------------------------------------------ subscripts (elementwise)
    def load_subscript(self, eng, e, st):
        base = eng.ev(e.value, st)
        if isinstance(base, Opt) and isinstance(base.val, tuple):
            base = base.val
        if isfp(base) and isinstance(e.slice, ast.Tuple) and len(e.slice.elts) == 2 and isinstance(e.slice.elts[0], ast.Slice) \
                and not isinstance(e.slice.elts[1], ast.Slice) and ('G', 'col') in st.heap:
            # a[:, i]: column i of a matrix whose generic element sits in the ghost column G.col
            i = eng.ev(e.slice.elts[1], st)
            if isint(i):
                return z3.If(i == st.heap[('G', 'col')], base, z3.FP(fresh_name('othercol'), F))
        if isfp(base) or isbool(base):
            if not isinstance(e.slice, (ast.Slice, ast.Tuple)):
                eng.ev(e.slice, st)
            return base         # a[k, :], a[idx], a[mask]: the component at the generic index
        if isinstance(base, ProjListB):
            return ProjB(base, eng.ev(e.slice, st))
        return Domain.load_subscript(self, eng, e, st)

    def store_subscript(self, eng, t, v, st):
        base = eng.ev(t.value, st)
        if isfp(base):
            idx = eng.ev(t.slice, st) if not isinstance(t.slice, (ast.Slice, ast.Tuple)) else None
            v2 = self.tofp(v, st)
            if v2 is None:
                v2 = z3.FP(fresh_name('hv'), F)
            colidx = None
            if isinstance(t.slice, ast.Tuple) and len(t.slice.elts) == 2 and isinstance(t.slice.elts[0], ast.Slice) and not isinstance(t.slice.elts[1], ast.Slice) \
                    and ('G', 'col') in st.heap:
                colidx = eng.ev(t.slice.elts[1], st)
            if colidx is not None and isint(colidx):
                nv = z3.If(colidx == st.heap[('G', 'col')], v2, base)     # a[:, i] = v : the generic element changes iff it is in column i
            elif isbool(idx):
                nv = z3.If(idx, v2, base)              # boolean-mask store
            elif isinstance(t.slice, ast.Tuple) or isinstance(t.slice, ast.Slice):
                rows = [x for x in (t.slice.elts if isinstance(t.slice, ast.Tuple) else [t.slice]) if not isinstance(x, ast.Slice)]
                for r in rows:
                    eng.ev(r, st)
                nv = z3.If(fbool('thisrow'), v2, base) if rows else v2     # a[i, :] = v : this row or another one
            else:
                nv = z3.If(fbool('thisidx'), v2, base)  # a[j] = v : the generic index may or may not be j
            eng.assign(t.value, nv, st)
            return
        return Domain.store_subscript(self, eng, t, v, st)

    def call_method(self, eng, recv, meth, e, st):
        r0 = recv.val if isinstance(recv, Opt) else recv
        if (isfp(r0) or isbool(r0)) and meth in ('copy', 'astype', 'reshape', 'flatten'):
            eng.eval_args(e, st)
            return r0
        if isinstance(r0, ProjListB) and meth == 'append':
            args, _ = eng.eval_args(e, st)
            nb = ProjListB(None, args[0] if args else None)
            st.assume(z3.And(PL_LEN(nb.tok) == PL_LEN(r0.tok) + 1, PL_LEN(r0.tok) >= 0))
            if isinstance(e.func.value, ast.Name):
                st.env[e.func.value.id] = nb
            return NONE
        return Domain.call_method(self, eng, recv, meth, e, st)

    def load_attr(self, eng, base, attr, st, node):
        if node is not None and dotted(node) == 'np.inf':
            return z3.fpPlusInfinity(F)
        if node is not None and dotted(node) == 'np.nan':
            return z3.fpNaN(F)
        if isfp(base) and attr == 'shape':
            return Shape()
        if isfp(base) and attr == 'T':
            return base         # transposition does not change the generic element
        return Domain.load_attr(self, eng, base, attr, st, node)

    def b_len(self, eng, node, args, kw, st):
        if args and isinstance(args[0], Opt) and isinstance(args[0].val, tuple):
            return z3.IntVal(len(args[0].val))
        if args and isinstance(args[0], ProjListB):
            st.assume(args[0].n >= 0)
            return args[0].n
        return Domain.b_len(self, eng, node, args, kw, st)

    def b_list(self, eng, n, a, k, st):
        if a and isinstance(a[0], ProjListB):
            return ProjListB(a[0].tok, a[0].last)
        return Domain.b_list(self, eng, n, a, k, st)

    def lib_call(self, eng, e, name, args, kwargs, st):
        if name in self.builtins:
            return self.builtins[name](eng, e, args, kwargs, st)
        return UNK

    def call_value(self, eng, fv, e, st, name):
        if isinstance(fv, ProjB):
            args, kwargs = eng.eval_args(e, st)
            return self.apply_projector(eng, fv, args, st, e)
        return Domain.call_value(self, eng, fv, e, st, name)

    def apply_projector(self, eng, pj, args, st, node):
        return UNK


class Shape:
    pass


PL = z3.DeclareSort('ProjList')
PL_LEN = z3.Function('PL_LEN', PL, z3.IntSort())
# LASTBOX(P, lo, hi): the last element of the projection list P maps every non-NaN input into [lo, hi]
LASTBOX = z3.Function('LASTBOX', PL, F, F, z3.BoolSort())


class ProjListB:
    """list of projection callables, identified by an opaque token; `last` is the closure of the last element when the list was
    built in the function under verification (solve appends the bound box), otherwise None (facts live in LASTBOX)"""

    def __init__(self, tok=None, last=None):
        self.tok = tok if tok is not None else z3.Const(fresh_name('P'), PL)
        self.last = last

    @property
    def n(self):
        return PL_LEN(self.tok)

    @property
    def nonempty(self):
        return PL_LEN(self.tok) > 0

    def cases(self):
        """[(condition, closure or None)]: which closure is the last element, per path"""
        if isinstance(self.last, list):
            return self.last
        return [(z3.BoolVal(True), self.last)]

    def merge(self, c, o):
        if self.last is o.last:
            last = self.last
        else:
            last = [(z3.And(c, k), f) for k, f in self.cases()] + [(z3.And(z3.Not(c), k), f) for k, f in o.cases()]
        return ProjListB(z3.If(c, self.tok, o.tok), last)

    def fresh_like(self, name, st):
        return self


class ProjB:
    def __init__(self, lst, idx):
        self.lst, self.idx = lst, idx
