"""Domain S — totality of OptimResults.__str__ ("printing works").  Every field of the result is either None or a value of a known kind (number, text, array, table);
the statements that can raise in such a method are: len(None), a numeric format (%g, %d, %.10g ...) applied to None, and the truth value of an array or a table
(`if self.diagnostic_info:` is ambiguous for a DataFrame).  Each of them generates a no-raise obligation on its path.  Text values and formatting results are opaque."""
import ast, re, z3
from ..core import *
from ..domain import Domain


class Val:
    """a non-None field value of a kind: 'num', 'text', 'array', 'table'"""

    def __init__(self, kind, name):
        self.kind, self.name = kind, name

    def merge(self, c, o):
        return self if isinstance(o, Val) and o.kind == self.kind else UNK

    def fresh_like(self, name, st):
        return self


class StrTotDomain(Domain):
    name = 'S'
    float_mode = 'real'
    smt_logic = None
    KINDS = {'x': 'array', 'resid': 'array', 'obj': 'num', 'jacobian': 'array', 'nf': 'num', 'nx': 'num', 'nruns': 'num', 'flag': 'int', 'msg': 'text',
             'diagnostic_info': 'table', 'xmin_eval_num': 'num', 'jacmin_eval_nums': 'array'}

    def __init__(self, repo):
        Domain.__init__(self, repo)
        self.assumptions += ['A-lib: str(v), "%s" % v and np.size(v) accept every value including None; len(None), a numeric format applied to None, and the truth value of an '
                             'array with more than one entry or of a pandas DataFrame raise; every other statement of __str__ is total']
        self.builtins['np.size'] = lambda eng, n, a, k, st: self._nonneg(st)
        self.builtins['str'] = lambda eng, n, a, k, st: StrV(fint('str'), fbool('str_ne'))
        self.builtins['len'] = self.b_len_s

    def _nonneg(self, st):
        r = fint('size')
        st.assume(r >= 0)
        return r

    def default_param(self, fi, nm, st):
        if nm == 'self' and fi.cls:
            return Ref('self', fi.cls)
        return UNK

    def fresh(self, shape, name, st=None):
        if isinstance(shape, str) and shape.startswith('field:'):
            f = shape[6:]
            kind = self.KINDS[f]
            if kind == 'int':
                return fint(name)
            return Opt(z3.Bool('isnone_' + f), Val(kind, f))
        return Domain.fresh(self, shape, name, st)

    def load_attr(self, eng, base, attr, st, node):
        if isinstance(base, Ref) and attr.startswith('EXIT_') and attr in self.repo.consts:
            return self.const(self.repo.consts[attr])      # the exit-code constants exposed on the result object (bound to the module constants: bundle inputs)
        return Domain.load_attr(self, eng, base, attr, st, node)

    def b_len_s(self, eng, node, args, kw, st):
        v = args[0] if args else UNK
        if isinstance(v, Opt) and isinstance(v.val, Val):
            eng.oblige(st, z3.Not(v.is_none), 'no-raise', 'len(self.%s) is not applied to None (TypeError)' % v.val.name, ['C20', 'C07'], node.lineno)
            return self._nonneg(st)
        if v is NONE:
            eng.oblige(st, z3.BoolVal(False), 'no-raise', 'len(None) (TypeError)', ['C20', 'C07'], node.lineno)
        return Domain.b_len(self, eng, node, args, kw, st)

    def truth(self, v, st):
        if isinstance(v, Opt) and isinstance(v.val, Val) and v.val.kind in ('array', 'table'):
            eng = getattr(self, 'eng', None)
            if eng is not None:
                eng.oblige(st, v.is_none, 'no-raise', 'the truth value of self.%s (an array / a table) is not taken: ambiguous unless it is None (ValueError)' % v.val.name,
                           ['C20', 'C07'], getattr(self, '_line', 0))
            return z3.And(z3.Not(v.is_none), fbool('truth'))
        return Domain.truth(self, v, st)

    def binop(self, op, a, b, st, node=None):
        if op == '%' and isinstance(a, StrV):
            eng = getattr(self, 'eng', None)
            if z3.is_int_value(a.id) and eng is not None:
                text = INTERN_REV[a.id.as_long()]
                specs = re.findall(r'%[-+ #0]*\d*(?:\.\d+)?([sdgefxr%])', text)
                specs = [s_ for s_ in specs if s_ != '%']
                vals = list(b) if isinstance(b, tuple) else [b]
                for sp, v in zip(specs, vals):
                    if sp != 's' and sp != 'r':
                        if isinstance(v, Opt) and isinstance(v.val, Val):
                            eng.oblige(st, z3.Not(v.is_none), 'no-raise', 'the numeric format %%%s is not applied to self.%s when it is None (TypeError)' % (sp, v.val.name),
                                       ['C20', 'C07'], node.lineno if node is not None else 0)
                        elif v is NONE:
                            eng.oblige(st, z3.BoolVal(False), 'no-raise', 'the numeric format %%%s is applied to None (TypeError)' % sp, ['C20', 'C07'], node.lineno if node is not None else 0)
            return StrV(fint('fmt'), z3.BoolVal(True))
        if isinstance(a, StrV) and isinstance(b, StrV) and op == '+':
            return StrV(fint('cat'), z3.BoolVal(True))
        return Domain.binop(self, op, a, b, st, node)

    def augassign(self, op, cur, inc, st, node):
        return self.binop(op, cur, inc, st, node)
