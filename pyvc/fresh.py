"""Snapshot freshness (A-alias is value semantics; this closes the hole it would otherwise leave):
fields that hold *snapshots* (saved point, saved Jacobian, evaluation-number snapshots) must be bound only to fresh arrays
(a .copy(), a new allocation, the result of an arithmetic expression or of a library call that allocates) and must never be
written in place.  Purely syntactic, whole package; one obligation per store site."""
import ast, z3
from .core import Ob

SNAPSHOTS = set()
VIEW_FUNCS = {'asarray', 'reshape', 'ravel', 'squeeze', 'transpose', 'atleast_1d', 'atleast_2d', 'asanyarray', 'ascontiguousarray'}
FRESH_METHODS = {'copy', 'astype', 'tolist', 'dot', 'mean', 'sum'}


def is_fresh(e, fnode, repo, cls, depth=0):
    if e is None or isinstance(e, ast.Constant):
        return True
    if isinstance(e, ast.IfExp):
        return is_fresh(e.body, fnode, repo, cls, depth) and is_fresh(e.orelse, fnode, repo, cls, depth)
    if isinstance(e, (ast.BinOp, ast.UnaryOp, ast.Compare, ast.BoolOp)):
        return True
    if isinstance(e, ast.Attribute) and isinstance(e.value, ast.Name) and e.value.id == 'self' and e.attr in SNAPSHOTS:
        return True     # an immutable snapshot (only ever re-bound, never written in place) may be shared
    if isinstance(e, ast.Call):
        f = e.func
        if isinstance(f, ast.Subscript):
            return True     # call of a caller-supplied projection P[i](..): A-callback (does not retain / return shared arrays)
        if isinstance(f, ast.Attribute):
            if f.attr in FRESH_METHODS:
                return True
            root = f
            while isinstance(root, ast.Attribute):
                root = root.value
            if isinstance(root, ast.Name) and root.id in ('np', 'LA', 'math'):
                return f.attr not in VIEW_FUNCS
            if isinstance(f.value, ast.Name) and f.value.id == 'self' and cls and f.attr in repo.classes.get(cls, {}) and depth < 3:
                callee = repo.classes[cls][f.attr].node
                rets = [r.value for r in ast.walk(callee) if isinstance(r, ast.Return)]
                return bool(rets) and all(is_fresh(r, callee, repo, cls, depth + 1) for r in rets)
            return False
        if isinstance(f, ast.Name):
            if f.id in ('float', 'int', 'len', 'sumsq', 'min', 'max', 'abs', 'str', 'bool'):
                return True
            if f.id in repo.funcs and depth < 3:
                callee = repo.funcs[f.id].node
                rets = [r.value for r in ast.walk(callee) if isinstance(r, ast.Return)]
                return bool(rets) and all(is_fresh(r, callee, repo, None, depth + 1) for r in rets)
        return False
    if isinstance(e, ast.Name):
        params = {a.arg for a in fnode.args.args + fnode.args.kwonlyargs}
        assigns = []
        for n in ast.walk(fnode):
            if isinstance(n, ast.Assign):
                for t in n.targets:
                    if isinstance(t, ast.Name) and t.id == e.id:
                        assigns.append(n.value)
                    elif isinstance(t, (ast.Tuple, ast.List)) and any(isinstance(x, ast.Name) and x.id == e.id for x in t.elts):
                        assigns.append(None if False else ast.Attribute(value=ast.Name(id='self', ctx=ast.Load()), attr='?', ctx=ast.Load()))
            elif isinstance(n, ast.AugAssign) and isinstance(n.target, ast.Name) and n.target.id == e.id:
                pass    # in-place update of a local keeps its freshness status
        if e.id in params and not assigns:
            return False
        if e.id in params:
            # parameter re-bound on some paths only: conservative
            return False
        return bool(assigns) and all(is_fresh(a, fnode, repo, cls, depth + 1) for a in assigns)
    if isinstance(e, ast.Tuple):
        return all(is_fresh(x, fnode, repo, cls, depth) for x in e.elts)
    return False        # attribute loads, subscripts (views), anything else


def obligations(repo, snapshot_fields, tags, classes=('Model',)):
    out = []
    SNAPSHOTS.clear()
    SNAPSHOTS.update(snapshot_fields)

    def mk(name, ok, func, line, why=''):
        out.append(Ob(name, 'fresh', func, tags, [], z3.BoolVal(bool(ok)), line, 'unsat', {'syntactic': True, 'why': why}))
    for qual, fi in repo.funcs.items():
        if fi.module in ('hessian',):
            continue
        counts = {}
        for n in ast.walk(fi.node):
            tgts, val = [], None
            if isinstance(n, ast.Assign):
                tgts, val = n.targets, n.value
            elif isinstance(n, ast.AugAssign):
                t = n.target
                base = t
                while isinstance(base, ast.Subscript):
                    base = base.value
                if isinstance(base, ast.Attribute) and base.attr in snapshot_fields:
                    counts[base.attr] = counts.get(base.attr, 0) + 1
                    mk('%s/fresh[no in-place write to snapshot .%s#%d]' % (qual, base.attr, counts[base.attr]), False, qual, n.lineno, 'augmented assignment')
                continue
            for t in tgts:
                for x in (t.elts if isinstance(t, (ast.Tuple, ast.List)) else [t]):
                    if isinstance(x, ast.Subscript):
                        base = x
                        while isinstance(base, ast.Subscript):
                            base = base.value
                        if isinstance(base, ast.Attribute) and base.attr in snapshot_fields:
                            counts[base.attr] = counts.get(base.attr, 0) + 1
                            mk('%s/fresh[no in-place write to snapshot .%s#%d]' % (qual, base.attr, counts[base.attr]), False, qual, n.lineno, 'element store')
                    elif isinstance(x, ast.Attribute) and x.attr in snapshot_fields and fi.cls in classes:
                        counts[x.attr] = counts.get(x.attr, 0) + 1
                        ok = is_fresh(val, fi.node, repo, fi.cls)
                        mk('%s/fresh[snapshot .%s is bound to a fresh array#%d]' % (qual, x.attr, counts[x.attr]), ok, qual, n.lineno,
                           ast.unparse(val)[:80])
    return out


def returns_fresh(repo, qual, positions, tags):
    """the listed positions of every returned tuple are fresh arrays (or immutable snapshots)"""
    fi = repo.func(qual)
    out = []
    if fi is None:
        return out
    k = 0
    for n in ast.walk(fi.node):
        if isinstance(n, ast.Return) and isinstance(n.value, ast.Tuple):
            k += 1
            for p in positions:
                if p < len(n.value.elts):
                    e = n.value.elts[p]
                    ok = is_fresh(e, fi.node, repo, fi.cls)
                    out.append(Ob('%s/fresh[return#%d element %d is a fresh array]' % (qual, k, p), 'fresh', qual, tags, [], z3.BoolVal(bool(ok)),
                                  n.lineno, 'unsat', {'syntactic': True, 'why': ast.unparse(e)[:80]}))
    return out
