"""Discharging obligations: z3 (Python API, per-process) with optional cvc5 / z3-4.8 binaries as portfolio or second opinion.
Obligations travel to worker processes as SMT-LIB2 text."""
import multiprocessing as mp, subprocess, tempfile, os, time, z3, re


def to_smt2(ob, f=None):
    s = z3.Solver()
    if f is not None:
        for c in (f if isinstance(f, list) else [f]):
            s.add(c)
    else:
        for h in ob.hyps:
            s.add(h)
        if ob.expect != 'sat':
            s.add(z3.Not(ob.goal))
    logic = getattr(ob, 'logic', 'ALL')
    return ('(set-logic %s)\n' % logic if logic else '') + s.to_smt2()


def _z3_worker(args):
    name, smt2, timeout_ms, want_model = args
    t0 = time.time()
    try:
        ctx = z3.Context()
        s = z3.Solver(ctx=ctx)
        s.set('timeout', timeout_ms)
        s.from_string(smt2)
        r = s.check()
        model = None
        if r == z3.sat and want_model:
            m = s.model()
            model = {str(d): str(m[d]) for d in m.decls() if d.arity() == 0}
        reason = s.reason_unknown() if r == z3.unknown else ''
        return name, str(r), time.time() - t0, 'z3-%s' % z3.get_version_string(), model, reason
    except Exception as ex:  # noqa
        return name, 'error', time.time() - t0, 'z3', None, repr(ex)


def run_binary(cmd, smt2, timeout_s):
    t0 = time.time()
    with tempfile.NamedTemporaryFile('w', suffix='.smt2', delete=False, dir=os.environ.get('TMPDIR', '/tmp')) as f:
        f.write(smt2)
        path = f.name
    try:
        p = subprocess.run(cmd + [path], capture_output=True, text=True, timeout=timeout_s)
        out = p.stdout.strip().split('\n')[0] if p.stdout.strip() else 'unknown'
        if out not in ('sat', 'unsat', 'unknown'):
            out = 'unknown'
        return out, time.time() - t0
    except subprocess.TimeoutExpired:
        return 'unknown', time.time() - t0
    finally:
        os.unlink(path)


def _cvc5_worker(args):
    name, smt2, timeout_ms, _ = args
    txt = smt2 if '(set-logic' in smt2 else '(set-logic ALL)\n' + smt2
    r, t = run_binary(['/usr/bin/cvc5', '--tlimit=%d' % timeout_ms], txt, timeout_ms / 1000 + 5)
    return name, r, t, 'cvc5-1.0.3', None, ''


def _z3old_worker(args):
    name, smt2, timeout_ms, _ = args
    r, t = run_binary(['/usr/bin/z3', '-T:%d' % max(1, timeout_ms // 1000)], smt2, timeout_ms / 1000 + 5)
    return name, r, t, 'z3-4.8.12', None, ''


_POOL = None


def pool(jobs=None):
    global _POOL
    if _POOL is None:
        _POOL = mp.get_context('fork').Pool(jobs or min(16, os.cpu_count() or 4))
    return _POOL


def discharge_portfolio(obls, timeout_ms=60000, jobs=None):
    """binary64 obligations: z3 and cvc5 run side by side on every obligation, the first definite answer wins;
    a disagreement between two definite answers is recorded (-> exit 3 in the driver)"""
    global _POOL
    import time as _t
    P = pool(jobs)
    pending = {}
    results = {}
    texts = {}
    for ob in obls:
        smt2 = to_smt2(ob)
        texts[ob.name] = smt2
        pending[ob.name] = [P.apply_async(_z3_worker, ((ob.name, smt2, timeout_ms, True),)),
                            P.apply_async(_cvc5_worker, ((ob.name, smt2, timeout_ms, False),))]
        results[ob.name] = []
    byname = {ob.name: ob for ob in obls}
    t0 = _t.time()
    while True:
        open_ = 0
        for name, tasks in pending.items():
            for t in list(tasks):
                if t.ready():
                    results[name].append(t.get())
                    tasks.remove(t)
            definite = [r for r in results[name] if r[1] in ('sat', 'unsat')]
            if not definite and tasks:
                open_ += 1
        if open_ == 0 or _t.time() - t0 > timeout_ms / 1000 + 30:
            break
        _t.sleep(0.05)
    leftovers = any(tasks for tasks in pending.values())
    for name, rs in results.items():
        definite = [r for r in rs if r[1] in ('sat', 'unsat')]
        ob = byname[name]
        if definite:
            r = min(definite, key=lambda r: r[2])
            ob.result = {'status': r[1], 'time': r[2], 'backend': r[3] + ' (portfolio z3 | cvc5)', 'model': None, 'reason': ''}
            zm = [x for x in definite if x[4] is not None]
            if zm:
                ob.result['model'] = zm[0][4]
            if len({x[1] for x in definite}) > 1:
                ob.result['disagreement'] = [(x[3], x[1]) for x in definite]
        else:
            ob.result = {'status': 'unknown', 'time': max([r[2] for r in rs] + [0.0]), 'backend': 'z3 | cvc5', 'model': None,
                         'reason': '; '.join('%s: %s %s' % (r[3], r[1], r[5]) for r in rs)}
    # a refuted obligation needs the z3 model (cvc5 gives none here): run z3 again only for those without one
    need = [ob for ob in obls if ob.result['status'] == 'sat' and ob.result['model'] is None]
    if leftovers:
        P.terminate()
        _POOL = None
        P = pool(jobs)
    for ob in need:
        r = P.apply_async(_z3_worker, ((ob.name, texts[ob.name], min(timeout_ms, 30000), True),)).get()
        if r[1] == 'sat':
            ob.result['model'] = r[4]
    return obls


def _consts(e, cache):
    """names of the uninterpreted constants of a term"""
    k = e.get_id()
    if k in cache:
        return cache[k]
    out, seen, todo = set(), set(), [e]
    while todo:
        x = todo.pop()
        i = x.get_id()
        if i in seen:
            continue
        seen.add(i)
        if z3.is_quantifier(x):
            todo.append(x.body())
        elif z3.is_app(x):
            if x.num_args() == 0 and x.decl().kind() == z3.Z3_OP_UNINTERPRETED:
                out.add(x.decl().name())
            todo.extend(x.children())
    cache[k] = out
    return out


def sliced_smt2(ob, prefixes):
    """The obligation with every hypothesis dropped that mentions a definitional symbol (name prefix in `prefixes`, e.g. the symbol of a square root) the goal does not mention.
    A goal that follows from a subset of the hypotheses follows from all of them, so `unsat` for this text is a proof of the obligation; `sat` means nothing and is discarded
    by the caller.  None when nothing would be dropped."""
    if ob.expect != 'unsat' or not prefixes:
        return None
    cache = {}
    gs = _consts(ob.goal, cache)
    keep = [h for h in ob.hyps if not any(n.startswith(tuple(prefixes)) and n not in gs for n in _consts(h, cache))]
    if len(keep) == len(ob.hyps):
        return None
    return to_smt2(ob, keep + [z3.Not(ob.goal)])


HERMETIC_SEEDS = (0, 1, 2, 3)
if os.environ.get('PYVC_SEED_SHIFT'):
    # robustness experiments only (tools/seed_shift.sh): another set of seeds, none of them z3's default
    HERMETIC_SEEDS = tuple(int(os.environ['PYVC_SEED_SHIFT']) * 10 + k for k in (1, 2, 3, 4))
Z3ONE = os.path.join(os.path.dirname(os.path.abspath(__file__)), 'z3one.py')


def discharge_hermetic(obls, timeout_ms=60000, jobs=None, grace_s=2.0):
    """nonlinear-real obligations: every solver run is a process of its own (z3 through pyvc/z3one.py, cvc5 as a binary), started and killed by this scheduler.
    Per obligation the configurations z3 (default seeds), cvc5, z3 seed 1, 2, 3 are queued in that order over all obligations; a configuration is only started while its obligation
    has no definite answer, so the extra seeds cost nothing on a query the first run decides.  The first definite answer wins (any `unsat` is a proof of the same query, any `sat` a
    counter-model candidate); runs of the same obligation that are still going get `grace_s` to finish (their answers are compared: two different definite answers are a
    disagreement -> soundness guard of the driver) and are then killed.  Nothing is left running when this returns."""
    import sys, json as _json, shutil
    J = jobs or min(16, os.cpu_count() or 4)
    tmp = tempfile.mkdtemp(prefix='pyvc_h_', dir=os.environ.get('TMPDIR', '/tmp'))
    byname = {ob.name: ob for ob in obls}
    files, sfiles, results, decided_at = {}, {}, {ob.name: [] for ob in obls}, {}
    queue, running, serial = [], [], [0]
    try:
        for i, ob in enumerate(obls):
            smt2 = to_smt2(ob)
            if '(set-logic' not in smt2:
                smt2 = '(set-logic ALL)\n' + smt2
            files[ob.name] = os.path.join(tmp, '%04d.smt2' % i)
            with open(files[ob.name], 'w') as f:
                f.write(smt2)
            sl = sliced_smt2(ob, getattr(ob, 'slice_prefixes', ()))
            if sl is not None:
                sfiles[ob.name] = os.path.join(tmp, '%04d_sliced.smt2' % i)
                with open(sfiles[ob.name], 'w') as f:
                    f.write(sl if '(set-logic' in sl else '(set-logic ALL)\n' + sl)
        # 'z3s' / 'cvc5s': the same solvers on the sliced text (only `unsat` counts)
        confs = [('z3', HERMETIC_SEEDS[0]), ('z3s', HERMETIC_SEEDS[0]), ('cvc5', 0), ('cvc5s', 0)] + [c for k in HERMETIC_SEEDS[1:] for c in (('z3', k), ('z3s', k))]
        for conf in confs:
            for ob in obls:
                if conf[0] in ('z3s', 'cvc5s') and ob.name not in sfiles:
                    continue
                queue.append((ob.name, conf))

        def start(name, conf):
            serial[0] += 1
            out = open(os.path.join(tmp, 'out_%05d' % serial[0]), 'w+')
            path = sfiles[name] if conf[0] in ('z3s', 'cvc5s') else files[name]
            if conf[0] in ('z3', 'z3s'):
                cmd = [sys.executable, Z3ONE, path, str(timeout_ms), str(conf[1]), '1']
            else:
                cmd = ['/usr/bin/cvc5', '--tlimit=%d' % timeout_ms, path]
            p = subprocess.Popen(cmd, stdout=out, stderr=subprocess.DEVNULL)
            running.append((name, conf, p, time.time(), out))

        def reap(name, conf, p, t0, out, killed=None):
            dt = time.time() - t0
            out.seek(0)
            txt = out.read().strip()
            out.close()
            if conf[0] in ('z3', 'z3s'):
                be = 'z3-%s%s' % (z3.get_version_string(), (' seed %d' % conf[1]) if conf[1] else '')
                try:
                    r = _json.loads(txt.split('\n')[-1])
                    res = (name, r['status'], r.get('time', dt), r.get('backend', be), r.get('model'), r.get('reason', ''))
                except Exception:  # noqa
                    res = (name, 'unknown', dt, be, None, killed or 'no answer (exit %s)' % p.returncode)
            else:
                first = txt.split('\n')[0] if txt else 'unknown'
                res = (name, first if first in ('sat', 'unsat') else 'unknown', dt, 'cvc5-1.0.3', None, killed or '')
            if conf[0] in ('z3s', 'cvc5s'):
                # sliced text: fewer hypotheses, so only a proof carries over to the obligation
                res = (name, 'unsat' if res[1] == 'unsat' else 'unknown', res[2], res[3] + ' on the sliced hypotheses', None,
                       res[5] if res[1] != 'sat' else 'sliced query satisfiable: says nothing about the obligation')
            results[name].append(res)
            if res[1] in ('sat', 'unsat') and name not in decided_at:
                decided_at[name] = time.time()

        while queue or running:
            now = time.time()
            for item in list(running):
                name, conf, p, t0, out = item
                if p.poll() is not None:
                    running.remove(item)
                    reap(*item)
                elif (name in decided_at and now - decided_at[name] > grace_s) or now - t0 > timeout_ms / 1000 + 10:
                    p.kill()
                    p.wait()
                    running.remove(item)
                    reap(*item, killed='stopped: another run decided the query' if name in decided_at else 'timeout (killed)')
            while queue and len(running) < J:
                name, conf = queue.pop(0)
                if name not in decided_at:
                    start(name, conf)
            time.sleep(0.02)
        for name, rs in results.items():
            ob = byname[name]
            definite = [r for r in rs if r[1] in ('sat', 'unsat')]
            how = ' (hermetic portfolio: z3 seeds %s | cvc5, full and sliced hypotheses, one process per run)' % ','.join(str(k) for k in HERMETIC_SEEDS)
            if definite:
                r = definite[0]
                ob.result = {'status': r[1], 'time': r[2], 'backend': r[3] + how, 'model': None, 'reason': '', 'runs': [(x[3], x[1], round(x[2], 2)) for x in rs]}
                zm = [x for x in definite if x[4] is not None and x[1] == r[1]]
                if zm:
                    ob.result['model'] = zm[0][4]
                if len({x[1] for x in definite}) > 1:
                    ob.result['disagreement'] = [(x[3], x[1]) for x in definite]
            else:
                ob.result = {'status': 'unknown', 'time': max([r[2] for r in rs] + [0.0]), 'backend': 'z3 | cvc5' + how, 'model': None,
                             'reason': '; '.join('%s: %s %s' % (r[3], r[1], r[5]) for r in rs), 'runs': [(x[3], x[1], round(x[2], 2)) for x in rs]}
        # a refuted obligation needs a z3 model (cvc5 gives none here)
        need = [ob for ob in obls if ob.result['status'] == 'sat' and ob.result['model'] is None and ob.expect == 'unsat']
        for ob in need:
            for k in HERMETIC_SEEDS[:2]:
                try:
                    p = subprocess.run([sys.executable, Z3ONE, files[ob.name], '30000', str(k), '1'], capture_output=True, text=True, timeout=45)
                    r = _json.loads(p.stdout.strip().split('\n')[-1])
                except Exception:  # noqa
                    continue
                if r.get('status') == 'sat' and r.get('model'):
                    ob.result['model'] = r['model']
                    break
    finally:
        for item in running:
            try:
                item[2].kill()
                item[2].wait()
            except Exception:  # noqa
                pass
        shutil.rmtree(tmp, ignore_errors=True)
    return obls


def discharge(obls, timeout_ms=60000, jobs=None, second=False, portfolio_kinds=('fp',)):
    # obligations of different bundles may share a name: work on unique internal keys
    names = [o.name for o in obls]
    if len(set(names)) != len(names):
        saved = {}
        for i, o in enumerate(obls):
            saved[i] = o.name
            o.name = '%d::%s' % (i, o.name)
        try:
            return discharge(obls, timeout_ms, jobs, second, portfolio_kinds)
        finally:
            for i, o in enumerate(obls):
                o.name = saved[i]
    hm = [o for o in obls if getattr(o, 'hermetic', False)]
    if hm:
        discharge_hermetic(hm, timeout_ms, jobs)
        obls_rest = [o for o in obls if not getattr(o, 'hermetic', False)]
        if obls_rest:
            discharge(obls_rest, timeout_ms, jobs, second, portfolio_kinds)
        return obls
    pf = [o for o in obls if getattr(o, 'portfolio', False)]
    if pf:
        discharge_portfolio(pf, timeout_ms, jobs)
        obls_rest = [o for o in obls if not getattr(o, 'portfolio', False)]
        if obls_rest:
            discharge(obls_rest, timeout_ms, jobs, second)
        return obls
    """fills ob.result = {'status', 'time', 'backend', 'model', 'reason', 'second'}"""
    from . import quant
    work = []
    texts = {}
    qf_work = []
    for ob in obls:
        f = ob.formula()
        # trivial cases without a solver call
        fs = z3.simplify(f)
        if z3.is_false(fs):
            ob.result = {'status': 'unsat', 'time': 0.0, 'backend': 'z3-simplify', 'model': None, 'reason': ''}
            continue
        smt2 = to_smt2(ob)
        texts[ob.name] = smt2
        q = quant.qf_version(ob.hyps, ob.goal)
        if q is not None and ob.expect == 'unsat':
            hs, g = q
            qf_work.append((ob.name, to_smt2(ob, hs + [z3.Not(g)]), timeout_ms, True))
        elif q is not None:
            # cover (vacuity guard) with quantified hypotheses: checked on the instantiated hypotheses
            ob.meta['cover_on_instantiated_hypotheses'] = True
            work.append((ob.name, to_smt2(ob, q[0]), timeout_ms, True))
        else:
            work.append((ob.name, smt2, timeout_ms, True))
    byname = {ob.name: ob for ob in obls}
    P = pool(jobs) if (work or qf_work) else None
    if qf_work:
        # quantified obligations: instantiated (quantifier-free) query first; unsat there is a proof
        for name, r, t, be, model, reason in P.imap_unordered(_z3_worker, qf_work, chunksize=1):
            if r == 'unsat':
                byname[name].result = {'status': 'unsat', 'time': t, 'backend': be + ' (hypotheses instantiated at ground index terms)', 'model': None, 'reason': ''}
            else:
                byname[name].result = {'status': 'pending', 'time': t, 'qf': {'status': r, 'model': model}}
                # the instantiated query has a counter-model (or is open): the full quantified query gets a short budget
                work.append((name, texts[name], min(timeout_ms, 20000) if r == 'sat' else timeout_ms, True))
    if work:
        for name, r, t, be, model, reason in P.imap_unordered(_z3_worker, work, chunksize=1):
            prev = byname[name].result or {}
            qf = prev.get('qf')
            t += prev.get('time', 0.0)
            if qf and r not in ('sat', 'unsat') and qf['status'] == 'sat':
                # full quantified query undecided, instantiated query has a counter-model: report it as a candidate refutation
                byname[name].result = {'status': 'sat', 'time': t, 'backend': be + ' (counter-model of the instantiated query; full query %s)' % r,
                                       'model': qf['model'], 'reason': reason, 'candidate': True}
            else:
                byname[name].result = {'status': r, 'time': t, 'backend': be, 'model': model if model else (qf or {}).get('model'), 'reason': reason}
        # portfolio for anything z3 left open
        open_ = [(n, texts[n], timeout_ms, False) for n in texts if byname[n].result['status'] in ('unknown', 'error')]
        if open_:
            for name, r, t, be, model, reason in P.imap_unordered(_cvc5_worker, open_, chunksize=1):
                if r in ('sat', 'unsat'):
                    byname[name].result.update({'status': r, 'time': byname[name].result['time'] + t, 'backend': be})
    if second and P is not None:
        # second opinion (cvc5) on every quantifier-free query, also when z3 decided all of them on the instantiated form
        qf = [(n, texts[n], timeout_ms, False) for n in texts if 'forall' not in texts[n] and 'lambda' not in texts[n] and byname[n].result]
        for name, r, t, be, model, reason in P.imap_unordered(_cvc5_worker, qf, chunksize=1):
            byname[name].result['second'] = {'status': r, 'time': t, 'backend': be}
    return obls
