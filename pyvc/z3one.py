"""One z3 query in a process of its own:  python3-vt pyvc/z3one.py <file.smt2> <timeout_ms> <seed> <want_model 0|1>   -> one JSON line on stdout.

Used for the nonlinear-real bundles (pyvc.solve.discharge_hermetic).  z3's search on these queries depends on the state of the process it runs in (a pool worker that has already
solved other queries, or was forked from a parent full of terms, took between 0.4 s and `unknown` after 150 s on the same SMT text); in a fresh process the answer is a function of the
text and the seed only.  seed 0 = z3's defaults; seed k > 0 sets the random seeds of the SMT core, the SAT core and nlsat."""
import sys, json, time


def main(argv):
    path, timeout_ms, seed, want_model = argv[0], int(argv[1]), int(argv[2]), argv[3] == '1'
    import z3
    t0 = time.time()
    out = {'backend': 'z3-%s%s' % (z3.get_version_string(), (' seed %d' % seed) if seed else ''), 'model': None, 'reason': ''}
    try:
        if seed:
            z3.set_param('smt.random_seed', seed)
            z3.set_param('sat.random_seed', seed)
            z3.set_param('nlsat.seed', seed)
        ctx = z3.Context()
        s = z3.Solver(ctx=ctx)
        s.set('timeout', timeout_ms)
        s.from_string(open(path).read())
        r = s.check()
        out['status'] = str(r)
        if r == z3.sat and want_model:
            m = s.model()
            out['model'] = {str(d): str(m[d]) for d in m.decls() if d.arity() == 0}
        if r == z3.unknown:
            out['reason'] = s.reason_unknown()
    except Exception as ex:  # noqa
        out['status'] = 'error'
        out['reason'] = repr(ex)
    out['time'] = time.time() - t0
    print(json.dumps(out))


if __name__ == '__main__':
    main(sys.argv[1:])
