"""Quantifier handling for array-indexed invariants.

Proving side: a goal `forall j. P(j)` is skolemised (fresh constant), universally quantified *hypotheses* are replaced by their
instances at every ground index term of the obligation.  Instances are consequences of the hypothesis, so `unsat` of the
instantiated (quantifier-free) query is a proof.  A `sat` answer of the instantiated query is only a candidate: the full
quantified query (and, where available, native replay) decides."""
import z3
from .core import fresh_name


def skolemize_goal(g):
    if z3.is_quantifier(g) and g.is_forall():
        vs = [z3.Const(fresh_name('sk_' + g.var_name(i)), g.var_sort(i)) for i in range(g.num_vars())]
        body = z3.substitute_vars(g.body(), *reversed(vs))
        return skolemize_goal(body)
    if z3.is_and(g):
        return z3.And(*[skolemize_goal(c) for c in g.children()])
    if z3.is_or(g):
        return z3.Or(*[skolemize_goal(c) for c in g.children()])
    if z3.is_implies(g):
        return z3.Implies(g.arg(0), skolemize_goal(g.arg(1)))
    return g


def has_quant(t, _seen=None):
    seen = _seen if _seen is not None else set()
    stack = [t]
    while stack:
        x = stack.pop()
        if x.get_id() in seen:
            continue
        seen.add(x.get_id())
        if z3.is_quantifier(x):
            return True
        stack.extend(x.children())
    return False


def ground_int_terms(ts):
    """Int-sorted ground terms used as array indices or compared with them"""
    out = {}
    seen = set()
    stack = list(ts)
    while stack:
        x = stack.pop()
        if x.get_id() in seen:
            continue
        seen.add(x.get_id())
        if z3.is_quantifier(x):
            continue            # terms under binders may contain bound variables
        if z3.is_app(x):
            k = x.decl().kind()
            if k in (z3.Z3_OP_SELECT, z3.Z3_OP_STORE):
                idx = x.arg(1)
                if z3.is_int(idx):
                    out[idx.get_id()] = idx
            elif k == z3.Z3_OP_UNINTERPRETED and x.num_args() > 0:
                for a in x.children():
                    if z3.is_int(a) and not z3.is_int_value(a):
                        out[a.get_id()] = a
            stack.extend(x.children())
    return list(out.values())


def ground_terms_of_sort(ts, sort, cap=60):
    out = {}
    seen = set()
    stack = list(ts)
    while stack and len(out) < cap:
        x = stack.pop()
        if x.get_id() in seen:
            continue
        seen.add(x.get_id())
        if z3.is_quantifier(x):
            continue
        if z3.is_app(x):
            if x.sort() == sort and not z3.is_var(x):
                out[x.get_id()] = x
            stack.extend(x.children())
    return list(out.values())


_OTHER = {}


def instantiate(h, terms):
    if z3.is_quantifier(h) and h.is_forall() and h.num_vars() == 1 and h.var_sort(0) == z3.IntSort():
        insts = [instantiate(z3.substitute_vars(h.body(), t), terms) for t in terms]
        return z3.And(*insts) if insts else z3.BoolVal(True)
    if z3.is_quantifier(h) and h.is_forall() and h.num_vars() == 1 and h.var_sort(0).kind() == z3.Z3_UNINTERPRETED_SORT:
        ts = _OTHER.get(str(h.var_sort(0)), [])
        insts = [z3.substitute_vars(h.body(), t) for t in ts]
        return z3.And(*insts) if insts else z3.BoolVal(True)
    if z3.is_quantifier(h) and h.is_forall() and h.num_vars() > 1:
        # axioms over several variables (vector-space identities, projector contracts): all combinations of the ground terms of each sort, capped
        import itertools
        cands = []
        for i in range(h.num_vars()):
            srt = h.var_sort(i)
            if srt == z3.IntSort():
                cands.append(terms[:12])
            else:
                cands.append(_OTHER.get(str(srt), [])[:9])
        size = 1
        for c in cands:
            size *= max(len(c), 1)
        if all(cands) and size <= 1500:
            insts = []
            for combo in itertools.product(*cands):
                # de Bruijn order: variable 0 is the innermost (last declared)
                insts.append(z3.substitute_vars(h.body(), *reversed(combo)))
            return z3.And(*insts)
        return z3.BoolVal(True)
    if z3.is_and(h):
        return z3.And(*[instantiate(c, terms) for c in h.children()])
    if z3.is_implies(h):
        return z3.Implies(h.arg(0), instantiate(h.arg(1), terms))
    if z3.is_or(h) and not any(has_quant(c) for c in h.children()):
        return h
    if z3.is_or(h):
        return z3.Or(*[instantiate(c, terms) for c in h.children()])
    if z3.is_app(h) and h.decl().kind() == z3.Z3_OP_ITE and z3.is_bool(h):
        return z3.If(h.arg(0), instantiate(h.arg(1), terms), instantiate(h.arg(2), terms))
    if has_quant(h):
        return z3.BoolVal(True)     # a quantifier in a position we do not instantiate: drop the hypothesis (weaker, sound for proving)
    return h


def _quants(t):
    out, seen, stack = [], set(), [t]
    while stack:
        x = stack.pop()
        if x.get_id() in seen:
            continue
        seen.add(x.get_id())
        if z3.is_quantifier(x):
            out.append(x)
            stack.append(x.body())
        else:
            stack.extend(x.children())
    return out


def qf_version(hyps, goal):
    """returns (hyps', goal') quantifier-free where possible, or None if the obligation has no quantifier"""
    if not has_quant(goal) and not any(has_quant(h) for h in hyps):
        return None
    g = skolemize_goal(goal)
    terms = ground_int_terms(list(hyps) + [g])
    # first pass: Int-indexed invariants; its result supplies the ground terms of the other sorts (array reads at those indices)
    _OTHER.clear()
    hs0 = [instantiate(h, terms) for h in hyps]
    sorts = {}
    for h in hyps:
        for q in _quants(h):
            for i in range(q.num_vars()):
                srt = q.var_sort(i)
                if srt != z3.IntSort():
                    sorts[str(srt)] = srt
    for nm, srt in sorts.items():
        _OTHER[nm] = ground_terms_of_sort(hs0 + [g], srt)
    hs = [instantiate(h, terms) for h in hyps]
    # the negated goal may still contain existential positions (forall under negation in hypotheses etc.): leave to the solver
    return hs, g
