"""pyvc core: state-merging symbolic executor over the real Python AST, contracts, obligations.

One executor, several domains (pyvc/domains/*).  A domain decides how floats / vectors / library calls are
represented and what is abstracted to havoc.  Everything the domain does not track evaluates to UNK (havoc):
an over-approximation of the concrete semantics on the tracked state, so a proof under havoc is a proof.
"""
import ast, itertools, z3

_fresh = itertools.count()


def fresh_name(p):
    return '%s!%d' % (p, next(_fresh))


def fbool(p='b'):
    return z3.Bool(fresh_name(p))


def fint(p='i'):
    return z3.Int(fresh_name(p))


def freal(p='r'):
    return z3.Real(fresh_name(p))


# ------------------------------------------------------------------------------------------ values
class Unk:
    """havoc: a value the domain does not track"""
    __slots__ = ('why',)

    def __init__(self, why=''):
        self.why = why

    def __repr__(self):
        return '?' + (('(' + self.why + ')') if self.why else '')


UNK = Unk()


class NoneV:
    def __repr__(self):
        return 'None'


NONE = NoneV()


class Opt:
    """optional value: None when is_none holds, else val"""
    __slots__ = ('is_none', 'val')

    def __init__(self, is_none, val):
        self.is_none, self.val = is_none, val

    def __repr__(self):
        return 'Opt(%s,%r)' % (self.is_none, self.val)


class Rec:
    """immutable record (small value objects such as ExitInformation)"""
    __slots__ = ('cls', 'fields')

    def __init__(self, cls, fields):
        self.cls, self.fields = cls, dict(fields)

    def __repr__(self):
        return 'Rec<%s>%r' % (self.cls, self.fields)


class Ref:
    """reference to a mutable heap object; its fields live in State.heap[(oid, field)]"""
    __slots__ = ('oid', 'cls')

    def __init__(self, oid, cls):
        self.oid, self.cls = oid, cls

    def __repr__(self):
        return '<%s %s>' % (self.cls, self.oid)

    def __eq__(self, o):
        return isinstance(o, Ref) and o.oid == self.oid

    def __hash__(self):
        return hash(self.oid)


class StrV:
    """string: z3 Int id into the intern table (concrete literal) or a fresh id (unknown text); `nonempty` Bool"""
    __slots__ = ('id', 'nonempty')

    def __init__(self, id_, nonempty=None):
        self.id = id_
        self.nonempty = nonempty if nonempty is not None else z3.BoolVal(True)

    def __repr__(self):
        return 'Str(%s)' % self.id


class Fn:
    """closure: lambda / nested def / reference to a package function"""
    __slots__ = ('node', 'env', 'name', 'qual')

    def __init__(self, node, env, name, qual=None):
        self.node, self.env, self.name, self.qual = node, env, name, qual

    def __repr__(self):
        return 'Fn(%s)' % self.name


class Callback:
    """opaque caller-supplied callable (objfun, h, prox_uh, nsamples, a projection)"""
    __slots__ = ('name',)

    def __init__(self, name):
        self.name = name

    def __repr__(self):
        return 'Callback(%s)' % self.name


class ListV:
    """Python list of statically known length"""
    __slots__ = ('items',)

    def __init__(self, items):
        self.items = list(items)

    def __repr__(self):
        return 'List%r' % (self.items,)


INTERN = {}       # literal string -> id
INTERN_REV = {}


def intern(s):
    if s not in INTERN:
        INTERN[s] = len(INTERN) + 1
        INTERN_REV[INTERN[s]] = s
    return INTERN[s]


def mkstr(s):
    return StrV(z3.IntVal(intern(s)), z3.BoolVal(len(s) > 0))


def isz(v):
    return isinstance(v, z3.ExprRef)


def isbool(v):
    return isz(v) and z3.is_bool(v)


def isint(v):
    return isz(v) and z3.is_int(v)


def isreal(v):
    return isz(v) and z3.is_real(v)


def isfp(v):
    return isz(v) and z3.is_fp(v)


def isnum(v):
    return isint(v) or isreal(v)


def is_unk(v):
    return isinstance(v, Unk)


def to_real(v):
    return z3.ToReal(v) if isint(v) else v


# ------------------------------------------------------------------------------------------ state
class State:
    __slots__ = ('env', 'heap', 'pc', 'notes')

    def __init__(self):
        self.env, self.heap, self.pc, self.notes = {}, {}, [], []

    def copy(self):
        s = State()
        s.env, s.heap, s.pc, s.notes = dict(self.env), dict(self.heap), list(self.pc), list(self.notes)
        return s

    def assume(self, c):
        if isbool(c) and not z3.is_true(c):
            self.pc.append(c)

    def pcond(self):
        return z3.And(*self.pc) if self.pc else z3.BoolVal(True)


def merge_val(c, a, b):
    """value equal to a when c holds, b otherwise"""
    if a is b:
        return a
    # untracked on one side only: keep the tracked side precise, havoc (fresh symbol of the same sort) on the other
    if is_unk(a) and isz(b):
        return z3.If(c, z3.Const(fresh_name('hv'), b.sort()), b)
    if is_unk(b) and isz(a):
        return z3.If(c, a, z3.Const(fresh_name('hv'), a.sort()))
    # the same for structured domain values that know how to havoc their other side (keep(c): equal to the value when c holds, fresh otherwise)
    if is_unk(a) and hasattr(b, 'keep_when'):
        return b.keep_when(z3.Not(c))
    if is_unk(b) and hasattr(a, 'keep_when'):
        return a.keep_when(c)
    if isz(a) and isz(b):
        if a.sort() == b.sort():
            return a if z3.eq(a, b) else z3.If(c, a, b)
        if isnum(a) and isnum(b):
            return z3.If(c, to_real(a), to_real(b))
        return UNK
    if a is NONE and b is NONE:
        return NONE
    if isinstance(a, (NoneV, Opt)) or isinstance(b, (NoneV, Opt)):
        if is_unk(a) or is_unk(b):
            return UNK

        def asopt(v):
            if isinstance(v, Opt):
                return v
            if v is NONE:
                return Opt(z3.BoolVal(True), None)
            return Opt(z3.BoolVal(False), v)
        oa, ob = asopt(a), asopt(b)
        if oa.val is None:
            val = ob.val
        elif ob.val is None:
            val = oa.val
        else:
            val = merge_val(c, oa.val, ob.val)
        if val is None:
            return NONE
        return Opt(z3.simplify(z3.If(c, oa.is_none, ob.is_none)), val)
    if isinstance(a, Rec) and isinstance(b, Rec) and a.cls == b.cls:
        return Rec(a.cls, {k: merge_val(c, a.fields.get(k, UNK), b.fields.get(k, UNK)) for k in set(a.fields) | set(b.fields)})
    if isinstance(a, tuple) and isinstance(b, tuple) and len(a) == len(b):
        return tuple(merge_val(c, x, y) for x, y in zip(a, b))
    if isinstance(a, ListV) and isinstance(b, ListV) and len(a.items) == len(b.items):
        return ListV([merge_val(c, x, y) for x, y in zip(a.items, b.items)])
    if isinstance(a, StrV) and isinstance(b, StrV):
        return StrV(z3.If(c, a.id, b.id), z3.If(c, a.nonempty, b.nonempty))
    if isinstance(a, Ref) and isinstance(b, Ref) and a == b:
        return a
    if isinstance(a, (Fn, Callback)) and a is b:
        return a
    if hasattr(a, 'merge') and type(a) is type(b):
        return a.merge(c, b)
    return UNK


def merge_states(states):
    states = [s for s in states if s is not None]
    if not states:
        return None
    out = states[0]
    for s in states[1:]:
        # common pc prefix
        k = 0
        while k < len(out.pc) and k < len(s.pc) and out.pc[k] is s.pc[k]:
            k += 1
        r1, r2 = out.pc[k:], s.pc[k:]
        c1 = z3.And(*r1) if r1 else z3.BoolVal(True)
        c2 = z3.And(*r2) if r2 else z3.BoolVal(True)
        m = State()
        m.pc = out.pc[:k] + [z3.Or(c1, c2)]
        m.notes = out.notes if len(out.notes) >= len(s.notes) else s.notes
        for key in set(out.env) | set(s.env):
            m.env[key] = merge_val(c1, out.env.get(key, UNK), s.env.get(key, UNK))
        for key in set(out.heap) | set(s.heap):
            m.heap[key] = merge_val(c1, out.heap.get(key, UNK), s.heap.get(key, UNK))
        out = m
    return out


# ------------------------------------------------------------------------------------------ obligations
class Ob:
    def __init__(self, name, kind, func, tags, hyps, goal, line=0, expect='unsat', meta=None):
        self.name, self.kind, self.func, self.tags = name, kind, func, list(tags)
        self.hyps, self.goal, self.line, self.expect = hyps, goal, line, expect
        self.meta = meta or {}
        self.result = None   # filled by the discharger

    def formula(self):
        """satisfiable iff the obligation is refuted (for expect == 'unsat')"""
        if self.expect == 'sat':
            return z3.And(*self.hyps) if self.hyps else z3.BoolVal(True)
        return z3.And(*(self.hyps + [z3.Not(self.goal)]))


class Ctl:
    def __init__(self):
        self.brk, self.cont, self.ret, self.exc = [], [], [], []


class Clause:
    """one contract clause: 'label: expr' with property tags"""

    def __init__(self, text, tags=()):
        if isinstance(text, tuple):
            text, tags = text[0], text[1:]
            if len(tags) == 1 and isinstance(tags[0], (list, tuple)):
                tags = tags[0]
        lab, _, ex = text.partition('::')
        if not _:
            lab, ex = None, text
        self.label = (lab or ex).strip()
        self.src = ex.strip()
        self.node = ast.parse(self.src, mode='eval').body
        self.tags = list(tags)


def clauses(lst, default_tags=()):
    out = []
    for x in lst or []:
        c = x if isinstance(x, Clause) else Clause(x)
        if not c.tags:
            c.tags = list(default_tags)
        out.append(c)
    return out


class Contract:
    """sidecar contract of one real function in one domain"""

    def __init__(self, qual, requires=(), ensures=(), modifies=(), result=None, loops=None, asserts=None,
                 types=None, tags=(), params=None, self_cls=None, setup=None, inline_calls=(), pure=False,
                 exc_ensures=None, havoc_locals=None, notes='', ghost_return=(), ghost_before=None, ledger_inv=(),
                 msg_asserts=None, assumed=False, dead=(), ghost_after_assign=None, ghost_return_at=None, dead_under=(), final_params=()):
        self.qual = qual
        self.tags = list(tags)
        self.requires = clauses(requires, tags)
        self.ensures = clauses(ensures, tags)
        self.modifies = list(modifies)       # ['self.nf', 'G.calls', 'self.model.*' ...] paths from parameters / ghost roots
        self.result = result                 # shape spec
        self.loops = {k: clauses(v, tags) for k, v in (loops or {}).items()}
        self.asserts = {k: clauses(v, tags) for k, v in (asserts or {}).items()}   # site label -> clauses
        self.types = dict(types or {})       # local/param name -> shape spec
        self.params = dict(params or {})     # parameter name -> shape spec
        self.setup = setup
        self.pure = pure
        self.notes = notes
        self.ghost_return = list(ghost_return)          # [(path, expr)] ghost assignments performed at every return
        self.ghost_before = dict(ghost_before or {})    # 'Callee#k' -> [(path, expr)] ghost assignments before that call
        self.ledger_inv = clauses(ledger_inv, tags)     # default invariant of loops that touch the ledger
        self.msg_asserts = {k: clauses(v, tags) for k, v in (msg_asserts or {}).items()}  # message literal -> clauses
        self.ghost_after_assign = dict(ghost_after_assign or {})   # local name -> [(path, expr)] ghost assignments after any assignment to it
        self.ghost_return_at = dict(ghost_return_at or {})         # 'return#k' -> [(path, expr)]
        self.dead = set(dead)                           # labels of paths expected to be infeasible under the precondition
        self.final_params = tuple(final_params)         # parameters whose FINAL value the postconditions mean (defaulted-then-rebound parameters such as maxfun)
        self.dead_under = tuple(dead_under)             # ... or: returns lexically inside an `if` whose test mentions one of these snippets (robust to inserted returns)
        self.assumed = assumed                          # contract is assumed (not verified against the body)


class Unsupported(Exception):
    pass


# ------------------------------------------------------------------------------------------ engine
BINOPS = {ast.Add: '+', ast.Sub: '-', ast.Mult: '*', ast.Div: '/', ast.FloorDiv: '//', ast.Mod: '%', ast.Pow: '**', ast.MatMult: '@',
          ast.BitAnd: '&', ast.BitOr: '|'}
CMPOPS = {ast.Eq: '==', ast.NotEq: '!=', ast.Lt: '<', ast.LtE: '<=', ast.Gt: '>', ast.GtE: '>=', ast.Is: 'is', ast.IsNot: 'isnot',
          ast.In: 'in', ast.NotIn: 'notin'}
DROPPED_CALLS = {'print', 'module_logger.debug', 'module_logger.info', 'module_logger.warning', 'module_logger.error', 'warnings.warn'}


class Frame:
    """one activation of a function being executed (verified or inlined)"""

    def __init__(self, fi, contract=None):
        self.fi, self.contract = fi, contract
        self.qual = fi.qual if fi else '<spec>'
        self.call_ord, self.loop_ord = {}, {}
        self.old = None
        self.labels = {}
        if fi is not None:
            self._number(fi.node)

    def _number(self, fnode):
        calls, loops = [], []
        for n in ast.walk(fnode):
            if isinstance(n, ast.Call):
                calls.append(n)
            elif isinstance(n, (ast.While, ast.For)):
                loops.append(n)
        calls.sort(key=lambda n: (n.lineno, n.col_offset))
        loops.sort(key=lambda n: (n.lineno, n.col_offset))
        cnt = {}
        for n in calls:
            nm = callee_name(n)
            cnt[nm] = cnt.get(nm, 0) + 1
            self.call_ord[id(n)] = (nm, cnt[nm])
        lc = {}
        for i, n in enumerate(loops):
            sig = 'while' if isinstance(n, ast.While) else 'for:' + (n.target.id if isinstance(n.target, ast.Name) else 'tuple')
            lc[sig] = lc.get(sig, -1) + 1
            # loops are keyed by kind + loop variable + ordinal among those: inserting or moving an unrelated loop does not shift the key
            self.loop_ord[id(n)] = '%s#%d' % (sig, lc[sig])


def callee_name(call):
    f = call.func
    if isinstance(f, ast.Name):
        return f.id
    if isinstance(f, ast.Attribute):
        return f.attr
    return '?'


def dotted(e):
    try:
        return ast.unparse(e)
    except Exception:
        return '?'


class Engine:
    def __init__(self, repo, domain):
        self.repo, self.dom = repo, domain
        domain.eng = self
        self.obls = []
        self.unsupported = []
        self.frames = []
        self.dropped = set()
        self.functions_run = {}
        self.spec_env = {}

    # -------------------------------------------------------------- obligations
    def oblige(self, st, goal, kind, label, tags, line=0, meta=None, site=None):
        fr = self.frames[0]
        name = '%s/%s[%s]' % (fr.qual, kind, label) if site is None else '%s/%s[%s:%s]' % (fr.qual, kind, site, label)
        if is_unk(goal):
            goal = z3.BoolVal(False)
            meta = dict(meta or {}, untracked=True)
        if not isbool(goal):
            goal = self.dom.truth(goal, st)
        # unique names
        base, k = name, 1
        while any(o.name == name for o in self.obls):
            k += 1
            name = '%s~%d' % (base, k)
        # definitional facts of the domain about fresh symbols (unconditionally true, kept out of the path condition so that state merging does not fold them into branch conditions)
        self.obls.append(Ob(name, kind, fr.qual, tags, list(getattr(self.dom, 'global_facts', ())) + list(st.pc), goal, line, 'unsat', meta))

    def lexically_under(self, fr, line, snippets):
        """is the statement at `line` inside an `if` (or `elif`) whose test mentions one of the snippets?"""
        if not snippets or fr.fi is None:
            return False
        if not hasattr(fr, 'parents'):
            fr.parents = {}
            for n in ast.walk(fr.fi.node):
                for c in ast.iter_child_nodes(n):
                    fr.parents[id(c)] = n
        for n in ast.walk(fr.fi.node):
            if isinstance(n, ast.Return) and n.lineno == line:
                p, child = fr.parents.get(id(n)), n
                while p is not None:
                    if isinstance(p, ast.If) and child in p.body and any(sn in ast.unparse(p.test) for sn in snippets):
                        return True
                    p, child = fr.parents.get(id(p)), p
        return False

    def return_matches(self, fr, line, key):
        """'return@text:<snippet>': the return statement at `line` mentions the snippet;  'return@under:<snippet>': it sits under an `if` whose test mentions it.
        Keys of this form do not shift when another return is inserted before them (unlike return#k)."""
        kind, _, snip = key[len('return@'):].partition(':')
        if kind == 'under':
            return self.lexically_under(fr, line, [snip])
        if kind == 'text' and fr.fi is not None:
            return any(isinstance(n, ast.Return) and n.lineno == line and snip in ast.unparse(n) for n in ast.walk(fr.fi.node))
        return False

    def cover(self, st, label, tags, line=0):
        fr = self.frames[0]
        if fr.contract is not None and (label in fr.contract.dead or (label.startswith('return#') and self.lexically_under(fr, line, fr.contract.dead_under))):
            # expected-dead path: the obligation is that it is infeasible under the precondition
            self.obls.append(Ob('%s/dead[%s]' % (fr.qual, label), 'dead', fr.qual, tags, list(st.pc), z3.BoolVal(False), line, 'unsat'))
            return
        name = '%s/cover[%s]' % (fr.qual, label)
        base, k = name, 1
        while any(o.name == name for o in self.obls):
            k += 1
            name = '%s~%d' % (base, k)
        self.obls.append(Ob(name, 'cover', fr.qual, tags, list(getattr(self.dom, 'global_facts', ())) + list(st.pc), z3.BoolVal(True), line, 'sat'))

    def unsup(self, node, what):
        self.unsupported.append((self.frames[-1].qual if self.frames else '?', getattr(node, 'lineno', 0), what))

    # -------------------------------------------------------------- verifying one function against its contract
    def verify(self, qual):
        fi = self.repo.func(qual)
        con = self.dom.contracts.get(qual)
        if fi is None:
            self.obls.append(Ob('%s/exists' % qual, 'exists', qual, con.tags if con else [], [], z3.BoolVal(False), 0, 'unsat',
                                {'missing_function': True}))
            return
        fr = Frame(fi, con)
        self.frames = [fr]
        st = State()
        self.dom.init_state(st, fi, con)
        self.functions_run[qual] = {'hash': fi.hash, 'file': fi.file, 'span': fi.span}
        first_ob = len(self.obls)
        stale = self.stale_hooks(fi, fr, con)
        # parameters
        names, defaults, vararg, kwarg = fi.params()
        for i, nm in enumerate(names):
            if nm in st.env:
                continue
            shp = con.params.get(nm) or con.types.get(nm)
            st.env[nm] = self.dom.fresh(shp, nm, st) if shp else self.dom.default_param(fi, nm, st)
        if vararg and vararg not in st.env:
            st.env[vararg] = UNK
        if con.setup:
            con.setup(self, st)
        for c in con.requires:
            v = self.eval_clause(c, st, None)
            st.assume(self.dom.truth(v, st))
        self.cover(st, 'requires', con.tags, fi.span[0])
        fr.old = st.copy()
        ctl = Ctl()
        end = self.run_block(fi.node.body, st, ctl)
        if end is not None:
            end.env['__ret__'] = NONE
            ctl.ret.append((fi.span[1], end))
        ctl.ret.sort(key=lambda t: t[0])
        for k, (ln, x) in enumerate(ctl.ret):
            lab = 'return#%d' % (k + 1)
            self.cover(x, lab, con.tags, ln)
            res = x.env.get('__ret__', NONE)
            x.env['result'] = res
            akeys = [k2 for k2 in dict.fromkeys(list(con.asserts) + list(con.ghost_return_at)) if k2.startswith('return@') and self.return_matches(fr, ln, k2)]
            for c in con.asserts.get('return', []) + con.asserts.get(lab, []) + [c2 for k2 in akeys for c2 in con.asserts.get(k2, [])]:
                v = self.eval_clause(c, x, fr.old)
                self.oblige(x, v, 'assert', c.label, c.tags, ln, site=lab)
            for path, ex in con.ghost_return + con.ghost_return_at.get(lab, []) + [g2 for k2 in akeys for g2 in con.ghost_return_at.get(k2, [])]:
                self.ghost_assign(path, ex, x, fr.old)
            self.check_post(con, x, fr.old, res, lab, ln)
            self.check_frame(con, x, fr.old, lab, ln)
        self.exc_states = ctl.exc
        self.dom.after_verify(self, fi, con, ctl)
        self.frames = []
        if stale:
            # the contract names a loop / call site / local that the function no longer has (e.g. after a behaviour-preserving restructuring): whatever is not
            # discharged for this function is then UNDECIDED, never a violation (the driver reads this flag)
            for ob in self.obls[first_ob:]:
                ob.meta = dict(ob.meta or {}, stale_contract=stale)

    def stale_hooks(self, fi, fr, con):
        """keys of the sidecar contract (loop invariants, site hooks, ghost hooks) that do not match the current source of the function"""
        out = []
        loops = set(fr.loop_ord.values())
        calls = set(fr.call_ord.values())
        nret = sum(isinstance(n, ast.Return) for n in ast.walk(fi.node)) + 1
        assigned = assigned_names(fi.node.body) | {a.arg for a in fi.node.args.args}

        def site_ok(site):
            q, _, k = site.rpartition('#')
            short = q.split('.')[-1]
            if k == '*':
                return any(c[0] == short for c in calls)
            return k.isdigit() and (short, int(k)) in calls

        def ret_ok(lab):
            if lab.startswith('return@'):
                return any(isinstance(n, ast.Return) and self.return_matches(fr, n.lineno, lab) for n in ast.walk(fi.node))
            return lab == 'return' or (lab.startswith('return#') and lab[7:].isdigit() and int(lab[7:]) <= nret)
        for key in con.loops:
            if key not in loops:
                out.append('loop %s' % key)
        for key in con.asserts:
            if key.startswith('before:'):
                if not site_ok(key[7:]):
                    out.append('call site %s' % key[7:])
            elif key.startswith('break@'):
                if key[6:] not in loops:
                    out.append('loop %s' % key[6:])
            elif key.startswith('after:'):
                if key[6:].partition('@')[0] not in assigned:
                    out.append('local %s' % key[6:].partition('@')[0])
            elif not ret_ok(key):
                out.append('site %s' % key)
        for key in con.ghost_before:
            if not site_ok(key):
                out.append('call site %s' % key)
        for key in con.ghost_after_assign:
            if key.partition('@')[0] not in assigned:
                out.append('local %s' % key.partition('@')[0])
        for key in list(con.ghost_return_at) + list(con.dead):
            if not ret_ok(key):
                out.append('site %s' % key)
        # locals named by loop invariants / site assertions must still be locals of the function (a renamed local makes the clause meaningless, not false)
        known = set(assigned) | {'G', 'result', 'self', 'i_', 'True', 'False', 'None', 'params'}
        known |= set(self.repo.consts) | set(self.repo.funcs) | set(self.repo.classes) | set(getattr(self.dom, 'spec_consts', {}) or {}) | set(getattr(self.dom, 'spec_names', ()) or ())
        for n in ast.walk(fi.node):
            if isinstance(n, ast.Name) and isinstance(n.ctx, ast.Store):
                known.add(n.id)
            elif isinstance(n, (ast.Import, ast.ImportFrom)):
                known |= {(a.asname or a.name).split('.')[0] for a in n.names}
        mod_names = getattr(self.repo, 'module_names', None)
        seen = set()
        for group in list(con.loops.values()) + list(con.asserts.values()):
            for c in group:
                try:
                    tree = ast.parse(c.src.strip(), mode='eval')
                except SyntaxError:
                    continue
                called = {id(n.func) for n in ast.walk(tree) if isinstance(n, ast.Call)}
                bound = {n.args[0].id for n in ast.walk(tree) if isinstance(n, ast.Call) and isinstance(n.func, ast.Name) and n.func.id in ('forall', 'exists')
                         and n.args and isinstance(n.args[0], ast.Name)}
                for n in ast.walk(tree):
                    if isinstance(n, ast.Name) and id(n) not in called and n.id not in known and n.id not in bound and not n.id.endswith('_') and n.id not in seen:
                        if mod_names is not None and n.id in mod_names:
                            continue
                        seen.add(n.id)
                        out.append('local %s' % n.id)
        return out

    def check_frame(self, con, st, old, lab, ln):
        """every tracked location not covered by `modifies` is unchanged at return"""
        mods = con.modifies
        self_cls = self.frames[0].fi.cls

        def covered(key):
            oid, f = key
            for p in mods:
                if p.startswith('params['):
                    if oid == 'params' and (p[7:-1] == '*' or p[7:-1] == f):
                        return True
                    continue
                parts = p.split('.')
                root = '.'.join(parts[:-1])
                if parts[-1] == '*':
                    if oid == root or oid.startswith(root + '.'):
                        return True
                elif oid == root and f == parts[-1]:
                    return True
            return False
        scratch = getattr(self.dom, 'scratch_ghosts', ())
        for key, ov in old.heap.items():
            if covered(key) or (key[0] == 'G' and key[1] in scratch):
                continue
            nv = st.heap.get(key, UNK)
            if nv is ov:
                continue
            if isz(nv) and isz(ov) and nv.sort() == ov.sort():
                if z3.eq(nv, ov):
                    continue
                goal = nv == ov
            elif isinstance(nv, Ref) and isinstance(ov, Ref) and nv == ov:
                continue
            elif is_unk(ov) and is_unk(nv):
                continue
            else:
                goal = self.dom.same_value(nv, ov)
            self.oblige(st, goal, 'frame', '%s.%s unchanged' % key, con.tags, ln, site=lab)

    def ghost_assign(self, path, ex, st, old):
        v = self.eval_clause(Clause(ex), st, old) if ex is not None else None
        parts = path.split('.')
        assert parts[0] == 'G' and len(parts) == 2
        if v is None:
            v = self.dom.fresh(self.dom.ghost_shapes.get(parts[1]), 'G_' + parts[1], st)
        st.heap[('G', parts[1])] = v

    def check_post(self, con, st, old, result, retlabel, line):
        st = st.copy()
        st.env['result'] = result
        # a parameter name in a postcondition denotes the value the caller passed: Python parameters are ordinary locals, and a body that re-binds one (tol = tol * ...)
        # must not thereby change what its postcondition says.  (Objects are references: their fields are read from the final heap as before.)
        fr = self.frames[0]
        if old is not None and fr.fi is not None:
            if not hasattr(fr, 'rebound'):
                fr.rebound = assigned_names(fr.fi.node.body)
            for a in fr.fi.node.args.args + fr.fi.node.args.kwonlyargs:
                if a.arg in fr.rebound and a.arg in old.env and a.arg not in getattr(con, 'final_params', ()):
                    st.env[a.arg] = old.env[a.arg]
        for c in con.ensures:
            if c.label.startswith('A-'):
                continue        # a stated assumption carried by the contract (assumed at call sites, listed in the evidence, never discharged)
            v = self.eval_clause(c, st, old)
            self.oblige(st, v, 'ensures', c.label, c.tags, line, site=retlabel)

    def eval_clause(self, c, st, old, extra=None):
        saved = self.frames[-1].old if self.frames else None
        if self.frames:
            self.frames[-1].old = old
        orig = st
        if extra:
            st = st.copy()
            st.env.update(extra)
        self.in_spec = getattr(self, 'in_spec', 0) + 1
        try:
            return self.ev(c.node, st)
        finally:
            self.in_spec -= 1
            if st is not orig:
                # facts learnt while evaluating the clause (library facts of the domain about the terms of the clause) belong to the state the clause is obliged in
                orig.pc += st.pc[len(orig.pc):]
            if self.frames:
                self.frames[-1].old = saved

    # -------------------------------------------------------------- statements
    def lemmas_after(self, s, st):
        """contract key 'after:<local>': intermediate lemmas.  After every assignment to that local (top frame) each clause is OBLIGED in the current state and then ASSUMED
        (assert-then-assume), so that the obligations that follow can use it as a hypothesis instead of re-deriving it"""
        fr = self.frames[-1]
        if len(self.frames) != 1 or fr.contract is None:
            return
        keys = [k for k in fr.contract.asserts if k.startswith('after:')]
        if not keys:
            return
        names = assigned_names([s])
        for k in keys:
            # 'after:<local>' = after every assignment to the local; 'after:<local>@<j>' = only after the j-th assignment site (in source order of first execution)
            local, _, only = k[6:].partition('@')
            if local in names:
                site = self.site_count(fr, 'after:' + local, s.lineno)
                if only and int(only) != site:
                    continue
                for c in fr.contract.asserts[k]:
                    v = self.eval_clause(c, st, fr.old)
                    self.oblige(st, v, 'assert', c.label, c.tags, s.lineno, site='after %s@%d' % (local, site))
                    if not is_unk(v):
                        st.assume(self.dom.truth(v, st))

    def site_count(self, fr, key, lineno):
        d = fr.__dict__.setdefault('_after_sites', {})
        lst = d.setdefault(key, [])
        if lineno not in lst:
            lst.append(lineno)
        return lst.index(lineno) + 1

    def run_block(self, stmts, st, ctl):
        for s in stmts:
            if st is None:
                return None
            st = self.run_stmt(s, st, ctl)
        return st

    def run_stmt(self, s, st, ctl):
        d = self.dom
        if isinstance(s, ast.Expr):
            if isinstance(s.value, ast.Constant):
                return st           # docstring
            self.ev(s.value, st)
            return st
        if isinstance(s, ast.Assign):
            if d.assign_stmt(self, s, st):
                return st
            v = self.ev(s.value, st)
            for t in s.targets:
                self.assign(t, v, st)
            fr = self.frames[-1]
            if len(self.frames) == 1 and fr.contract is not None and fr.contract.ghost_after_assign:
                names = assigned_names([s])
                for nm0, gl in fr.contract.ghost_after_assign.items():
                    nm, _, filt = nm0.partition('@')
                    if filt == 'call' and not isinstance(s.value, ast.Call):
                        continue
                    if filt == 'elemcall' and not (isinstance(s.value, ast.Call) and isinstance(s.value.func, ast.Subscript)):
                        continue        # x = P[i](...): a call of an element of a list
                    if filt == 'const' and not isinstance(s.value, ast.Constant):
                        continue
                    if nm in names:
                        for path, ex in gl:
                            self.ghost_assign(path, ex, st, fr.old)
            self.lemmas_after(s, st)
            return st
        if isinstance(s, ast.AugAssign):
            cur = self.ev(s.target, st)
            inc = self.ev(s.value, st)
            v = d.augassign(BINOPS.get(type(s.op), '?'), cur, inc, st, s)
            self.assign(s.target, v, st, aug=True)
            self.lemmas_after(s, st)
            return st
        if isinstance(s, ast.If):
            c = d.truth(self.ev(s.test, st), st)
            a, b = st.copy(), st
            a.assume(c)
            b.assume(z3.Not(c))
            self.refine_none(s.test, a, b)
            d.refine_branch(self, a)
            d.refine_branch(self, b)
            a = self.run_block(s.body, a, ctl)
            b = self.run_block(s.orelse, b, ctl)
            return merge_states([a, b])
        if isinstance(s, ast.Break):
            ctl.brk.append((s.lineno, st))
            return None
        if isinstance(s, ast.Continue):
            ctl.cont.append((s.lineno, st))
            return None
        if isinstance(s, ast.Return):
            st.env['__ret__'] = self.ev(s.value, st) if s.value is not None else NONE
            self.dom.at_return(s, st)
            ctl.ret.append((s.lineno, st))
            return None
        if isinstance(s, ast.Raise):
            exc = dotted(s.exc.func) if isinstance(s.exc, ast.Call) else (dotted(s.exc) if s.exc else 're-raise')
            st.env['__exc__'] = exc
            self.dom.at_raise(s, st, exc)
            ctl.exc.append((s.lineno, st))
            return None
        if isinstance(s, ast.Assert):
            c = d.truth(self.ev(s.test, st), st)
            self.dom.at_assert(s, st, c)
            st.assume(c)
            return st
        if isinstance(s, ast.Pass):
            return st
        if isinstance(s, (ast.While, ast.For)):
            return self.run_loop(s, st, ctl)
        if isinstance(s, ast.Try):
            return self.run_try(s, st, ctl)
        if isinstance(s, ast.FunctionDef):
            st.env[s.name] = Fn(s, dict(st.env), s.name)
            return st
        if isinstance(s, (ast.Import, ast.ImportFrom)):
            return st
        self.unsup(s, 'statement ' + type(s).__name__)
        return st

    def refine_none(self, test, t_st, f_st):
        """`x is None` / `x is not None` on a local name: the optional value is unwrapped in the branch that knows"""
        neg = False
        while isinstance(test, ast.UnaryOp) and isinstance(test.op, ast.Not):
            test, neg = test.operand, not neg
        if isinstance(test, ast.BoolOp):
            # `a is not None and ...`: the true branch of an `and` knows every conjunct; the false branch of an `or` likewise
            if isinstance(test.op, ast.And) and not neg:
                for v in test.values:
                    self.refine_none(v, t_st, State())
            elif isinstance(test.op, ast.Or) and not neg:
                for v in test.values:
                    self.refine_none(v, State(), f_st)
            return
        if isinstance(test, ast.Compare) and len(test.ops) == 1 and isinstance(test.left, ast.Name) \
                and isinstance(test.comparators[0], ast.Constant) and test.comparators[0].value is None \
                and isinstance(test.ops[0], (ast.Is, ast.IsNot, ast.Eq, ast.NotEq)):
            nm = test.left.id
            is_none_branch, other = (t_st, f_st) if isinstance(test.ops[0], (ast.Is, ast.Eq)) else (f_st, t_st)
            if neg:
                is_none_branch, other = other, is_none_branch
            v = is_none_branch.env.get(nm)
            if isinstance(v, Opt):
                is_none_branch.env[nm] = NONE
            v = other.env.get(nm)
            if isinstance(v, Opt):
                other.env[nm] = v.val

    def run_try(self, s, st, ctl):
        if s.finalbody:
            self.unsup(s, 'try/finally')
        entry = st.copy()
        inner = Ctl()
        body_end = self.run_block(s.body, st, inner)
        ctl.brk += inner.brk
        ctl.cont += inner.cont
        ctl.ret += inner.ret
        # handler entry: entry state with everything the body may write havoc'd (handlers are entered from any may-raise point)
        h0 = entry
        names = assigned_names(s.body)
        for n in names:
            h0.env[n] = self.dom.fresh_like(n, h0.env.get(n, UNK), h0, body_end.env.get(n) if body_end else None)
        self.havoc_frame(h0, s.body)
        outs = [body_end]
        caught_all = False
        for h in s.handlers:
            hs = h0.copy()
            hs.assume(fbool('exc'))
            if h.name:
                hs.env[h.name] = UNK
            outs.append(self.run_block(h.body, hs, ctl))
            if h.type is None:
                caught_all = True
        # explicit raises inside the body that match no handler propagate
        for ln, x in inner.exc:
            ctl.exc.append((ln, x))
        if s.orelse:
            outs[0] = self.run_block(s.orelse, outs[0], ctl) if outs[0] is not None else None
        return merge_states(outs)

    # -------------------------------------------------------------- loops
    def run_loop(self, s, st, ctl):
        """loop cut at its invariant.  The set of heap locations havoc'd at the loop head starts from the syntactic frame of the body and is closed
        under what the symbolic execution of the body actually writes (ghost state included): a location written by the body but not yet havoc'd
        triggers a re-run with that location havoc'd too (at most a few rounds), so the cut is sound whatever the syntactic frame missed."""
        extra = set()
        for _round in range(6):
            n_obls, n_unsup = len(self.obls), len(self.unsupported)
            saved_ctl = (list(ctl.brk), list(ctl.cont), list(ctl.ret), list(ctl.exc))
            out, missed = self._run_loop_once(s, st.copy(), ctl, extra)
            if not missed:
                return out
            extra |= missed
            del self.obls[n_obls:]
            del self.unsupported[n_unsup:]
            ctl.brk, ctl.cont, ctl.ret, ctl.exc = saved_ctl
        self.unsup(s, 'loop frame did not stabilise')
        return out

    def _run_loop_once(self, s, st, ctl, extra_havoc):
        d = self.dom
        fr = self.frames[-1]
        ordinal = fr.loop_ord.get(id(s), '?')
        con = fr.contract
        top = (len(self.frames) == 1)
        inv = list(con.loops.get(ordinal, [])) if (con and top) else []
        inv_default = d.default_loop_invariant(self, s, st, fr) if True else []
        entry = st
        # for-range bookkeeping
        it_name, lo, hi = None, None, None
        iter_val = None
        if isinstance(s, ast.For):
            rng = s.iter
            if isinstance(rng, ast.Call) and isinstance(rng.func, ast.Name) and rng.func.id == 'range' and isinstance(s.target, ast.Name) \
                    and 1 <= len(rng.args) <= 2:
                it_name = s.target.id
                if len(rng.args) == 1:
                    lo, hi = z3.IntVal(0), self.ev(rng.args[0], st)
                else:
                    lo, hi = self.ev(rng.args[0], st), self.ev(rng.args[1], st)
                if not isint(lo):
                    lo = fint('lo')
                if not isint(hi):
                    hi = fint('hi')
            else:
                iter_val = self.ev(s.iter, st)
        extra0 = {}
        if it_name:
            extra0 = {it_name: lo, 'i_': lo}
        for c in inv + inv_default:
            if c.label.startswith('A-'):
                continue        # stated assumption (e.g. A-nan): assumed at the loop head, never discharged
            v = self.eval_clause(c, entry, fr.old, extra0)
            self.oblige(entry, v, 'inv-init', c.label, c.tags, s.lineno, site=ordinal)
        # havoc
        h = entry.copy()
        names = assigned_names(s.body) | ({it_name} if it_name else set())
        if isinstance(s, ast.For) and not it_name:
            names |= assigned_names([ast.Assign(targets=[s.target], value=ast.Constant(None))])
        body_probe = None
        for n in sorted(names):
            h.env[n] = d.fresh_like(n, entry.env.get(n, UNK), h, None)
        self.havoc_frame(h, s.body)
        for key in extra_havoc:
            if key in h.heap:
                h.heap[key] = d.fresh_like(key[1], h.heap[key], h, None)
            else:
                h.heap[key] = UNK
        d.loop_havoc(self, s, h, entry, fr)
        head_heap = dict(h.heap)
        if it_name:
            i = fint(it_name)
            h.env[it_name] = i
            h.env['i_'] = i
            h.env['__iter@%d' % s.lineno] = i      # the iterator's own position: a body that re-binds the loop variable (an inner loop with the same name) does not move it
            span = z3.If(hi >= lo, hi, lo)
            h.assume(z3.And(i >= lo, i <= span))
        for c in inv + inv_default:
            v = self.eval_clause(c, h, fr.old)
            h.assume(d.truth(v, h))
        body = h.copy()
        if isinstance(s, ast.While):
            c = d.truth(self.ev(s.test, body), body)
            exit_st = h.copy()
            cx = d.truth(self.ev(s.test, exit_st), exit_st)
            body.assume(c)
            exit_st.assume(z3.Not(cx))
            if isinstance(s.test, ast.Constant) and s.test.value is True:
                exit_st = None
        else:
            exit_st = h.copy()
            if it_name:
                body.assume(body.env[it_name] < hi)
                exit_st.assume(exit_st.env[it_name] == z3.If(hi >= lo, hi, lo))
                # the loop variable keeps its last value (or is unbound): not used after loops in this code base
                exit_st.env.pop('i_', None)
            else:
                tv = d.iter_element(iter_val, body)
                self.assign(s.target, tv, body)
        inner = Ctl()
        end = self.run_block(s.body, body, inner)
        conts = sorted(n.lineno for n in own_continues(s))
        backs = [(ln, x, 'continue#%d' % (conts.index(ln) + 1) if ln in conts else 'continue@%d' % ln) for ln, x in inner.cont] \
            + ([(s.end_lineno, end, 'end')] if end is not None else [])
        for ln, x, blab in backs:
            extra = {}
            if it_name:
                cur = x.env.get('__iter@%d' % s.lineno, x.env.get(it_name))
                nxt = cur + 1 if isint(cur) else fint('i')
                extra = {it_name: nxt, 'i_': nxt}
            for c in inv + inv_default:
                if c.label.startswith('A-'):
                    continue
                v = self.eval_clause(c, x, fr.old, extra)
                self.oblige(x, v, 'inv-preserve', c.label, c.tags, ln, site='%s.%s' % (ordinal, blab), meta={'backedge_line': ln})
        ctl.ret += inner.ret
        ctl.exc += inner.exc
        for ln, x in inner.brk:
            d.at_break(self, s, x, ln, fr)
        exits = [x for _, x in inner.brk] + ([exit_st] if exit_st is not None else [])
        # locations written by the body that were not havoc'd at the head
        missed = set()
        for x in [b[1] for b in backs] + [x for _, x in inner.brk] + [x for _, x in inner.ret]:
            for key, v in x.heap.items():
                hv = head_heap.get(key)
                if hv is None:
                    if key not in entry.heap:
                        continue            # object created inside the body
                    missed.add(key)
                elif is_unk(hv) or key in extra_havoc:
                    continue                # already untracked / already havoc'd at the head
                elif v is not hv and not (isz(v) and isz(hv) and z3.eq(v, hv)) and not (is_unk(v) and is_unk(hv)):
                    hv0 = entry.heap.get(key)
                    was_havocd = hv0 is None or (hv is not hv0 and not (isz(hv) and isz(hv0) and z3.eq(hv, hv0)))
                    if not was_havocd and not (isinstance(v, Ref) and isinstance(hv, Ref) and v == hv):
                        missed.add(key)
        out = merge_states(exits)
        if out is not None:
            out.env.pop('i_', None)
        if s.orelse:
            self.unsup(s, 'loop else')
        return out, missed

    def havoc_frame(self, st, stmts):
        """havoc every heap field that the statements may write (syntactic, transitive, name-based)"""
        w = set()
        for s in stmts:
            w |= self.repo.direct_writes(s)
            for n in ast.walk(s):
                if isinstance(n, ast.Call):
                    w |= self.dom.call_frame(self, n)
        stars = [x[2:] for x in w if isinstance(x, str) and x.startswith('*:')]
        for key in list(st.heap):
            hit = key[1] in w or (key[0] == 'params' and 'params!' in w)
            if not hit and stars and key[0] not in ('G', 'params'):
                hit = any(key[0] == s_ or key[0].endswith('.' + s_) or ('.' + s_ + '.') in key[0] for s_ in stars if s_ not in ('self', 'G'))
            if hit:
                st.heap[key] = self.dom.fresh_like(key[1], st.heap[key], st, None)
        return w

    # -------------------------------------------------------------- assignment
    def assign(self, t, v, st, aug=False):
        if isinstance(t, ast.Name):
            st.env[t.id] = self.dom.on_assign_name(t.id, v, st)
        elif isinstance(t, (ast.Tuple, ast.List)):
            vs = v if isinstance(v, tuple) else (tuple(v.items) if isinstance(v, ListV) else None)
            for i, x in enumerate(t.elts):
                self.assign(x, vs[i] if vs is not None and len(vs) == len(t.elts) else UNK, st)
        elif isinstance(t, ast.Attribute):
            obj = self.ev(t.value, st)
            self.dom.store_attr(self, obj, t.attr, v, st, t)
        elif isinstance(t, ast.Subscript):
            self.dom.store_subscript(self, t, v, st)
        elif isinstance(t, ast.Starred):
            self.unsup(t, 'starred assignment')
        else:
            self.unsup(t, 'assignment target ' + type(t).__name__)

    # -------------------------------------------------------------- expressions
    def ev(self, e, st):
        d = self.dom
        if isinstance(e, ast.Constant):
            return d.const(e.value)
        if isinstance(e, ast.Name):
            if e.id in st.env:
                return st.env[e.id]
            return d.global_name(self, e.id, st)
        if isinstance(e, ast.Attribute):
            if isinstance(e.value, ast.Name) and e.value.id not in st.env and e.value.id in ('np', 'LA', 'math', 'sys'):
                return d.load_attr(self, UNK, e.attr, st, e)
            base = self.ev(e.value, st)
            return d.load_attr(self, base, e.attr, st, e)
        if isinstance(e, ast.Tuple):
            return tuple(self.ev(x, st) for x in e.elts)
        if isinstance(e, ast.List):
            return ListV([self.ev(x, st) for x in e.elts])
        if isinstance(e, ast.BoolOp):
            return self.ev_boolop(e, st)
        if isinstance(e, ast.UnaryOp):
            v = self.ev(e.operand, st)
            if isinstance(e.op, ast.Not):
                return z3.Not(d.truth(v, st))
            return d.unop('-' if isinstance(e.op, ast.USub) else ('+' if isinstance(e.op, ast.UAdd) else '~'), v, st)
        if isinstance(e, ast.BinOp):
            a = self.ev(e.left, st)
            b = self.ev(e.right, st)
            return d.binop(BINOPS.get(type(e.op), '?'), a, b, st, e)
        if isinstance(e, ast.Compare):
            left = self.ev(e.left, st)
            res = None
            for op, rhs in zip(e.ops, e.comparators):
                right = self.ev(rhs, st)
                c = d.compare(CMPOPS[type(op)], left, right, st, e)
                res = c if res is None else (z3.And(res, c) if isbool(res) and isbool(c) else UNK)
                left = right
            return res
        if isinstance(e, ast.IfExp):
            c = d.truth(self.ev(e.test, st), st)
            if (has_call(e.body) or has_call(e.orelse)) and not getattr(self, 'in_spec', 0):
                a, b = st.copy(), st.copy()
                a.assume(c)
                b.assume(z3.Not(c))
                va, vb = self.ev(e.body, a), self.ev(e.orelse, b)
                a.env['__v__'], b.env['__v__'] = va, vb
                m = merge_states([a, b])
                st.env, st.heap, st.pc = m.env, m.heap, m.pc
                return st.env.pop('__v__')
            return merge_val(c, self.ev(e.body, st), self.ev(e.orelse, st))
        if isinstance(e, ast.Call):
            return self.ev_call(e, st)
        if isinstance(e, ast.Subscript):
            return d.load_subscript(self, e, st)
        if isinstance(e, ast.Lambda):
            return Fn(e, dict(st.env), '<lambda@%d>' % e.lineno)
        if isinstance(e, ast.Dict):
            return d.dict_literal(self, e, st)
        if isinstance(e, (ast.ListComp, ast.DictComp, ast.GeneratorExp, ast.SetComp)):
            return d.comprehension(self, e, st)
        if isinstance(e, ast.JoinedStr):
            return StrV(fint('fstr'), None)
        if isinstance(e, ast.Slice):
            return UNK
        if isinstance(e, ast.Starred):
            return UNK
        self.unsup(e, 'expression ' + type(e).__name__)
        return UNK

    def ev_boolop(self, e, st):
        d = self.dom
        is_and = isinstance(e.op, ast.And)
        vals = []
        first = d.truth(self.ev(e.values[0], st), st)
        acc = first
        for v in e.values[1:]:
            if has_effect_call(v, self) and not getattr(self, 'in_spec', 0):
                # short-circuit: evaluate the operand only on the paths where it is reached
                a, b = st.copy(), st.copy()
                a.assume(acc if is_and else z3.Not(acc))
                b.assume(z3.Not(acc) if is_and else acc)
                r = d.truth(self.ev(v, a), a)
                a.env['__v__'] = r
                b.env['__v__'] = z3.BoolVal(not is_and)
                m = merge_states([a, b])
                st.env, st.heap, st.pc = m.env, m.heap, m.pc
                acc = st.env.pop('__v__')
                if not isbool(acc):
                    acc = fbool('nd')
            else:
                # pure operand: guard its evaluation facts by reachability
                sub = st.copy()
                guard = acc if is_and else z3.Not(acc)
                n0 = len(sub.pc)
                sub.assume(guard)
                n1 = len(sub.pc)
                r = d.truth(self.ev(v, sub), sub)
                # facts learnt while evaluating the operand (contracts of called functions, asserts of inlined ones) hold where it is evaluated
                for fact in sub.pc[n1:]:
                    st.assume(z3.Implies(guard, fact))
                acc = z3.And(acc, r) if is_and else z3.Or(acc, r)
        return acc

    # -------------------------------------------------------------- calls
    def ev_call(self, e, st):
        d = self.dom
        name = dotted(e.func)
        if name in DROPPED_CALLS:
            self.dropped.add(name)
            # arguments of dropped calls are formatting expressions: not evaluated (treated as total, effect-free)
            return NONE
        return d.call(self, e, st)

    def eval_args(self, e, st):
        args, kwargs = [], {}
        star = False
        for a in e.args:
            if isinstance(a, ast.Starred):
                v = self.ev(a.value, st)
                if isinstance(v, tuple):
                    args.extend(v)
                elif isinstance(v, ListV):
                    args.extend(v.items)
                else:
                    args.append(StarArgs(v))
                    star = True
            else:
                args.append(self.ev(a, st))
        for k in e.keywords:
            if k.arg is None:
                self.ev(k.value, st)
                star = True
            else:
                kwargs[k.arg] = self.ev(k.value, st)
        return args, kwargs

    def bind_params(self, fi_or_node, args, kwargs, st, node=None, self_val=None):
        """bind arguments to the parameter list of the real callee; returns env dict or raises Unsupported"""
        a = (fi_or_node.node if hasattr(fi_or_node, 'node') and not isinstance(fi_or_node, Fn) else fi_or_node).args \
            if not isinstance(fi_or_node, ast.arguments) else fi_or_node
        names = [x.arg for x in a.posonlyargs + a.args]
        defaults = [None] * (len(names) - len(a.defaults)) + list(a.defaults)
        env = {}
        pos = list(args)
        if self_val is not None:
            pos = [self_val] + pos
        if any(isinstance(x, StarArgs) for x in pos):
            fixed = [x for x in pos if not isinstance(x, StarArgs)]
            if not a.vararg and len(fixed) >= len(names):
                # every parameter is already bound by the explicit arguments: any element of the starred tuple overflows
                raise ArityError('takes %d positional arguments but %d + len(*args) were given: a non-empty starred tuple does not fit' % (len(names), len(fixed)))
            raise Unsupported('star-args of unknown length')
        if len(pos) > len(names) and not a.vararg:
            raise ArityError('takes %d positional arguments but %d were given' % (len(names), len(pos)))
        for nm, v in zip(names, pos):
            env[nm] = v
        if a.vararg:
            env[a.vararg.arg] = tuple(pos[len(names):])
        for k, v in kwargs.items():
            if k in env:
                raise ArityError('multiple values for argument %s' % k)
            if k not in names and k not in [x.arg for x in a.kwonlyargs]:
                if a.kwarg:
                    continue
                raise ArityError('unexpected keyword argument %s' % k)
            env[k] = v
        for nm, dflt in zip(names, defaults):
            if nm not in env:
                if dflt is None:
                    raise ArityError('missing required argument %s' % nm)
                env[nm] = self.ev(dflt, st)
        for x, dflt in zip(a.kwonlyargs, a.kw_defaults):
            if x.arg not in env:
                env[x.arg] = self.ev(dflt, st) if dflt is not None else UNK
        return env

    def inline(self, fn, args, kwargs, st, node, self_val=None, fi=None):
        """execute the real body of a small function in place"""
        if len(self.frames) > 8:
            self.unsup(node, 'inline depth')
            return UNK
        fnode = fn.node if isinstance(fn, Fn) else fn
        try:
            env = self.bind_params(fnode.args, args, kwargs, st, node, self_val)
        except ArityError as ex:
            self.dom.at_arity_error(self, node, st, str(ex), fn)
            return UNK
        except Unsupported as ex:
            self.unsup(node, str(ex))
            return UNK
        caller_env = st.env
        base_env = dict(fn.env) if isinstance(fn, Fn) else {}
        base_env.update(env)
        st.env = base_env
        self.frames.append(Frame(fi) if fi is not None else Frame(None))
        self.frames[-1].old = self.frames[0].old
        if fi is None:
            self.frames[-1].qual = self.frames[-2].qual
        try:
            if isinstance(fnode, ast.Lambda):
                r = self.ev(fnode.body, st)
                st.env = caller_env
                return r
            ctl = Ctl()
            end = self.run_block(fnode.body, st, ctl)
            outs = []
            if end is not None:
                end.env['__ret__'] = NONE
                outs.append(end)
            outs += [x for _, x in ctl.ret]
            for ln, x in ctl.exc:
                self.dom.at_inlined_raise(self, node, x, ln)
            m = merge_states(outs)
            if m is None:
                # function never returns normally on this path
                st.pc.append(z3.BoolVal(False))
                st.env = caller_env
                return UNK
            r = m.env.get('__ret__', NONE)
            st.heap, st.pc = m.heap, m.pc
            st.env = caller_env
            return r
        finally:
            self.frames.pop()

    # -------------------------------------------------------------- contract application at a call site
    def apply_contract(self, con, fi, args, kwargs, st, node, self_val=None):
        fr = self.frames[-1]
        nm, k = fr.call_ord.get(id(node), (callee_name(node), 0))
        site = '%s#%d' % (con.qual, k)
        try:
            env = self.bind_params(fi, args, kwargs, st, node, self_val)
        except ArityError as ex:
            self.dom.at_arity_error(self, node, st, str(ex), fi)
            return UNK
        except Unsupported as ex:
            self.unsup(node, str(ex))
            return UNK
        top = (len(self.frames) == 1)
        if top and fr.contract is not None:
            for path, ex in fr.contract.ghost_before.get(site, []) + fr.contract.ghost_before.get('%s#*' % con.qual, []):
                self.ghost_assign(path, ex, st, fr.old)
            for c in fr.contract.asserts.get('before:' + site, []):
                v = self.eval_clause(c, st, fr.old)
                if c.label.startswith('A-'):
                    # a stated assumption at this call site (listed in the evidence, never discharged)
                    if not is_unk(v):
                        st.assume(self.dom.truth(v, st))
                    continue
                self.oblige(st, v, 'assert', c.label, c.tags, node.lineno, site='before ' + site)
        cst = st.copy()
        cst.env = dict(env)
        self.dom.spec_roots(cst, st)
        for c in con.requires:
            v = self.eval_clause(c, cst, None)
            if top and not c.label.startswith('A-'):
                # clauses labelled A-... are stated assumptions of the callee (e.g. A-nan): assumed, listed in the evidence, never discharged
                self.oblige(st, v, 'requires@call', c.label, c.tags, node.lineno, site=site)
            st.assume(self.dom.truth(v, st) if not is_unk(v) else z3.BoolVal(True))
        old = cst.copy()
        # havoc the modifies set
        for path in con.modifies:
            self.dom.havoc_path(self, path, cst, st)
        cst.heap = st.heap
        res = self.dom.fresh(con.result, 'res_' + con.qual.split('.')[-1], st) if con.result else NONE
        cst.env['result'] = res
        cst.pc = st.pc
        for c in con.ensures:
            v = self.eval_clause(c, cst, old)
            if not is_unk(v):
                st.assume(self.dom.truth(v, cst))
        return res


class StarArgs:
    def __init__(self, v):
        self.v = v


class ArityError(Exception):
    pass


def own_continues(loop):
    """continue statements belonging to this loop (not to nested loops)"""
    out = []

    def walk(stmts):
        for st in stmts:
            if isinstance(st, ast.Continue):
                out.append(st)
            elif isinstance(st, (ast.While, ast.For, ast.FunctionDef)):
                continue
            else:
                for f in ('body', 'orelse', 'handlers', 'finalbody'):
                    sub = getattr(st, f, None)
                    if sub:
                        walk([h for h in sub] if f != 'handlers' else [x for h in sub for x in h.body])
    walk(loop.body)
    return out


def own_breaks(loop):
    out = []

    def walk(stmts):
        for st in stmts:
            if isinstance(st, ast.Break):
                out.append(st)
            elif isinstance(st, (ast.While, ast.For, ast.FunctionDef)):
                continue
            else:
                for f in ('body', 'orelse', 'handlers', 'finalbody'):
                    sub = getattr(st, f, None)
                    if sub:
                        walk([h for h in sub] if f != 'handlers' else [x for h in sub for x in h.body])
    walk(loop.body)
    return out


def assigned_names(stmts):
    """local names (re)bound by the statements, including the base name of element / slice stores (a[i] = v, a[i, :] += v re-bind `a`: A-alias)"""
    names = set()
    for s in stmts:
        for n in ast.walk(s):
            if isinstance(n, ast.Name) and isinstance(n.ctx, ast.Store):
                names.add(n.id)
            elif isinstance(n, ast.Subscript) and isinstance(n.ctx, ast.Store):
                b = n.value
                while isinstance(b, ast.Subscript):
                    b = b.value
                if isinstance(b, ast.Name):
                    names.add(b.id)
            elif isinstance(n, (ast.FunctionDef, ast.Lambda)):
                pass
    return names


def has_call(e):
    return any(isinstance(n, ast.Call) for n in ast.walk(e))


PURE_CALLS = {'len', 'min', 'max', 'abs', 'float', 'int', 'isinstance', 'sqrt', 'str', 'range', 'sumsq', 'params'}


def has_effect_call(e, eng):
    for n in ast.walk(e):
        if isinstance(n, ast.Call):
            nm = callee_name(n)
            if nm in PURE_CALLS or dotted(n.func).startswith(('np.', 'LA.', 'math.')):
                continue
            return True
    return False
