"""debug runner: python -m pyvc.run <bundle> [qual ...]"""
import sys, time, importlib
from .src import Repo
from .core import Engine
from .solve import discharge


def run_bundle(bundle, root="/repo", only=None, timeout_ms=150000):
    repo = Repo(root)
    mod = importlib.import_module('contracts.' + bundle)
    D = mod.build(repo)
    eng = Engine(repo, D)
    t0 = time.time()
    for q in D.verify_list:
        if only and q not in only:
            continue
        if D.contracts[q].assumed:
            continue
        eng.verify(q)
    if hasattr(mod, 'extra_obligations') and not only:
        eng.obls += mod.extra_obligations(repo, D, None)
    for ob in eng.obls:
        ob.logic = getattr(D, 'smt_logic', 'ALL')
        ob.portfolio = getattr(D, 'portfolio', False)
    gen = time.time() - t0
    t1 = time.time()
    discharge(eng.obls, timeout_ms)
    return eng, gen, time.time() - t1


if __name__ == '__main__':
    root = '/repo'
    args = sys.argv[1:]
    if '--root' in args:
        i = args.index('--root'); root = args[i + 1]; del args[i:i + 2]
    verbose = '-v' in args
    args = [a for a in args if not a.startswith('-')]
    eng, gen, sol = run_bundle(args[0], root, args[1:] or None)
    bad = 0
    for ob in eng.obls:
        ok = (ob.result['status'] == 'unsat') if ob.expect == 'unsat' else (ob.result['status'] == 'sat')
        if not ok:
            bad += 1
            print('%-8s %s  (line %d) %s' % (ob.result['status'].upper(), ob.name, ob.line, ob.meta or ''))
            if ob.result.get('model') and verbose:
                print('     ', {k: v for k, v in list(ob.result['model'].items())[:40]})
    for ob in sorted(eng.obls, key=lambda o: -o.result['time'])[:6]:
        print('   slow %.1fs %s [%s]' % (ob.result['time'], ob.name, ob.result['backend']))
    print('%d obligations (%d covers), %d not as expected; gen %.2fs solve %.2fs; unsupported: %s' % (
        len(eng.obls), sum(o.kind == 'cover' for o in eng.obls), bad, gen, sol, eng.unsupported[:10]))
