"""Replay of refuted obligations on the real code.

R1/R2 (state-imposed / entry-point replay) are provided per bundle by `native/replay_<bundle>.py` where a counter-model
can be concretised; otherwise (R3: abstract path through solve_main etc.) a bounded native falsification search
`native/falsify_<Cxx>.py` is run over seeded scenarios with the executable form of the property as monitor.  If that finds a
concrete failing input it is attached; if not, the violation is still reported and the line ends `no-failing-input-found`."""
import os, json, subprocess, sys

VERIF = os.path.dirname(os.path.dirname(os.path.abspath(__file__)))


def native(script, args, root, timeout=600):
    env = dict(os.environ, PYTHONPATH=root + os.pathsep + os.path.join(VERIF, 'native'), OMP_NUM_THREADS='1', OPENBLAS_NUM_THREADS='1', MKL_NUM_THREADS='1')
    try:
        p = subprocess.run(['/venv/bin/python', os.path.join(VERIF, script)] + args, capture_output=True, text=True, timeout=timeout,
                           env=env, cwd=VERIF)
        return p.returncode, p.stdout, p.stderr
    except subprocess.TimeoutExpired:
        return None, '', 'timeout'


_FALSIFY_CACHE = {}
FALSIFIABLE = {'C01', 'C02', 'C03', 'C04', 'C07', 'C08', 'C10', 'C11', 'C18', 'C19'}     # properties the scenario monitor of native/falsify.py can observe


def make_replay(pid, ob, root, repo, tier):
    fi = repo.func(ob.func)
    rep = {'property': pid, 'obligation': ob.name, 'kind': ob.kind, 'function': ob.func,
           'file': fi.file if fi else None, 'line': ob.line, 'tags': ob.tags,
           'solver': {k: v for k, v in ob.result.items() if k != 'model'},
           'counter_model': ob.result.get('model'),
           'meaning': 'the verification condition generated from the current source of %s is satisfiable: the solver found values '
                      'for which the contract clause fails' % ob.func,
           'native': {'replayable': False, 'reproduced': None}}
    # R1/R2: direct replay of the counter-model, where the bundle provides it
    bundle = getattr(ob, 'bundle', None)
    script = 'native/replay_%s.py' % bundle
    if bundle and os.path.exists(os.path.join(VERIF, script)) and ob.result.get('model') is not None:
        code, out, err = native(script, [json.dumps({'obligation': ob.name, 'model': ob.result['model'], 'meta': ob.meta}, default=str)], root, 120)
        try:
            r = json.loads(out.strip().split('\n')[-1])
            rep['native'] = r
        except Exception:
            rep['native'] = {'replayable': False, 'reproduced': None, 'error': (out + err)[-500:]}
    if not rep['native'].get('reproduced'):
        # bounded falsification search with the executable property as monitor
        script = 'native/falsify.py'
        if os.path.exists(os.path.join(VERIF, script)) and pid in FALSIFIABLE:
            if pid not in _FALSIFY_CACHE:
                code, out, err = native(script, [pid], root, 900)
                _FALSIFY_CACHE[pid] = (code, out, err)
            code, out, err = _FALSIFY_CACHE[pid]
            rep['falsification_search'] = {'exit': code, 'output': out[-3000:], 'stderr': err[-500:]}
            if code == 1:
                rep['native'] = dict(rep['native'], reproduced=True, how='bounded native falsification search found a concrete failing input',
                                     replay_cmd='PYTHONPATH=%s:%s /venv/bin/python %s %s' % (root, os.path.join(VERIF, 'native'), os.path.join(VERIF, script), pid),
                                     failing_input=out.strip().split('\n')[-1][:3000])
    return rep


def replay_file(pid, path, root):
    rep = json.load(open(path))
    print(json.dumps({k: rep[k] for k in ('property', 'obligation', 'function', 'line', 'solver')}, indent=1))
    script = 'native/falsify.py'
    if os.path.exists(os.path.join(VERIF, script)) and pid in FALSIFIABLE:
        code, out, err = native(script, [pid], root, 900)
        print(out[-3000:])
        return 1 if code == 1 else 0
    print('no native replay available for this obligation (abstract path); re-run ./check %s to regenerate the obligation' % pid)
    return 0
