"""Replay of refuted obligations on the real code.

R1/R2 (state-imposed / entry-point replay) are provided per bundle by `native/replay_<bundle>.py` where a counter-model
can be concretised; otherwise (R3: abstract path through solve_main etc.) a bounded native falsification search
`native/falsify_<Cxx>.py` is run over seeded scenarios with the executable form of the property as monitor.  If that finds a
concrete failing input it is attached; if not, the violation is still reported and the line ends `no-failing-input-found`."""
import os, json, subprocess, sys

VERIF = os.path.dirname(os.path.dirname(os.path.abspath(__file__)))


def native(script, args, root, timeout=600):
    env = dict(os.environ, PYTHONPATH=root + os.pathsep + os.path.join(VERIF, 'native'), OMP_NUM_THREADS='1', OPENBLAS_NUM_THREADS='1', MKL_NUM_THREADS='1')
    try:
        p = subprocess.run(['/venv/bin/python', os.path.join(VERIF, script)] + args, capture_output=True, text=True, timeout=timeout,
                           env=env, cwd=VERIF)
        return p.returncode, p.stdout, p.stderr
    except subprocess.TimeoutExpired:
        return None, '', 'timeout'


_FALSIFY_CACHE = {}
_RT_CACHE = {}
FALSIFIABLE2 = {'C01', 'C02', 'C03', 'C04', 'C06', 'C07', 'C08', 'C09', 'C10', 'C11', 'C18', 'C19', 'C20'}


def export_model_contracts(root):
    """clause text of the model bundle as JSON for the native monitor (written next to the replays; regenerated per run)"""
    sys.path.insert(0, os.path.join(VERIF, 'tools'))
    import export_contracts
    path = os.path.join(VERIF, 'replays', 'model_contracts.json')
    os.makedirs(os.path.dirname(path), exist_ok=True)
    json.dump(export_contracts.export('model', root), open(path, 'w'))
    return path


def run_rt_model(root, ob=None, timeout=600):
    path = export_model_contracts(root)
    tries = []
    if ob is not None and ob.kind == 'ensures' and ':' in ob.name:
        label = getattr(ob, 'base_name', ob.name).split(':', 1)[1].rsplit(']', 1)[0]
        tries.append(['--func', ob.func, '--clause', label[:60]])
    tries.append([])
    last = None
    for extra in tries:
        key = (root, tuple(extra))
        if key not in _RT_CACHE:
            code, out, err = native('native/rt_model.py', [path] + extra, root, timeout)
            try:
                _RT_CACHE[key] = json.loads(out.strip().split('\n')[-1])
            except Exception:
                _RT_CACHE[key] = {'replayable': False, 'reproduced': None, 'error': (out + err)[-400:]}
        last = _RT_CACHE[key]
        if last.get('reproduced'):
            last = dict(last, replay_cmd='python3-vt tools/export_contracts.py model %s > /tmp/mc.json && PYTHONPATH=%s /venv/bin/python %s /tmp/mc.json %s'
                        % (root, root, os.path.join(VERIF, 'native/rt_model.py'), ' '.join("'%s'" % e if ' ' in e else e for e in extra)))
            return last
    return last
FALSIFIABLE = {'C01', 'C02', 'C03', 'C04', 'C07', 'C08', 'C10', 'C11', 'C18', 'C19'}     # properties the scenario monitor of native/falsify.py can observe


def make_replay(pid, ob, root, repo, tier):
    fi = repo.func(ob.func)
    rep = {'property': pid, 'obligation': ob.name, 'kind': ob.kind, 'function': ob.func, 'bundle': getattr(ob, 'bundle', None),
           'file': fi.file if fi else None, 'line': ob.line, 'tags': ob.tags,
           'solver': {k: v for k, v in ob.result.items() if k != 'model'},
           'counter_model': ob.result.get('model'),
           'meaning': 'the verification condition generated from the current source of %s is satisfiable: the solver found values '
                      'for which the contract clause fails' % ob.func,
           'native': {'replayable': False, 'reproduced': None}}
    # R1/R2: direct replay of the counter-model, where the bundle provides it
    bundle = getattr(ob, 'bundle', None)
    script = 'native/replay_%s.py' % bundle
    if bundle and os.path.exists(os.path.join(VERIF, script)) and (ob.result.get('model') is not None or ob.meta):
        code, out, err = native(script, [json.dumps({'obligation': ob.name, 'model': ob.result.get('model'), 'meta': ob.meta}, default=str)], root, 300)
        try:
            r = json.loads(out.strip().split('\n')[-1])
            rep['native'] = r
        except Exception:
            rep['native'] = {'replayable': False, 'reproduced': None, 'error': (out + err)[-500:]}
    if bundle == 'model' and not rep['native'].get('reproduced'):
        # run-time evaluation of the refuted clause itself around the real Model methods (native/rt_model.py), first filtered to the clause, then the whole contract set
        try:
            r = run_rt_model(root, ob)
            if r is not None:
                rep['native'] = r
        except Exception as ex:
            rep['native'] = dict(rep['native'], rt_error=repr(ex)[:300])
    if not rep['native'].get('reproduced'):
        # bounded falsification search with the executable property as monitor
        script = 'native/falsify.py'
        if os.path.exists(os.path.join(VERIF, script)) and pid in FALSIFIABLE:
            if pid not in _FALSIFY_CACHE:
                code, out, err = native(script, [pid], root, 900)
                _FALSIFY_CACHE[pid] = (code, out, err)
            code, out, err = _FALSIFY_CACHE[pid]
            rep['falsification_search'] = {'exit': code, 'output': out[-3000:], 'stderr': err[-500:]}
            if code == 1:
                rep['native'] = dict(rep['native'], reproduced=True, how='bounded native falsification search found a concrete failing input',
                                     replay_cmd='PYTHONPATH=%s:%s /venv/bin/python %s %s' % (root, os.path.join(VERIF, 'native'), os.path.join(VERIF, script), pid),
                                     failing_input=out.strip().split('\n')[-1][:3000])
    if not rep['native'].get('reproduced') and pid in FALSIFIABLE2:
        # second generation: seeded random scenarios over the option space (native/falsify2.py), known-finding configurations excluded
        script = 'native/falsify2.py'
        key = ('f2', pid)
        if key not in _FALSIFY_CACHE:
            _FALSIFY_CACHE[key] = native(script, [pid, '300'], root, 1500)
        code, out, err = _FALSIFY_CACHE[key]
        rep['falsification_search_2'] = {'exit': code, 'output': out[-3000:], 'stderr': err[-300:]}
        if code == 1:
            rep['native'] = dict(rep['native'], reproduced=True, how='bounded native falsification search (random scenarios) found a concrete failing input',
                                 replay_cmd='PYTHONPATH=%s:%s /venv/bin/python %s %s 300' % (root, os.path.join(VERIF, 'native'), os.path.join(VERIF, script), pid),
                                 failing_input=out.strip().split('\n')[-1][:3000])
    return rep


def replay_file(pid, path, root):
    """./check <id> --replay <file>: re-runs the native replay steps recorded for the obligation of the replay file (R1 script of its bundle, run-time contract monitor,
    falsification searches) on the tree `root` and exits 1 if a concrete failing input is (still) found"""
    rep = json.load(open(path))
    print(json.dumps({k: rep.get(k) for k in ('property', 'obligation', 'function', 'line', 'solver')}, indent=1))

    class O:
        pass
    ob = O()
    ob.name = ob.base_name = rep['obligation']
    for b in ('ledger', 'model', 'box', 'radii', 'table', 'jsonrt', 'inputs', 'paramcheck', 'passthru', 'vecs', 'owner', 'coord', 'dirlen', 'precond', 'strtot', 'svdfloor', 'trlin', 'trsbox', 'trclip', 'trsnorm', 'trsdec', 'coordoff'):
        if ob.name.endswith(' [%s]' % b):
            ob.base_name = ob.name[:-len(' [%s]' % b)]
    ob.kind, ob.func, ob.line, ob.tags = rep.get('kind'), rep.get('function'), rep.get('line', 0), rep.get('tags', [])
    ob.bundle = rep.get('bundle')
    ob.meta = {}
    ob.result = dict(rep.get('solver') or {}, model=rep.get('counter_model'))
    from .src import Repo
    new = make_replay(pid, ob, root, Repo(root), 'quick')
    print(json.dumps(new['native'], indent=1, default=str)[:4000])
    if new['native'].get('reproduced'):
        print('REPRODUCED on %s' % root)
        return 1
    print('not reproduced on %s (no concrete failing input found by the native replay steps)' % root)
    return 0


AXIOM_GROUPS = {'svdfloor': 'M', 'jsonrt': 'J', 'model': 'M', 'box': 'B', 'paramcheck': 'B', 'vecs': 'V', 'dirlen': 'Vd', 'precond': 'Sc', 'ledger': 'L', 'coord': 'B'}


def thorough_native(bundles, root):
    """thorough tier only: (1) seeded differential tests of the ASSUMED library facts used by these bundles, (2) run-time evaluation of the model bundle's contracts on the
    real code.  Both are bounded cross-checks of the trusted base, never counted as proof; a failure is a soundness guard (exit 3), not a verdict about the property."""
    out = {'guard': []}
    groups = sorted({AXIOM_GROUPS[b] for b in bundles if b in AXIOM_GROUPS})
    if groups:
        code, o, err = native('native/axiom_tests.py', [','.join(groups)], root, 900)
        try:
            res = json.loads(o.strip().split('\n')[-1])
            out['assumption_tests'] = {'kind': 'bounded (seeded random instances), NOT proof', 'groups': groups, 'axioms': res,
                                       'instances': sum(v['instances'] for v in res.values()), 'failures': sum(v['failures'] for v in res.values())}
            for k, v in res.items():
                if v['failures']:
                    out['guard'].append('assumed library fact fails natively: %s (first failing instance %s)' % (k, v.get('first_failure')))
        except Exception:
            out['assumption_tests'] = {'error': (o + err)[-400:]}
            out['guard'].append('assumption tests could not be run')
    if 'model' in bundles:
        r = run_rt_model(root, None, 900)
        out['runtime_contracts'] = {'kind': 'bounded (seeded workload), NOT proof', 'bundle': 'model', 'stats': (r or {}).get('stats'), 'not_evaluable': (r or {}).get('not_evaluable'),
                                    'violation': (r or {}).get('inputs')}
        if r is None or r.get('reproduced') is None:
            out['guard'].append('run-time contract monitor could not be run: %s' % ((r or {}).get('error', '')[-200:]))
        elif r.get('reproduced'):
            out['runtime_contracts']['note'] = 'a contract clause is False at run time on the real code'
    return out
