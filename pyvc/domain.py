"""Base domain: default value semantics shared by all domains (ints, bools, None, records, heap objects, strings),
call resolution (spec functions, builtins, contracts, inlining, unknown calls with frame havoc)."""
import ast, z3
from .core import *
from . import core


class Domain:
    name = 'base'
    float_mode = 'havoc'            # 'havoc' | 'real' | 'fp64'
    records = {'ExitInformation'}   # classes treated as immutable records (constructor body is executed, result frozen)
    inline = set()                  # qualified names of small real functions that are executed in place
    int_callbacks = {'nsamples'}    # A-callback: returns an int

    def __init__(self, repo):
        self.repo = repo
        self.contracts = {}
        self.predicates = {}        # name -> (param names, Clause)
        self.builtins = {}
        self.field_shapes = {}      # (class, field) -> shape
        self.ghost_shapes = {}      # ghost field -> shape
        self.assumptions = []
        self.install_builtins()

    # ------------------------------------------------------------------ contracts
    def contract(self, qual, **kw):
        c = Contract(qual, **kw)
        self.contracts[qual] = c
        return c

    def predicate(self, name, params, text):
        self.predicates[name] = (params, Clause(text))

    # ------------------------------------------------------------------ constants / names
    def const(self, v):
        if isinstance(v, bool):
            return z3.BoolVal(v)
        if isinstance(v, int):
            return z3.IntVal(v)
        if v is None:
            return NONE
        if isinstance(v, str):
            return mkstr(v)
        if isinstance(v, float):
            return self.float_const(v)
        return UNK

    def float_const(self, v):
        if self.float_mode == 'real':
            if v != v or v in (float('inf'), float('-inf')):
                return UNK
            return z3.RealVal(repr(v))
        if self.float_mode == 'fp64':
            return z3.FPVal(v, z3.Float64())
        return UNK

    def global_name(self, eng, name, st):
        r = self.repo
        if name in r.consts:
            return self.const(r.consts[name])
        if name in r.funcs and r.funcs[name].cls is None:
            return Fn(r.funcs[name].node, {}, name, qual=name)
        if name in ('True', 'False'):
            return z3.BoolVal(name == 'True')
        return UNK

    # ------------------------------------------------------------------ truthiness
    def truth(self, v, st):
        if isbool(v):
            return v
        if isint(v):
            return v != 0
        if isreal(v):
            return v != 0
        if isfp(v):
            return z3.Not(z3.fpIsZero(v))
        if v is NONE:
            return z3.BoolVal(False)
        if isinstance(v, Opt):
            return z3.And(z3.Not(v.is_none), self.truth(v.val, st))
        if isinstance(v, (Rec, Ref, Fn, Callback)):
            return z3.BoolVal(True)
        if isinstance(v, tuple):
            return z3.BoolVal(len(v) > 0)
        if isinstance(v, ListV):
            return z3.BoolVal(len(v.items) > 0)
        if isinstance(v, StrV):
            return v.nonempty
        if hasattr(v, 'truth'):
            return v.truth()
        return fbool('nd')

    # ------------------------------------------------------------------ arithmetic
    def num(self, v):
        return isnum(v)

    def binop(self, op, a, b, st, node=None):
        if isbool(a) and op in '+-*':
            a = z3.If(a, z3.IntVal(1), z3.IntVal(0))
        if isbool(b) and op in '+-*':
            b = z3.If(b, z3.IntVal(1), z3.IntVal(0))
        if isnum(a) and isnum(b):
            if isint(a) and isint(b):
                if op == '+':
                    return a + b
                if op == '-':
                    return a - b
                if op == '*':
                    return a * b
                if op == '//':
                    return self.floordiv(a, b, st)
                if op == '%':
                    return self.mod(a, b, st)
                if op == '**' and z3.is_int_value(b) and 0 <= b.as_long() <= 4:
                    r = z3.IntVal(1)
                    for _ in range(b.as_long()):
                        r = r * a
                    return r
                if op == '/':
                    return self.real_div(to_real(a), to_real(b), st)
                return UNK
            if self.float_mode == 'real':
                a, b = to_real(a), z3.simplify(to_real(b))
                if op == '+':
                    return a + b
                if op == '-':
                    return a - b
                if op == '*':
                    return a * b
                if op == '/':
                    return self.real_div(a, b, st)
                if op == '**' and z3.is_rational_value(b) and b.denominator_as_long() == 1 and 0 <= b.numerator_as_long() <= 4:
                    r = z3.RealVal(1)
                    for _ in range(b.numerator_as_long()):
                        r = r * a
                    return r
            return UNK
        if isinstance(a, StrV) and isinstance(b, StrV) and op == '+':
            return StrV(fint('cat'), z3.Or(a.nonempty, b.nonempty))
        if isinstance(a, StrV) and op == '%':
            return StrV(fint('fmt'), a.nonempty)
        if isinstance(a, ListV) and isinstance(b, ListV) and op == '+':
            return ListV(a.items + b.items)
        if isinstance(a, ListV) and z3.is_int_value(b) and op == '*':
            return ListV(a.items * b.as_long())
        return UNK

    def real_div(self, a, b, st):
        if self.float_mode == 'real':
            return a / b
        return UNK

    def floordiv(self, a, b, st):
        # Python floor division for a positive divisor coincides with SMT-LIB div
        if z3.is_int_value(b) and b.as_long() > 0:
            return a / b
        q = fint('q')
        st.assume(z3.Implies(b > 0, z3.And(q * b <= a, a < q * b + b)))
        return q

    def mod(self, a, b, st):
        if z3.is_int_value(b) and b.as_long() > 0:
            return a % b
        r = fint('m')
        st.assume(z3.Implies(b > 0, z3.And(r >= 0, r < b)))
        return r

    def unop(self, op, v, st):
        if op == '-' and isnum(v):
            return -v
        if op == '+' and isnum(v):
            return v
        return UNK

    def augassign(self, op, cur, inc, st, node):
        return self.binop(op, cur, inc, st, node)

    def compare(self, op, a, b, st, node=None):
        if op in ('is', 'isnot'):
            r = self.is_same(a, b, st)
            if r is None:
                return UNK
            return r if op == 'is' else z3.Not(r)
        if op in ('in', 'notin'):
            r = self.contains(a, b, st)
            if is_unk(r):
                return UNK
            return r if op == 'in' else z3.Not(r)
        if isbool(a) and isbool(b) and op in ('==', '!='):
            return (a == b) if op == '==' else (a != b)
        if op in ('==', '!=') and (isinstance(a, Opt) or isinstance(b, Opt)) and not (a is NONE or b is NONE):
            oa = a if isinstance(a, Opt) else Opt(z3.BoolVal(False), a)
            ob = b if isinstance(b, Opt) else Opt(z3.BoolVal(False), b)
            inner = self.compare('==', oa.val, ob.val, st, node)
            if is_unk(inner):
                return UNK
            r = z3.Or(z3.And(oa.is_none, ob.is_none), z3.And(z3.Not(oa.is_none), z3.Not(ob.is_none), inner))
            return r if op == '==' else z3.Not(r)
        if op in ('<', '<=', '>', '>='):
            # ordering an optional value: Python would raise on None; on the paths that matter the value is present
            if isinstance(a, Opt) and isnum(a.val):
                a = a.val
            if isinstance(b, Opt) and isnum(b.val):
                b = b.val
        if isbool(a):
            a = z3.If(a, z3.IntVal(1), z3.IntVal(0))
        if isbool(b):
            b = z3.If(b, z3.IntVal(1), z3.IntVal(0))
        if isnum(a) and isnum(b):
            if not (isint(a) and isint(b)):
                if self.float_mode != 'real':
                    return UNK
                a, b = to_real(a), to_real(b)
            return {'==': a == b, '!=': a != b, '<': a < b, '<=': a <= b, '>': a > b, '>=': a >= b}[op]
        if isinstance(a, StrV) and isinstance(b, StrV) and op in ('==', '!='):
            if z3.is_int_value(a.id) and z3.is_int_value(b.id):
                return z3.BoolVal((a.id.as_long() == b.id.as_long()) == (op == '=='))
            # interned ids: distinct literals have distinct ids, unknown text has an unconstrained id (over-approximation)
            return (a.id == b.id) if op == '==' else (a.id != b.id)
        if op in ('==', '!=') and (a is NONE or b is NONE):
            r = self.is_same(a, b, st)
            if r is None:
                return UNK
            return r if op == '==' else z3.Not(r)
        if isinstance(a, tuple) and isinstance(b, tuple) and op in ('==', '!='):
            if len(a) != len(b):
                return z3.BoolVal(op == '!=')
            cs = [self.compare('==', x, y, st) for x, y in zip(a, b)]
            if any(is_unk(c) for c in cs):
                return UNK
            r = z3.And(*cs) if cs else z3.BoolVal(True)
            return r if op == '==' else z3.Not(r)
        return UNK

    def known_str(self, s):
        """all branches of the id term are interned literals"""
        def lits(t):
            if z3.is_int_value(t):
                return True
            if z3.is_app(t) and t.decl().kind() == z3.Z3_OP_ITE:
                return lits(t.arg(1)) and lits(t.arg(2))
            return False
        return lits(s.id)

    def is_same(self, a, b, st):
        if b is NONE or a is NONE:
            x = a if b is NONE else b
            if x is NONE:
                return z3.BoolVal(True)
            if isinstance(x, Opt):
                return x.is_none
            if is_unk(x):
                return None
            return z3.BoolVal(False)
        if isinstance(a, Ref) and isinstance(b, Ref):
            return z3.BoolVal(a == b)
        return None

    def contains(self, a, b, st):
        """a in b"""
        if isinstance(b, Opt):
            b = b.val
        if isinstance(a, StrV) and isinstance(b, StrV):
            # substring test against the interned literals a symbolic string may denote
            if z3.is_int_value(a.id) and self.known_str(b):
                sub = INTERN_REV[a.id.as_long()]
                ids = [i for i, s in INTERN_REV.items() if sub in s]
                return z3.Or(*[b.id == i for i in ids]) if ids else z3.BoolVal(False)
            return UNK
        if isinstance(b, (ListV, tuple)):
            items = b.items if isinstance(b, ListV) else b
            cs = [self.compare('==', a, x, st) for x in items]
            if any(is_unk(c) for c in cs):
                return UNK
            return z3.Or(*cs) if cs else z3.BoolVal(False)
        if hasattr(b, 'contains'):
            return b.contains(a, st)
        return UNK

    # ------------------------------------------------------------------ attributes / subscripts
    def load_attr(self, eng, base, attr, st, node):
        if isinstance(base, Opt):
            base = base.val
        if isinstance(base, Ref):
            key = (base.oid, attr)
            if key in st.heap:
                return st.heap[key]
            cls = self.repo.classes.get(base.cls, {})
            if attr in cls:
                return BoundMethod(base, cls[attr])
            shp = self.field_shapes.get((base.cls, attr))
            if shp and not (isinstance(shp, str) and shp.startswith('ref:')) and shp != 'untracked':
                v = self.fresh(shp, '%s.%s' % (base.oid, attr), st)
                st.heap[key] = v    # first read of a declared field of an object that was not initialised eagerly: stable from now on
                return v
            return UNK
        if isinstance(base, Rec):
            if attr in base.fields:
                return base.fields[attr]
            cls = self.repo.classes.get(base.cls, {})
            if attr in cls:
                return BoundMethod(base, cls[attr])
            return UNK
        if hasattr(base, 'attr'):
            return base.attr(attr, eng, st)
        return UNK

    def store_attr(self, eng, obj, attr, v, st, node):
        if isinstance(obj, Opt):
            obj = obj.val
        if isinstance(obj, Ref):
            st.heap[(obj.oid, attr)] = v
        elif isinstance(obj, RecBuilder):
            obj.fields[attr] = v
        else:
            # write through an untracked reference: havoc every tracked field of that name (name-based, conservative)
            for key in list(st.heap):
                if key[1] == attr:
                    st.heap[key] = self.fresh_like(attr, st.heap[key], st, None)

    def load_subscript(self, eng, e, st):
        base = eng.ev(e.value, st)
        if isinstance(base, Opt) and isinstance(base.val, (tuple, ListV)):
            base = base.val
        if isinstance(base, (tuple, ListV)):
            items = base if isinstance(base, tuple) else base.items
            if isinstance(e.slice, ast.Slice):
                lo = eng.ev(e.slice.lower, st) if e.slice.lower else None
                hi = eng.ev(e.slice.upper, st) if e.slice.upper else None
                if (lo is None or z3.is_int_value(lo)) and (hi is None or z3.is_int_value(hi)) and e.slice.step is None:
                    sl = items[(lo.as_long() if lo is not None else None):(hi.as_long() if hi is not None else None)]
                    return tuple(sl) if isinstance(base, tuple) else ListV(sl)
                return UNK
            i = eng.ev(e.slice, st)
            if isz(i):
                i = z3.simplify(i)
            if z3.is_int_value(i):
                k = i.as_long()
                if -len(items) <= k < len(items):
                    return items[k]
                self.at_index_error(eng, e, st)
                return UNK
            if isint(i) and items:
                r = items[-1]
                for k in range(len(items) - 2, -1, -1):
                    r = merge_val(i == k, items[k], r)
                return r
            return UNK
        if hasattr(base, 'getitem'):
            return base.getitem(e, eng, st)
        if not isinstance(e.slice, ast.Slice):
            eng.ev(e.slice, st)
        return UNK

    def store_subscript(self, eng, t, v, st):
        base = eng.ev(t.value, st)
        if hasattr(base, 'setitem'):
            nb = base.setitem(t, v, eng, st)
            if nb is not None:
                eng.assign(t.value, nb, st)
            return
        if not isinstance(t.slice, ast.Slice):
            eng.ev(t.slice, st)
        if isinstance(base, ListV) and not isinstance(t.slice, ast.Slice):
            i = eng.ev(t.slice, st)
            if z3.is_int_value(i) and -len(base.items) <= i.as_long() < len(base.items):
                items = list(base.items)
                items[i.as_long()] = v
                eng.assign(t.value, ListV(items), st)
                return
        # element store into an untracked container: the container stays untracked (A-alias: modelled by value)
        if isinstance(t.value, (ast.Name, ast.Attribute)) and not is_unk(base):
            eng.assign(t.value, UNK, st)

    def at_index_error(self, eng, e, st):
        pass

    def dict_literal(self, eng, e, st):
        for k, v in zip(e.keys, e.values):
            if k is not None:
                eng.ev(k, st)
            eng.ev(v, st)
        return UNK

    def comprehension(self, eng, e, st):
        return UNK

    def iter_element(self, iter_val, st):
        return UNK

    # ------------------------------------------------------------------ fresh values
    def fresh(self, shape, name, st=None):
        if shape is None or shape == 'unk':
            return UNK
        if isinstance(shape, tuple):
            return tuple(self.fresh(s, '%s_%d' % (name, i), st) for i, s in enumerate(shape))
        if shape == 'int':
            return fint(name)
        if shape == 'nat':
            v = fint(name)
            if st is not None:
                st.assume(v >= 0)
            return v
        if shape == 'bool':
            return fbool(name)
        if shape == 'real':
            return freal(name)
        if shape == 'fp':
            return z3.FP(fresh_name(name), z3.Float64())
        if shape == 'float':
            return self.fresh({'havoc': 'unk', 'real': 'real', 'fp64': 'fp'}[self.float_mode], name, st)
        if shape == 'none':
            return NONE
        if shape == 'str':
            return StrV(fint(name), fbool(name + '_ne'))
        if shape == 'exit':
            return Rec('ExitInformation', {'flag': fint(name + '_flag'), 'msg': StrV(fint(name + '_msg'), fbool(name + '_msg_ne'))})
        if shape == 'optexit':
            return Opt(fbool(name + '_none'), self.fresh('exit', name, st))
        if shape.startswith('opt:'):
            return Opt(fbool(name + '_none'), self.fresh(shape[4:], name, st))
        if shape.startswith('ref:'):
            return Ref(fresh_name(name), shape[4:])
        if shape.startswith('cb:'):
            return Callback(shape[3:])
        raise ValueError('unknown shape %r' % (shape,))

    def fresh_like(self, name, v, st, hint=None):
        """havoc a variable at a loop head / after an unknown call, keeping its shape"""
        shp = self.name_shape(name)
        if shp:
            return self.fresh(shp, name, st)
        if v is None or is_unk(v):
            v = hint
        if v is None or is_unk(v):
            return UNK
        if isz(v):
            return z3.Const(fresh_name(name), v.sort())
        if v is NONE:
            return UNK if hint is None or hint is NONE else self.fresh_like(name, hint, st)
        if isinstance(v, Opt):
            return Opt(fbool(name + '_none'), self.fresh_like(name, v.val, st))
        if isinstance(v, Rec):
            return Rec(v.cls, {k: self.fresh_like(name + '_' + k, x, st) for k, x in v.fields.items()})
        if isinstance(v, tuple):
            return tuple(self.fresh_like('%s_%d' % (name, i), x, st) for i, x in enumerate(v))
        if isinstance(v, StrV):
            return StrV(fint(name), fbool(name + '_ne'))
        if isinstance(v, (Ref, Fn, Callback)):
            return v
        if hasattr(v, 'fresh_like'):
            return v.fresh_like(name, st)
        return UNK

    def name_shape(self, name):
        return None

    def default_param(self, fi, nm, st):
        if nm == 'self' and fi.cls:
            return Ref('self', fi.cls)
        return UNK

    # ------------------------------------------------------------------ state set-up
    def init_state(self, st, fi, con):
        st.env['G'] = Ref('G', '<ghost>')
        for f, shp in self.ghost_shapes.items():
            st.heap[('G', f)] = self.fresh(shp, 'G_' + f, st)
        if fi.cls and not fi.is_static:
            self_ref = Ref('self', fi.cls)
            st.env['self'] = self_ref
            self.init_object(st, self_ref)

    def init_object(self, st, ref, depth=0):
        for (cls, f), shp in self.field_shapes.items():
            if cls == ref.cls and (ref.oid, f) not in st.heap:
                if isinstance(shp, str) and shp.startswith('ref:') and depth < 3:
                    sub = Ref('%s.%s' % (ref.oid, f), shp[4:])
                    st.heap[(ref.oid, f)] = sub
                    self.init_object(st, sub, depth + 1)
                elif shp == 'untracked':
                    continue
                else:
                    st.heap[(ref.oid, f)] = self.fresh(shp, '%s.%s' % (ref.oid, f), st)

    def spec_roots(self, cst, st):
        cst.env['G'] = Ref('G', '<ghost>')

    # ------------------------------------------------------------------ loops / hooks
    def default_loop_invariant(self, eng, loop, st, frame):
        return []

    def loop_havoc(self, eng, loop, h, entry, frame):
        pass

    def at_break(self, eng, loop, st, line, frame):
        pass

    def refine_branch(self, eng, st):
        """called on each of the two states of an `if` after its test has been assumed: a domain may simplify merged values that the new path condition decides"""
        pass

    def at_return(self, node, st):
        pass

    def on_assign_name(self, name, v, st):
        return v

    def assign_stmt(self, eng, s, st):
        return False

    def same_value(self, a, b):
        if isinstance(a, Opt) and isinstance(b, Opt):
            inner = self.same_value(a.val, b.val) if not (a.val is b.val) else z3.BoolVal(True)
            return z3.And(a.is_none == b.is_none, z3.Or(a.is_none, inner))
        if isinstance(a, Rec) and isinstance(b, Rec):
            return z3.And(*[self.same_value(a.fields[k], b.fields[k]) for k in a.fields]) if a.fields else z3.BoolVal(True)
        if isinstance(a, StrV) and isinstance(b, StrV):
            return a.id == b.id
        if isinstance(a, tuple) and isinstance(b, tuple) and len(a) == len(b):
            return z3.And(*[self.same_value(x, y) for x, y in zip(a, b)]) if a else z3.BoolVal(True)
        if (isinstance(a, Opt) and b is NONE) or (isinstance(b, Opt) and a is NONE):
            return (a if isinstance(a, Opt) else b).is_none
        if isinstance(a, Opt) != isinstance(b, Opt):
            o, v = (a, b) if isinstance(a, Opt) else (b, a)
            return z3.And(z3.Not(o.is_none), self.same_value(o.val, v))
        if isz(a) and isz(b) and a.sort() == b.sort():
            return a == b
        if a is b:
            return z3.BoolVal(True)
        return z3.BoolVal(False)

    def after_verify(self, eng, fi, con, ctl):
        pass

    def at_raise(self, node, st, exc):
        pass

    def at_assert(self, node, st, cond):
        pass

    def at_arity_error(self, eng, node, st, msg, callee):
        eng.unsup(node, 'arity: ' + msg)

    def at_inlined_raise(self, eng, node, st, line):
        pass

    def call_frame(self, eng, callnode):
        """attribute names a call may write"""
        nm = callee_name(callnode)
        out = set()
        quals = []
        if isinstance(callnode.func, ast.Name):
            if nm in self.repo.funcs:
                quals = [nm]
            elif nm in self.repo.classes:
                quals = [nm + '.__init__']
            elif nm == 'params':
                if any(k.arg == 'new_value' for k in callnode.keywords) or len(callnode.args) > 1:
                    out.add('params!')
                return out
        else:
            quals = [c + '.' + nm for c in self.repo.resolve_method(nm)]
        for q in quals:
            con = self.contracts.get(q)
            if con is not None:
                for p in con.modifies:
                    if p.startswith('params['):
                        out.add(p[7:-1] if p[7:-1] != '*' else 'params!')
                    elif p.endswith('.*'):
                        out.add('*:' + p.split('.')[-2])       # every field of the object reached through attribute <name>
                    else:
                        out.add(p.split('.')[-1])
            else:
                out |= self.repo.frame(q)
        return out

    def havoc_path(self, eng, path, cst, st):
        """havoc the location named by a modifies path such as 'self.nf', 'G.calls', 'self.model.kopt'"""
        if path.startswith('params['):
            key = path[7:-1]
            for k in list(st.heap):
                if k[0] == 'params' and (key == '*' or k[1] == key):
                    st.heap[k] = self.fresh_like('P_' + k[1], st.heap[k], st, None)
            return
        parts = path.split('.')
        v = cst.env.get(parts[0], UNK)
        for p in parts[1:-1]:
            v = self.load_attr(eng, v, p, st, None)
        if isinstance(v, Opt):
            v = v.val
        if isinstance(v, Ref):
            f = parts[-1]
            if f == '*':
                for key in list(st.heap):
                    if key[0] == v.oid or key[0].startswith(v.oid + '.'):
                        st.heap[key] = self.fresh_like(key[1], st.heap[key], st, None)
                return
            shp = self.field_shapes.get((v.cls, f)) or (self.ghost_shapes.get(f) if v.oid == 'G' else None)
            cur = st.heap.get((v.oid, f), UNK)
            st.heap[(v.oid, f)] = self.fresh(shp, '%s.%s' % (v.oid, f), st) if (shp and not str(shp).startswith('ref:')) \
                else self.fresh_like(f, cur, st, None)
        else:
            # receiver unknown: havoc by field name
            f = parts[-1]
            for key in list(st.heap):
                if key[1] == f:
                    st.heap[key] = self.fresh_like(f, st.heap[key], st, None)

    # ------------------------------------------------------------------ calls
    def install_builtins(self):
        b = self.builtins
        b['max'] = self.b_max
        b['min'] = self.b_min
        b['len'] = self.b_len
        b['abs'] = self.b_abs
        b['int'] = self.b_int
        b['float'] = self.b_float
        b['bool'] = lambda eng, n, a, k, st: self.truth(a[0], st) if a else z3.BoolVal(False)
        b['str'] = lambda eng, n, a, k, st: StrV(fint('str'), fbool('str_ne'))
        b['isinstance'] = lambda eng, n, a, k, st: UNK
        b['list'] = self.b_list
        b['tuple'] = lambda eng, n, a, k, st: (tuple(a[0].items) if a and isinstance(a[0], ListV) else (a[0] if a and isinstance(a[0], tuple) else UNK))
        b['range'] = lambda eng, n, a, k, st: UNK
        b['all'] = lambda eng, n, a, k, st: self.b_allany(a, st, True)
        b['any'] = lambda eng, n, a, k, st: self.b_allany(a, st, False)

    def b_allany(self, a, st, is_all):
        if a and isinstance(a[0], (ListV, tuple)):
            items = a[0].items if isinstance(a[0], ListV) else a[0]
            ts = [self.truth(x, st) for x in items]
            return (z3.And(*ts) if is_all else z3.Or(*ts)) if ts else z3.BoolVal(is_all)
        return UNK

    def b_list(self, eng, n, a, k, st):
        if not a:
            return ListV([])
        if isinstance(a[0], ListV):
            return ListV(a[0].items)
        if isinstance(a[0], tuple):
            return ListV(a[0])
        return UNK

    def b_max(self, eng, node, args, kw, st):
        return self._minmax(args, st, True)

    def b_min(self, eng, node, args, kw, st):
        return self._minmax(args, st, False)

    def _minmax(self, args, st, is_max):
        if len(args) == 1 and isinstance(args[0], (ListV, tuple)):
            args = list(args[0].items if isinstance(args[0], ListV) else args[0])
        if len(args) < 2 or not all(isnum(a) for a in args):
            # A-callback: nsamples returns an int, so max(nsamples(..), 1) is an int >= 1
            ints = [a for a in args if isint(a)]
            if len(args) == 2 and len(ints) == 1 and any(isinstance(a, IntHavoc) for a in args):
                other = fint('cbint')
                return self._minmax([other if isinstance(a, IntHavoc) else a for a in args], st, is_max)
            return UNK
        if not all(isint(a) for a in args):
            if self.float_mode != 'real':
                return UNK
            args = [to_real(a) for a in args]
        r = args[0]
        for b in args[1:]:
            # Python: max(a, b) = b if b > a else a ; min(a, b) = b if b < a else a
            r = z3.If(b > r, b, r) if is_max else z3.If(b < r, b, r)
        return r

    def b_len(self, eng, node, args, kw, st):
        v = args[0] if args else UNK
        if isinstance(v, (tuple,)):
            return z3.IntVal(len(v))
        if isinstance(v, ListV):
            return z3.IntVal(len(v.items))
        if hasattr(v, 'length'):
            return v.length(st)
        r = fint('len')
        st.assume(r >= 0)
        return r

    def b_abs(self, eng, node, args, kw, st):
        v = args[0]
        if isnum(v):
            return z3.If(v >= 0, v, -v)
        return UNK

    def b_int(self, eng, node, args, kw, st):
        v = args[0] if args else z3.IntVal(0)
        if isint(v):
            return v
        if isbool(v):
            return z3.If(v, z3.IntVal(1), z3.IntVal(0))
        return fint('int')

    def b_float(self, eng, node, args, kw, st):
        v = args[0] if args else UNK
        if isint(v) and self.float_mode == 'real':
            return z3.ToReal(v)
        if isreal(v):
            return v
        return UNK if self.float_mode == 'havoc' else self.fresh('float', 'float', st)

    # spec functions (only inside contract clauses)
    def spec_call(self, eng, name, e, st):
        if name == 'old':
            fr = eng.frames[-1]
            if fr.old is None:
                return eng.ev(e.args[0], st)
            o = fr.old.copy()
            # names bound in the clause environment but not in the pre-state (result, quantified vars) stay visible
            for k, v in st.env.items():
                if k not in o.env:
                    o.env[k] = v
            saved = fr.old
            fr.old = None
            try:
                return eng.ev(e.args[0], o)
            finally:
                fr.old = saved
        if name == 'implies':
            a = self.truth(eng.ev(e.args[0], st), st)
            sub = st.copy()
            sub.assume(a)
            if z3.is_false(z3.simplify(a)):
                return z3.BoolVal(True)
            b = eng.ev(e.args[1], sub)
            # an untracked consequent becomes an unconstrained Bool: unprovable as a goal, harmless as an assumption
            return z3.Implies(a, self.truth(b, sub))
        if name == 'ite':
            c = self.truth(eng.ev(e.args[0], st), st)
            return merge_val(c, eng.ev(e.args[1], st), eng.ev(e.args[2], st))
        if name == 'isnone':
            r = self.is_same(eng.ev(e.args[0], st), NONE, st)
            return UNK if r is None else r
        if name == 'forall' or name == 'exists':
            var = e.args[0].id
            lo, hi = eng.ev(e.args[1], st), eng.ev(e.args[2], st)
            if not isint(lo) or not isint(hi):
                return UNK          # a bound that is not tracked here (e.g. a callee-local name evaluated at a call site)
            x = z3.Int(fresh_name(var))
            sub = st.copy()
            sub.env[var] = x
            sub.assume(z3.And(lo <= x, x < hi))
            body = eng.ev(e.args[3], sub)
            if is_unk(body):
                return UNK
            body = self.truth(body, sub)
            if name == 'forall':
                return z3.ForAll([x], z3.Implies(z3.And(lo <= x, x < hi), body))
            return z3.Exists([x], z3.And(lo <= x, x < hi, body))
        if name in getattr(self, 'spec_funcs', {}):
            args = [eng.ev(a, st) for a in e.args]
            if any(not isz(a) for a in args):
                return UNK
            return self.spec_funcs[name](*args)
        if name in self.predicates:
            params, clause = self.predicates[name]
            sub = st.copy()
            for p, a in zip(params, e.args):
                sub.env[p] = eng.ev(a, st)
            return eng.ev(clause.node, sub)
        return NotImplemented

    def call(self, eng, e, st):
        f = e.func
        name = dotted(f)
        if eng.in_spec if hasattr(eng, 'in_spec') else False:
            r = self.spec_call(eng, name, e, st)
            if r is not NotImplemented:
                return r
        # method / function value
        if isinstance(f, ast.Name):
            if f.id in st.env:
                fv = st.env[f.id]
                return self.call_value(eng, fv, e, st, f.id)
            if name in self.builtins:
                args, kwargs = eng.eval_args(e, st)
                return self.builtins[name](eng, e, args, kwargs, st)
            if f.id in self.repo.classes:
                return self.construct(eng, f.id, e, st)
            if f.id in self.repo.funcs:
                return self.call_function(eng, f.id, e, st)
            args, kwargs = eng.eval_args(e, st)
            return self.unknown_call(eng, e, name, args, kwargs, st)
        if isinstance(f, ast.Attribute):
            if name in self.builtins:
                args, kwargs = eng.eval_args(e, st)
                return self.builtins[name](eng, e, args, kwargs, st)
            root = f
            while isinstance(root, ast.Attribute):
                root = root.value
            if isinstance(root, ast.Name) and root.id in LIB_ROOTS and root.id not in st.env:
                args, kwargs = eng.eval_args(e, st)
                return self.lib_call(eng, e, name, args, kwargs, st)
            recv = eng.ev(f.value, st)
            r0 = recv.val if isinstance(recv, Opt) else recv
            if isinstance(r0, Ref) and f.attr not in self.repo.classes.get(r0.cls, {}) and \
                    ((r0.oid, f.attr) in st.heap or (r0.cls, f.attr) in self.field_shapes):
                # a field that holds a callable (self.h, self.objfun, self.prox_uh)
                return self.call_value(eng, self.load_attr(eng, r0, f.attr, st, f), e, st, name)
            return self.call_method(eng, recv, f.attr, e, st)
        fv = eng.ev(f, st)
        return self.call_value(eng, fv, e, st, name)

    def call_value(self, eng, fv, e, st, name):
        if isinstance(fv, Opt):
            fv = fv.val
        if isinstance(fv, Fn):
            if fv.qual:
                return self.call_function(eng, fv.qual, e, st)
            args, kwargs = eng.eval_args(e, st)
            return eng.inline(fv, args, kwargs, st, e)
        if isinstance(fv, BoundMethod):
            return self.call_method(eng, fv.recv, fv.fi.name, e, st)
        if isinstance(fv, Ref):     # callable object: __call__
            return self.call_method(eng, fv, '__call__', e, st)
        args, kwargs = eng.eval_args(e, st)
        if isinstance(fv, Callback):
            return self.callback(eng, fv, e, args, kwargs, st)
        return self.unknown_call(eng, e, name, args, kwargs, st)

    def callback(self, eng, cb, e, args, kwargs, st):
        if cb.name in self.int_callbacks:
            return IntHavoc()
        return UNK

    def call_function(self, eng, qual, e, st):
        fi = self.repo.funcs[qual]
        args, kwargs = eng.eval_args(e, st)
        if qual in self.builtins:
            return self.builtins[qual](eng, e, args, kwargs, st)
        con = self.contracts.get(qual)
        if con is not None and not (len(eng.frames) == 1 and eng.frames[0].qual == qual and False):
            return eng.apply_contract(con, fi, args, kwargs, st, e)
        if qual in self.inline:
            return eng.inline(Fn(fi.node, {}, qual), args, kwargs, st, e, fi=fi)
        return self.unknown_call(eng, e, qual, args, kwargs, st, quals=[qual])

    def call_method(self, eng, recv, meth, e, st):
        if isinstance(recv, Opt):
            recv = recv.val
        args, kwargs = eng.eval_args(e, st)
        cls = recv.cls if isinstance(recv, (Ref, Rec)) else None
        if cls is None and hasattr(recv, 'method'):
            return recv.method(meth, eng, e, args, kwargs, st)
        quals = []
        if cls and cls in self.repo.classes and meth in self.repo.classes[cls]:
            quals = [cls + '.' + meth]
        elif cls is None:
            quals = [c + '.' + meth for c in self.repo.resolve_method(meth)]
        if len(quals) == 1:
            q = quals[0]
            fi = self.repo.funcs[q]
            if q in self.builtins:
                return self.builtins[q](eng, e, [recv] + args, kwargs, st)
            con = self.contracts.get(q)
            if con is not None:
                return eng.apply_contract(con, fi, args, kwargs, st, e, self_val=recv if not is_unk(recv) else Ref('?' + q.split('.')[0], q.split('.')[0]))
            if q in self.inline:
                return eng.inline(Fn(fi.node, {}, q), args, kwargs, st, e, self_val=recv, fi=fi)
        return self.unknown_call(eng, e, meth, args, kwargs, st, quals=quals, recv=recv)

    def construct(self, eng, cls, e, st):
        args, kwargs = eng.eval_args(e, st)
        q = cls + '.__init__'
        fi = self.repo.funcs.get(q)
        if cls in self.records and fi is not None:
            rb = RecBuilder(cls)
            eng.inline(Fn(fi.node, {}, q), args, kwargs, st, e, self_val=rb, fi=fi)
            return Rec(cls, rb.fields)
        con = self.contracts.get(q)
        ref = Ref(fresh_name(cls.lower()), cls)
        self.init_object(st, ref)
        if con is not None and fi is not None:
            eng.apply_contract(con, fi, args, kwargs, st, e, self_val=ref)
            return ref
        if q in self.inline and fi is not None:
            eng.inline(Fn(fi.node, {}, q), args, kwargs, st, e, self_val=ref, fi=fi)
            return ref
        self.unknown_call(eng, e, q, args, kwargs, st, quals=[q] if fi else [])
        return ref

    def unknown_call(self, eng, e, name, args, kwargs, st, quals=None, recv=None):
        """call without contract: havoc exactly its (syntactic, transitive) frame; external functions havoc nothing (A-lib)"""
        w = set()
        for q in quals or []:
            w |= self.repo.frame(q)
        if w:
            for key in list(st.heap):
                if key[1] in w:
                    st.heap[key] = self.fresh_like(key[1], st.heap[key], st, None)
        return UNK

    def lib_call(self, eng, e, name, args, kwargs, st):
        return UNK


LIB_ROOTS = {'np', 'LA', 'math', 'sys', 'STAT', 'pd', 'warnings', 'logging', 'module_logger', 'json', 'trustregion'}


class IntHavoc(Unk):
    """an int returned by a caller-supplied callback (A-callback)"""

    def __init__(self):
        Unk.__init__(self, 'int callback')


class BoundMethod:
    def __init__(self, recv, fi):
        self.recv, self.fi = recv, fi


class RecBuilder:
    def __init__(self, cls):
        self.cls, self.fields = cls, {}


class ParamsMixin:
    """ParameterList values as stable symbols per key (int / bool keys; float keys in real mode), the effect of parameter updates,
    and the derived contract of check_all_params: it returns all_ok == True only if every parameter is inside the type/range
    table of ParameterList.param_type — the table is read from the source on this run (A-params)."""

    def params_init(self, st):
        for key, dflt in self.repo.param_defaults.items():
            t = self.repo.param_types.get(key, (None,))[0]
            if t == 'int':
                st.heap[('params', key)] = fint('P_' + key)
            elif t == 'bool':
                st.heap[('params', key)] = fbool('P_' + key)
            elif t == 'float' and self.float_mode in ('real', 'fp64'):
                none_ok = self.repo.param_types[key][1]
                v = freal('P_' + key) if self.float_mode == 'real' else z3.FP(fresh_name('P_' + key), z3.Float64())
                st.heap[('params', key)] = Opt(fbool('P_' + key + '_none'), v) if none_ok else v

    def params_get(self, eng, node, args, kw, st):
        args = [a for a in args if not (isinstance(a, Ref) and a.cls == 'ParameterList')]
        key = args[0] if args else None
        if 'new_value' in kw or len(args) > 1:
            nv = kw.get('new_value', args[1] if len(args) > 1 else NONE)
            isn = self.is_same(nv, NONE, st)
            if isn is not None and z3.is_true(z3.simplify(isn)):
                pass            # new_value=None is a read
            else:
                def updated(old):
                    # the stored value after an update is the (non-None) new value
                    if isinstance(old, Opt):
                        return Opt(z3.BoolVal(False), self.fresh_like('P', old.val, st))
                    return self.fresh_like('P', old, st)
                for k in list(st.heap):
                    if k[0] != 'params':
                        continue
                    if isinstance(key, StrV) and z3.is_int_value(key.id):
                        if k[1] == INTERN_REV[key.id.as_long()]:
                            st.heap[k] = updated(st.heap[k])
                    elif isinstance(key, StrV):
                        st.heap[k] = merge_val(key.id == intern(k[1]), updated(st.heap[k]), st.heap[k])
                    else:
                        st.heap[k] = self.fresh_like('P', st.heap[k], st)
                return UNK
        if isinstance(key, StrV) and z3.is_int_value(key.id):
            k = ('params', INTERN_REV[key.id.as_long()])
            if k in st.heap:
                return st.heap[k]
        return UNK

    def params_check_all(self, eng, node, args, kw, st):
        """all_ok, bad_keys = params.check_all_params(npt)"""
        ok = fbool('all_ok')
        npt = args[-1] if args else UNK
        facts = []
        for key, (t, none_ok, lo, hi) in self.repo.param_types.items():
            v = st.heap.get(('params', key))
            if v is None or t not in ('int', 'float'):
                continue
            isn = None
            if isinstance(v, Opt):
                isn, v = v.is_none, v.val
            sub = st.copy()
            sub.env['npt'] = npt
            for bound, is_lo in ((lo, True), (hi, False)):
                if isinstance(bound, ast.Constant) and bound.value is None:
                    continue
                b = eng.ev(bound, sub)
                if isnum(b) and isnum(v):
                    a_, b_ = (to_real(v), to_real(b)) if (isreal(v) or isreal(b)) else (v, b)
                    f = (a_ >= b_) if is_lo else (a_ <= b_)
                    facts.append(z3.Or(isn, f) if isn is not None else f)
                elif isfp(v):
                    f = self.compare('>=' if is_lo else '<=', v, b, sub)
                    if isbool(f):
                        facts.append(z3.Or(isn, f) if isn is not None else f)
        if facts:
            st.assume(z3.Implies(ok, z3.And(*facts)))
        return (ok, UNK)
