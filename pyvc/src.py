"""Source loader: parses the *current working tree* of /repo/dfols on every run (never imports it).

Provides: functions by qualified name, classes, module constants, __all__ export lists,
ParameterList defaults (read from the dict-literal assignments in ParameterList.__init__),
per-function source hashes and line spans, and a syntactic frame / call-graph analysis."""
import ast, hashlib, os

MODULES = ['util', 'params', 'model', 'trust_region', 'controller', 'diagnostic_info', 'solver', 'hessian']


class FuncInfo:
    def __init__(self, module, cls, node, src_lines):
        self.module, self.cls, self.node = module, cls, node
        self.name = node.name
        self.qual = (cls + '.' if cls else '') + node.name
        seg = '\n'.join(src_lines[node.lineno - 1:node.end_lineno])
        self.source = seg
        # hash of the AST dump (insensitive to comments/blank lines, sensitive to any code change)
        self.hash = hashlib.sha256(ast.dump(node).encode()).hexdigest()[:16]
        self.span = (node.lineno, node.end_lineno)
        self.file = 'dfols/%s.py' % module
        self.is_static = any(isinstance(d, ast.Name) and d.id == 'staticmethod' for d in node.decorator_list)

    def params(self):
        a = self.node.args
        names = [x.arg for x in a.posonlyargs + a.args]
        defaults = [None] * (len(names) - len(a.defaults)) + list(a.defaults)
        return names, defaults, (a.vararg.arg if a.vararg else None), (a.kwarg.arg if a.kwarg else None)


class Repo:
    def __init__(self, root='/repo'):
        self.root = root
        self.trees, self.lines = {}, {}
        self.funcs = {}          # qual -> FuncInfo   ('Model.change_point', 'solve_main', 'pbox')
        self.classes = {}        # class name -> {method name -> FuncInfo}
        self.consts = {}         # module-level NAME = literal
        self.exports = {}        # module -> __all__ list
        self.param_defaults = {} # key -> ast expr (value expression in ParameterList.__init__)
        self.param_types = {}    # key -> (type_str, nonetype_ok, lower_ast, upper_ast)
        for m in MODULES:
            p = os.path.join(root, 'dfols', m + '.py')
            if not os.path.exists(p):
                continue
            txt = open(p).read()
            t = ast.parse(txt)
            self.trees[m] = t
            self.lines[m] = txt.split('\n')
            for n in t.body:
                if isinstance(n, ast.FunctionDef):
                    fi = FuncInfo(m, None, n, self.lines[m])
                    self.funcs.setdefault(fi.qual, fi)
                elif isinstance(n, ast.ClassDef):
                    self.classes.setdefault(n.name, {})
                    for f in n.body:
                        if isinstance(f, ast.FunctionDef):
                            fi = FuncInfo(m, n.name, f, self.lines[m])
                            self.funcs[fi.qual] = fi
                            self.classes[n.name][f.name] = fi
                elif isinstance(n, ast.Assign) and len(n.targets) == 1 and isinstance(n.targets[0], ast.Name):
                    nm = n.targets[0].id
                    try:
                        val = ast.literal_eval(n.value)
                    except Exception:
                        continue
                    if nm == '__all__':
                        self.exports[m] = val
                    else:
                        self.consts.setdefault(nm, val)
        self._load_params()

    def _load_params(self):
        init = self.funcs.get('ParameterList.__init__')
        if init:
            for n in ast.walk(init.node):
                if isinstance(n, ast.Assign) and len(n.targets) == 1:
                    t = n.targets[0]
                    if (isinstance(t, ast.Subscript) and isinstance(t.value, ast.Attribute) and t.value.attr == 'params'
                            and isinstance(t.slice, ast.Constant) and isinstance(t.slice.value, str)):
                        self.param_defaults[t.slice.value] = n.value
        pt = self.funcs.get('ParameterList.param_type')
        if pt:
            for n in ast.walk(pt.node):
                if isinstance(n, ast.If) and isinstance(n.test, ast.Compare) and isinstance(n.test.left, ast.Name) \
                        and n.test.left.id == 'key' and isinstance(n.test.comparators[0], ast.Constant):
                    key = n.test.comparators[0].value
                    for s in n.body:
                        if isinstance(s, ast.Assign) and isinstance(s.value, ast.Tuple) and len(s.value.elts) == 4:
                            e = s.value.elts
                            self.param_types[key] = (ast.literal_eval(e[0]), ast.literal_eval(e[1]), e[2], e[3])

    def func(self, qual):
        return self.funcs.get(qual)

    def resolve_method(self, name):
        """A-resolve: method call on an unknown receiver is resolved by name over the package's classes."""
        hits = [c for c, ms in self.classes.items() if name in ms and c != 'Hessian']
        return hits

    # ---------------------------------------------------------------- syntactic frames
    def direct_writes(self, fnode):
        """attribute names written (self.f = .., o.f[..] = .., o.f += .., o.f.append(..)) directly in a function body"""
        w = set()
        for n in ast.walk(fnode):
            tgts = []
            if isinstance(n, ast.Assign):
                tgts = n.targets
            elif isinstance(n, (ast.AugAssign, ast.AnnAssign)):
                tgts = [n.target]
            elif isinstance(n, ast.Call) and isinstance(n.func, ast.Attribute) and n.func.attr in MUTATORS:
                b = n.func.value
                while isinstance(b, ast.Subscript):
                    b = b.value
                if isinstance(b, ast.Attribute):
                    w.add(b.attr)
            for t in tgts:
                for x in (t.elts if isinstance(t, (ast.Tuple, ast.List)) else [t]):
                    while isinstance(x, ast.Subscript):
                        x = x.value
                    if isinstance(x, ast.Attribute):
                        w.add(x.attr)
        return w

    def callees(self, fnode):
        out = set()
        for n in ast.walk(fnode):
            if isinstance(n, ast.Call):
                f = n.func
                if isinstance(f, ast.Name):
                    if f.id in self.funcs:
                        out.add(f.id)
                    elif f.id in self.classes:
                        out.add(f.id + '.__init__')
                    elif f.id == 'params':
                        out.add('ParameterList.__call__')
                elif isinstance(f, ast.Attribute):
                    for c in self.resolve_method(f.attr):
                        out.add(c + '.' + f.attr)
        return out

    def frame(self, qual, _seen=None):
        """transitive set of attribute names a function may write (name-based, conservative)"""
        if not hasattr(self, '_frames'):
            self._frames = {}
        if qual in self._frames:
            return self._frames[qual]
        seen = _seen if _seen is not None else set()
        if qual in seen:
            return set()
        seen.add(qual)
        fi = self.funcs.get(qual)
        if fi is None:
            return set()
        w = set(self.direct_writes(fi.node))
        for c in self.callees(fi.node):
            w |= self.frame(c, seen)
        if _seen is None:
            self._frames[qual] = w
        return w

    def reaches(self, qual, target_names, _seen=None):
        """does `qual` transitively call a function whose (unqualified) name is in target_names?"""
        seen = _seen if _seen is not None else set()
        if qual in seen:
            return False
        seen.add(qual)
        fi = self.funcs.get(qual)
        if fi is None:
            return False
        for n in ast.walk(fi.node):
            if isinstance(n, ast.Call):
                nm = n.func.id if isinstance(n.func, ast.Name) else (n.func.attr if isinstance(n.func, ast.Attribute) else None)
                if nm in target_names:
                    return True
        return any(self.reaches(c, target_names, seen) for c in self.callees(fi.node))


MUTATORS = {'append', 'insert', 'pop', 'extend', 'remove', 'clear', 'sort', 'reverse', 'update', 'fill', 'resize', 'put', 'setdefault', 'popitem'}
