#!/usr/bin/env python3
"""usage: python3-vt tools/bundles_on_tree.py <root> [bundle ...]
Runs every bundle (or the named ones) once on the tree <root> and prints, per bundle, the obligations whose verdict differs from what is expected on /repo:
refuted ones that are not the obligation of an open known finding, undecided / untracked ones, failed covers, unsupported syntax.  Used to run the whole
machinery over behaviour-preserving edits (harmless/<id>/patch.diff): every line printed is a potential false alarm (refuted) or loss of decision (undecided)."""
import sys, os, json, importlib, time
here = os.path.dirname(os.path.dirname(os.path.abspath(__file__)))
sys.path.insert(0, here)
from pyvc.run import run_bundle
root = sys.argv[1]
bundles = sys.argv[2:] or ['ledger', 'model', 'box', 'radii', 'table', 'jsonrt', 'inputs', 'paramcheck', 'passthru', 'vecs', 'owner', 'coord', 'dirlen', 'precond', 'strtot', 'svdfloor', 'trlin']
known = {k['obligation'] for k in json.load(open(os.path.join(here, 'known_findings.json'))) if k.get('status') == 'open'}
tot = {'refuted': 0, 'undecided': 0, 'cover': 0, 'unsupported': 0, 'obligations': 0}
for b in bundles:
    t0 = time.time()
    try:
        eng, gen, sol = run_bundle(b, root)
    except Exception as ex:
        print('%-10s GENERATOR-ERROR %r' % (b, ex))
        tot['undecided'] += 1
        continue
    for ob in eng.obls:
        tot['obligations'] += 1
        st = ob.result['status']
        if ob.kind == 'cover':
            if st != 'sat':
                tot['cover'] += 1
                print('%-10s COVER-FAILED %s' % (b, ob.name[:200]))
            continue
        if st == 'unsat':
            continue
        if ob.name in known:
            continue
        if st == 'sat' and not ob.meta.get('untracked') and not ob.meta.get('missing_function') and not ob.meta.get('stale_contract'):
            tot['refuted'] += 1
            print('%-10s REFUTED   %s' % (b, ob.name[:200]))
        else:
            tot['undecided'] += 1
            print('%-10s UNDECIDED %s (%s)' % (b, ob.name[:200], 'stale contract: %s' % ob.meta['stale_contract'][:3] if ob.meta.get('stale_contract') else ('untracked' if ob.meta.get('untracked') else st)))
    for u in eng.unsupported:
        tot['unsupported'] += 1
        print('%-10s UNSUPPORTED %s' % (b, u))
print('TOTAL', json.dumps(tot))
