import sys, importlib, z3
sys.path.insert(0, '/verif')
from pyvc.src import Repo
from pyvc.core import Engine
bundle, qual, pat = sys.argv[1], sys.argv[2], sys.argv[3]
root = sys.argv[4] if len(sys.argv) > 4 else '/repo'
repo = Repo(root); D = importlib.import_module('contracts.' + bundle).build(repo); eng = Engine(repo, D); eng.verify(qual)
for ob in eng.obls:
    if pat in ob.name:
        s = z3.Solver(); s.set('timeout', 30000); s.add(ob.formula()); r = s.check()
        print(ob.name, r)
        print('GOAL', ob.goal)
        if r == z3.sat:
            m = s.model()
            for d in sorted(m.decls(), key=str):
                if d.arity() == 0: print('  ', d, '=', m[d])
