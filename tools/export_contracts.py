#!/usr/bin/env python3
"""python3-vt tools/export_contracts.py <bundle> [root] > file.json : the clause text of a bundle's contracts, for the native run-time monitors (native/rt_model.py)"""
import sys, os, json, importlib
here = os.path.dirname(os.path.dirname(os.path.abspath(__file__)))
sys.path.insert(0, here)


def export(bundle, root='/repo'):
    from pyvc.src import Repo
    D = importlib.import_module('contracts.' + bundle).build(Repo(root))
    out = {'bundle': bundle, 'predicates': {n: (p, c.src) for n, (p, c) in D.predicates.items()}, 'contracts': {}}
    for q, con in D.contracts.items():
        out['contracts'][q] = {'requires': [(c.label, c.src) for c in con.requires], 'ensures': [(c.label, c.src, c.tags) for c in con.ensures],
                               'ghost_return': [(p, e) for p, e in con.ghost_return], 'modifies': con.modifies, 'assumed': con.assumed}
    return out


if __name__ == '__main__':
    print(json.dumps(export(sys.argv[1], sys.argv[2] if len(sys.argv) > 2 else '/repo')))
