#!/bin/bash
# usage: tools/sweep_seeded.sh [pattern] [jobs]   -- runs the registered check of every stored seeded change on a scratch copy of /repo with the change applied
# (never touches /repo); writes one line per change to sweep_results.txt in the current directory:  <id> <property> exit=<code> violations=<n>
# Bounded regression sweep of the checks against the stored changes; not a registered check.
PAT=${1:-.}; JOBS=${2:-3}
HERE=$(cd "$(dirname "$0")/.." && pwd)
cd "$HERE"
: > sweep_results.txt
run_one() {
  id=$1; pid=${id:0:3}
  SC=$(mktemp -d /tmp/sweep.XXXXXX)
  cp -r /repo/dfols $SC/
  if (cd $SC && patch -s -p1 < "$HERE/seeded/$id/patch.diff" >/dev/null 2>&1); then
    OUT=$(timeout 1800 ./check $pid --root $SC 2>&1); CODE=$?
    V=$(echo "$OUT" | grep -c '^VIOLATION')
    echo "$id $pid exit=$CODE violations=$V" >> sweep_results.txt
  else
    echo "$id $pid patch-does-not-apply" >> sweep_results.txt
  fi
  rm -rf $SC
}
export -f run_one; export HERE
ls seeded | grep -E "$PAT" | xargs -P $JOBS -I{} bash -c 'run_one {}'
sort sweep_results.txt > sweep_sorted.txt; grep -vc "exit=1" sweep_sorted.txt
