#!/usr/bin/env python3
"""regenerates /verif/MANIFEST.json from contracts/props.py (single source of truth for what is claimed)"""
import json, sys, os
sys.path.insert(0, os.path.dirname(os.path.dirname(os.path.abspath(__file__))))
from contracts import props
ids = [json.loads(l)['id'] for l in open('/verif/properties.jsonl')]
checks = []
for pid in ids:
    c = props.PROPS.get(pid)
    if not c or c.get('unclaimed'):
        continue
    checks.append({
        'property_id': pid,
        'quick_cmd': './check %s --tier quick' % pid,
        'thorough_cmd': './check %s --tier thorough' % pid,
        'evidence_file': 'evidence/%s.json' % pid,
        'replay_cmd_template': './check %s --replay {path}' % pid,
        'engine': 'pyvc',
        'level_claimed': {'category': c.get('level', 'proof'), 'text': c['level_text'], 'design_ref': c.get('design_ref', 'DESIGN.md section 4 (%s)' % pid)},
        'level_note': c['level_note'],
        'technique': c.get('technique', 'contract-based deductive verification: sidecar contracts on the real functions, VCs generated from the AST of /repo on every run, discharged by z3/cvc5'),
    })
na = []
for pid in ids:
    if pid in props.NOT_APPLICABLE:
        na.append({'property_id': pid, 'reason': props.NOT_APPLICABLE[pid]})
    elif pid not in [c['property_id'] for c in checks]:
        na.append({'property_id': pid, 'reason': 'check not built yet (build phase in progress); see DESIGN.md section 4'})
m = {'version': 1,
     'setup_cmd': props.SETUP_CMD,
     'hooks': {'guard': 'DFOLS_VERIF',
               'enable': 'no instrumentation in /repo: contracts are sidecar files under /verif/contracts; checks parse /repo/dfols/*.py as text on every run; native replay/monitors import the working tree via PYTHONPATH=/repo and monkey-patch from the harness',
               'baseline_off_cmd': 'cd /repo && /venv/bin/python -m pytest -ra -q -p no:cacheprovider --timeout=900 --continue-on-collection-errors',
               'source_commits': [], 'add_only': True},
     'engines': [{'name': 'pyvc', 'path': 'pyvc/', 'serves_properties': [c['property_id'] for c in checks],
                  'kind_free_text': 'own verification-condition generator: state-merging symbolic execution of the real Python AST of /repo/dfols against sidecar contracts (pre/post, loop invariants, class invariants, ghost ledger), obligations discharged by z3 5.1.0 with cvc5 1.0.3 as second back end'}],
     'checks': checks,
     'notes': props.NOTES,
     'not_applicable': na}
json.dump(m, open('/verif/MANIFEST.json', 'w'), indent=1)
print('%d checks, %d not applicable' % (len(checks), len(na)))
