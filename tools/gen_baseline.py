#!/usr/bin/env python3
"""Maintainer command (never run by a check): regenerate /verif/baseline_obligations.json from /repo's current tree.
For every claimed property it runs ./check <id> --quick with PYVC_BASELINE_OUT set and merges the dumped {obligation name: {status, hash}} maps.
The file is read only by the `unknown` rule of pyvc/check.py: an obligation that was discharged on the baseline tree, whose function source has changed
and on which the solvers now answer unknown, is reported as a violation without a failing input instead of silently as undecided."""
import json, os, subprocess, sys, tempfile, shutil
here = os.path.dirname(os.path.dirname(os.path.abspath(__file__)))
man = json.load(open(os.path.join(here, 'MANIFEST.json')))
out = tempfile.mkdtemp(prefix='pyvc_baseline_')
merged = {}
try:
    for c in man['checks']:
        pid = c['property_id'] if 'property_id' in c else c['id']
        p = subprocess.run([os.path.join(here, 'check'), pid, '--quick'], cwd=here, env=dict(os.environ, PYVC_BASELINE_OUT=out), capture_output=True, text=True)
        print(pid, 'exit', p.returncode, p.stdout.strip().split('\n')[-1][:150])
        f = os.path.join(out, pid + '.json')
        if os.path.exists(f):
            merged.update(json.load(open(f)))
    json.dump(merged, open(os.path.join(here, 'baseline_obligations.json'), 'w'), indent=0, sort_keys=True)
    print(len(merged), 'obligations recorded')
finally:
    shutil.rmtree(out, ignore_errors=True)
