import sys, importlib, z3, time
sys.path.insert(0, '/verif')
from pyvc.src import Repo
from pyvc.core import Engine
from pyvc import quant
bundle, qual, pat = sys.argv[1], sys.argv[2], sys.argv[3]
repo = Repo('/repo'); D = importlib.import_module('contracts.' + bundle).build(repo); eng = Engine(repo, D); eng.verify(qual)
for ob in eng.obls:
    if pat in ob.name:
        q = quant.qf_version(ob.hyps, ob.goal)
        hs, g = q
        terms = quant.ground_int_terms(list(ob.hyps) + [g])
        print(ob.name, 'terms:', terms)
        s = z3.Solver(); s.set('timeout', 30000); s.add(*hs); s.add(z3.Not(g)); t=time.time(); r = s.check(); print('QF', r, time.time()-t)
        if r == z3.sat and '-m' in sys.argv:
            m = s.model()
            for d in sorted(m.decls(), key=str):
                if d.arity() == 0: print('  ', d, '=', m[d])
        if '-g' in sys.argv: print(g)
        open('/tmp/q.smt2','w').write('(set-logic ALL)\n'+s.to_smt2())
