#!/usr/bin/env python3
"""Regenerates the table of DESIGN.md section 10.7 (between the seeded-matrix markers) from seeded/*/meta.json and notes.md."""
import json, os, re
here = os.path.dirname(os.path.dirname(os.path.abspath(__file__)))
rows = []
for s in sorted(os.listdir(os.path.join(here, 'seeded'))):
    d = os.path.join(here, 'seeded', s)
    m = json.load(open(os.path.join(d, 'meta.json')))
    title = ''
    if os.path.exists(os.path.join(d, 'notes.md')):
        for l in open(os.path.join(d, 'notes.md')):
            l = l.strip()
            if l.startswith('#'):
                title = re.sub(r'^#+\s*', '', l)
                title = re.sub(r'^%s\s*[:—-]+\s*' % re.escape(s), '', title)
                break
    first = m.get('first_obligations', '').split('|')[0]
    fo = re.sub(r'\s*no-failing-input-found', '', first).replace('_', ' ')
    if len(fo) > 150:
        fo = fo[:147] + '…'
    v, ni = m['violations_reported'], m.get('violations_without_concrete_input')
    how = 'exit %d, %d VIOLATION' % (m['check_exit'], v)
    if ni is not None:
        how += ' (%d with a failing input replayed on the real code)' % (v - ni)
    rows.append('| %s | %s | %s | %s | `%s` |' % (s, m['breaks_property'], title.replace('|', '/')[:120], how, fo.replace('`', "'")))
table = ('| change | property | what the change does | check of that property | first obligation reported |\n'
         '|--------|----------|----------------------|------------------------|---------------------------|\n' + '\n'.join(rows) + '\n')
p = os.path.join(here, 'DESIGN.md')
s = open(p).read()
a, b = '<!-- seeded-matrix:begin -->\n', '<!-- seeded-matrix:end -->'
i, j = s.index(a) + len(a), s.index(b)
open(p, 'w').write(s[:i] + table + s[j:])
print(len(rows), 'rows')
