#!/bin/bash
# compiles lemmas/L1.lean with Lean 4 + Mathlib and records the hash of the accepted source in lemmas/.L1.ok
cd "$(dirname "$0")/../lemmas" || exit 3
H=$(sha256sum L1.lean | cut -d' ' -f1)
OUT=$(timeout ${LEAN_TIMEOUT:-1500} lean L1.lean 2>&1)
RC=$?
echo "$OUT" | tail -5
if [ $RC -ne 0 ] || echo "$OUT" | grep -qi "error\|sorry"; then
  echo "LEAN: L1.lean was NOT accepted (rc=$RC)"; rm -f .L1.ok; exit 1
fi
N=$(echo "$OUT" | grep -c "depends on axioms: \[propext, Classical.choice, Quot.sound\]")
if [ "$N" -lt 2 ]; then echo "LEAN: unexpected axiom report"; rm -f .L1.ok; exit 1; fi
echo "$H" > .L1.ok
echo "LEAN: L1.lean accepted (2 theorems, axioms propext / Classical.choice / Quot.sound only); hash $H"
