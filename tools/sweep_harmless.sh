#!/bin/bash
# usage: tools/sweep_harmless.sh  -- every behaviour-preserving refactoring of harmless/ applied to a scratch copy of /repo, every bundle run on it (tools/bundles_on_tree.py);
# writes harmless_results.txt (one TOTAL line per refactoring plus every REFUTED / COVER-FAILED line).  A REFUTED line on such a tree is a false alarm.  Not a registered check.
HERE=$(cd "$(dirname "$0")/.." && pwd); cd "$HERE"; export PYTHONHASHSEED=0
: > harmless_results.txt
for id in $(ls harmless); do
  SC=$(mktemp -d /tmp/harm.XXXXXX); cp -r /repo/dfols $SC/
  if (cd $SC && patch -s -p1 < "$HERE/harmless/$id/patch.diff" >/dev/null 2>&1); then
    OUT=$(timeout 3000 python3-vt tools/bundles_on_tree.py $SC ledger model box radii table jsonrt inputs paramcheck passthru vecs owner coord coordoff dirlen precond strtot svdfloor trlin trsbox trclip trsnorm trsdec 2>&1)
    echo "$OUT" | grep -E "REFUTED|COVER-FAILED|GENERATOR-ERROR" | sed "s/^/$id /" >> harmless_results.txt
    echo "$id $(echo "$OUT" | grep TOTAL)" >> harmless_results.txt
  else
    echo "$id patch-does-not-apply" >> harmless_results.txt
  fi
  rm -rf $SC
done
