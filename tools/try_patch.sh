#!/bin/bash
# usage: tools/try_patch.sh <patch.diff> <bundle> [quals...]   -- runs a pyvc bundle on a scratch copy of /repo with the patch applied
set -e
P=$(realpath "$1"); shift
SC=$(mktemp -d /tmp/pyvc_sc.XXXXXX)
cp -r /repo/dfols "$SC/"
(cd "$SC" && patch -s -p1 < "$P")
cd /verif && python3-vt -m pyvc.run "$1" --root "$SC" "${@:2}" | grep -v '^ *{' | tail -${TAILN:-12}
rm -rf "$SC"
