#!/bin/bash
# usage: tools/validate_seeded.sh <dir with patch.diff demo.py notes.md> <property id> <seed id>
# confirms the seeded change (suite passes, demo fails with / passes without), stores it under /verif/seeded/<seed id>/ and runs the property's check on the changed tree
SRC=$1; PID=$2; SID=$3
WT=/tmp/seedwt_$SID
git -C /repo worktree remove --force $WT >/dev/null 2>&1
git -C /repo worktree add -q --detach $WT HEAD || exit 3
cd $WT
DEMO_CLEAN=$(PYTHONPATH=$WT OMP_NUM_THREADS=1 timeout 300 /venv/bin/python $SRC/demo.py >/dev/null 2>&1; echo $?)
git apply $SRC/patch.diff || { echo "$SID: patch does not apply"; git -C /repo worktree remove --force $WT; exit 3; }
SUITE=$(cd $WT && /venv/bin/python -m pytest -q -p no:cacheprovider --timeout=300 2>&1 | tail -1)
DEMO_MUT=$(PYTHONPATH=$WT OMP_NUM_THREADS=1 timeout 300 /venv/bin/python $SRC/demo.py >/dev/null 2>&1; echo $?)
cd /verif
OUT=$(timeout 1500 ./check $PID --root $WT 2>&1)
CODE=$?
VIOL=$(echo "$OUT" | grep -c '^VIOLATION')
NOINPUT=$(echo "$OUT" | grep '^VIOLATION' | grep -c 'no-failing-input-found$')
FIRST=$(echo "$OUT" | grep '^VIOLATION' | head -2 | sed 's/.*obligation=//' | cut -c1-160 | tr '\n' '|')
git -C /repo worktree remove --force $WT
mkdir -p /verif/seeded/$SID
[ "$(realpath $SRC)" != "/verif/seeded/$SID" ] && cp $SRC/patch.diff $SRC/demo.py /verif/seeded/$SID/
[ "$(realpath $SRC)" != "/verif/seeded/$SID" ] && [ -f $SRC/notes.md ] && cp $SRC/notes.md /verif/seeded/$SID/notes.md
python3 - <<PY
import json
json.dump({"id": "$SID", "breaks_property": "$PID", "suite_with_change": """$SUITE""".strip(), "demo_exit_unchanged": $DEMO_CLEAN, "demo_exit_with_change": $DEMO_MUT,
           "confirmed": ("118 passed" in """$SUITE""") and $DEMO_CLEAN == 0 and $DEMO_MUT == 1,
           "what_i_ran": "scratch worktree of /repo HEAD: demo on the unchanged tree, git apply patch.diff, pytest (118 tests), demo with the change, ./check $PID --root <worktree>; worktree removed",
           "needs_to_manifest": "see notes.md",
           "check_exit": $CODE, "violations_reported": $VIOL, "violations_without_concrete_input": $NOINPUT, "first_obligations": """$FIRST"""}, open("/verif/seeded/$SID/meta.json", "w"), indent=1)
PY
echo "$SID prop=$PID suite=[$SUITE] demo clean=$DEMO_CLEAN mutated=$DEMO_MUT check_exit=$CODE violations=$VIOL :: $FIRST"
